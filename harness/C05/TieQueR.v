(* The abstraction relation between the CONCRETE queue state of the code regenerated from src/que.c by tools/c2que.py
   (module Gen.QueGen: the recycle pool is an array of cells ptr_ with a fill count cur_ and a capacity mem_) and the state of
   the hand-written model C05/QueDefs.v (the pool is a list of recycled nodes, top first), the shape of the simulation
   statements, and the lemmas about the vocabulary of the generated code that the tie theorems of TieQue*.v use.

     Rq c q :  the array of c is live (not a released block) and has exactly mem_ cells; cur_ <= mem_; the pool list of q is
               the first cur_ cells of the array, top first (cell cur_-1 first ... cell 0 last), all written; cur_ = its length;
               siz_, num_, mem_ are equal.
     R c m  :  same list heap, payload map, fresh address counter, fault schedule and request trace; Rq for both queue objects;
               the fresh address counter is not the null address (a successful a_alloc never returns NULL: the C tests the
               pointer, the model tests the allocator's answer; the counter starts at 3 and only grows).

   Nothing else is assumed of a state: no ring invariant, no bound on the counters (they are unbounded N on both sides, see the
   header of QueDefs.v and of tools/c2que.py), arbitrary (dangling, null) addresses. *)
From Coq Require Import NArith ZArith List Bool Lia FMapPositive.
From LibaV Require Import C05.DListDefs C05.QueDefs.
From Gen Require Import QueGen.
Import ListNotations.
Local Open Scope N_scope.

Definition cells_of (p : parr) : option (list cell) :=
  match p with ANull => Some [] | AArr l => Some l | AGone => None end.

Definition Rq (c : cque) (q : que) : Prop :=
  exists l, cells_of (c_ptr c) = Some l /\ N.of_nat (length l) = c_mem c /\
            c_cur c = N.of_nat (length (q_pool q)) /\ c_cur c <= c_mem c /\
            firstn (length (q_pool q)) l = map Some (rev (q_pool q)) /\
            c_siz c = q_siz q /\ c_num c = q_num q /\ c_mem c = q_mem q.

Definition R (c : cworld) (m : qworld) : Prop :=
  k_h c = w_h m /\ k_val c = w_val m /\ k_fresh c = w_fresh m /\ k_sched c = w_sched m /\ k_trace c = w_trace m /\
  0 < k_fresh c /\ Rq (k_qa c) (w_qa m) /\ Rq (k_qb c) (w_qb m).

(* the simulation statements: state functions with a result, state functions without, readers *)
Definition simw {A : Type} (g : outcome (cworld * A)) (m : outcome (qworld * A)) : Prop :=
  match g, m with
  | Ok (c', r), Ok (m', r') => R c' m' /\ r = r'
  | Fault, Fault => True
  | NoFuel, NoFuel => True
  | _, _ => False
  end.
Definition simu (g : outcome cworld) (m : outcome qworld) : Prop :=
  match g, m with
  | Ok c', Ok m' => R c' m'
  | Fault, Fault => True
  | NoFuel, NoFuel => True
  | _, _ => False
  end.

(* the initial world of the model and its concrete counterpart are related *)
Definition k_world0 : cworld :=
  mkK (w_h q_world0) (w_val q_world0) 3 (mkC ANull 8 0 0 0) (mkC ANull 8 0 0 0) [] [].
Lemma R_world0 : R k_world0 q_world0.
Proof.
  unfold R, k_world0, q_world0; cbn. repeat split; try (exists []; cbn; repeat split; reflexivity || lia).
Qed.

(* ---------------------------------------------------------------- lists *)
Lemma firstn_snoc_nth {A : Type} (l : list A) : forall k xs x,
  firstn (S k) l = xs ++ [x] -> length xs = k -> nth_error l k = Some x /\ firstn k l = xs.
Proof.
  induction l as [|a l IH]; intros k xs x H L.
  - destruct xs; discriminate.
  - destruct k as [|k].
    + destruct xs; [|discriminate]. cbn in H. inversion H; subst. split; reflexivity.
    + destruct xs as [|y xs]; [discriminate|]. cbn in L. inversion L as [L'].
      change (firstn (S (S k)) (a :: l)) with (a :: firstn (S k) l) in H. cbn [app] in H. inversion H; subst.
      destruct (IH (length xs) xs x H2 eq_refl) as [E1 E2]. split; [exact E1|]. cbn [firstn]. rewrite E2. reflexivity.
Qed.

Lemma upd_spec {A : Type} (l : list A) : forall k v, (k < length l)%nat ->
  exists l', upd l k v = Some l' /\ length l' = length l /\ firstn (S k) l' = firstn k l ++ [v].
Proof.
  induction l as [|a l IH]; intros k v H; [cbn in H; lia|].
  destruct k as [|k].
  - exists (v :: l). repeat split.
  - cbn in H. destruct (IH k v ltac:(lia)) as (l' & E & L & F).
    exists (a :: l'). cbn [upd]. rewrite E. repeat split.
    + cbn. rewrite L. reflexivity.
    + change (firstn (S (S k)) (a :: l')) with (a :: firstn (S k) l'). rewrite F. reflexivity.
Qed.

Lemma upd_none {A : Type} (l : list A) : forall k v, (length l <= k)%nat -> upd l k v = None.
Proof.
  induction l as [|a l IH]; intros k v H; [destruct k; reflexivity|].
  destruct k as [|k]; [cbn in H; lia|]. cbn [upd]. rewrite IH by (cbn in H; lia). reflexivity.
Qed.

Lemma resize_spec (l : list cell) (n : nat) : (length l <= n)%nat ->
  length (resize l n) = n /\ forall k, (k <= length l)%nat -> firstn k (resize l n) = firstn k l.
Proof.
  intros H. unfold resize. split.
  - rewrite firstn_length, app_length, repeat_length. lia.
  - intros k Hk. rewrite firstn_firstn. replace (Nat.min k n) with k by lia.
    rewrite firstn_app. replace (k - length l)%nat with 0%nat by lia. cbn. apply app_nil_r.
Qed.

(* ---------------------------------------------------------------- a_size arithmetic of the pool growth *)
Lemma size_up_eq x : N.ldiff ((x + 8) - 1) (8 - 1) = size_up8 x.
Proof.
  unfold size_up8. change (8 - 1) with (N.ones 3). rewrite N.ldiff_ones_r.
  rewrite N.shiftl_mul_pow2, N.shiftr_div_pow2. change (2 ^ 3) with 8.
  replace (x + 8 - 1) with (x + 7) by lia. reflexivity.
Qed.
Lemma size_up8_le n : n <= size_up8 n.
Proof.
  unfold size_up8. pose proof (N.div_mod (n + 7) 8 ltac:(lia)) as E.
  pose proof (N.mod_lt (n + 7) 8 ltac:(lia)). lia.
Qed.
Lemma shiftr1 a : N.shiftr a 1 = N.div2 a.
Proof. symmetry. apply N.div2_spec. Qed.
Lemma mul8_div8 a : 8 * a / 8 = a.
Proof. rewrite N.mul_comm. apply N.div_mul. lia. Qed.

(* ---------------------------------------------------------------- the allocator request *)
Lemma kask_eq c mk :
  kask c mk = (mkK (k_h c) (k_val c) (k_fresh c) (k_qa c) (k_qb c)
                   (match k_sched c with [] => [] | _ :: r => r end)
                   (mk (match k_sched c with [] => true | b :: _ => b end) :: k_trace c),
               match k_sched c with [] => true | b :: _ => b end).
Proof. unfold kask, ask. cbn. destruct (k_sched c); reflexivity. Qed.
Lemma ask_eq m mk :
  ask m mk = (mkW (w_h m) (w_val m) (w_fresh m) (w_qa m) (w_qb m)
                  (match w_sched m with [] => [] | _ :: r => r end)
                  (mk (match w_sched m with [] => true | b :: _ => b end) :: w_trace m),
              match w_sched m with [] => true | b :: _ => b end).
Proof. unfold ask. destruct (w_sched m); reflexivity. Qed.

(* the relation and the two ways of changing a world *)
Lemma R_getq c m s : R c m -> Rq (kgetq c s) (getq m s).
Proof. intros (_ & _ & _ & _ & _ & _ & A & B). destruct s; assumption. Qed.
Lemma R_setq c m s q mq : R c m -> Rq q mq -> R (ksetq c s q) (setq m s mq).
Proof.
  intros (E1 & E2 & E3 & E4 & E5 & F & A & B) Q. destruct s; unfold R, ksetq, setq; cbn; repeat split; assumption.
Qed.
Lemma R_seth c m h : R c m -> R (kseth c h) (seth m h).
Proof. intros (E1 & E2 & E3 & E4 & E5 & F & A & B). unfold R, kseth, seth; cbn. repeat split; assumption. Qed.
Lemma R_ask c m mk : R c m ->
  snd (kask c mk) = snd (ask m mk) /\ R (fst (kask c mk)) (fst (ask m mk)) /\
  (forall s, kgetq (fst (kask c mk)) s = kgetq c s) /\ (forall s, getq (fst (ask m mk)) s = getq m s) /\
  k_h (fst (kask c mk)) = k_h c /\ k_val (fst (kask c mk)) = k_val c /\ k_fresh (fst (kask c mk)) = k_fresh c /\
  w_h (fst (ask m mk)) = w_h m /\ w_val (fst (ask m mk)) = w_val m /\ w_fresh (fst (ask m mk)) = w_fresh m.
Proof.
  intros (E1 & E2 & E3 & E4 & E5 & F & A & B). rewrite kask_eq, ask_eq. cbn [fst snd]. rewrite E4, E5.
  repeat split; try (intros []; reflexivity); cbn; assumption.
Qed.

(* ---------------------------------------------------------------- the pool as a stack in the array *)
Lemma push_cell (l : list cell) (pool : list id) (node : id) :
  firstn (length pool) l = map Some (rev pool) -> (length pool < length l)%nat ->
  exists l', upd l (length pool) (Some node) = Some l' /\ length l' = length l /\
             firstn (length (node :: pool)) l' = map Some (rev (node :: pool)).
Proof.
  intros F L. destruct (upd_spec l (length pool) (Some node) L) as (l' & E & Ll & Ff).
  exists l'. split; [exact E|]. split; [exact Ll|].
  cbn [length rev]. rewrite Ff, F, map_app. reflexivity.
Qed.
Lemma pop_cell (l : list cell) (n : id) (rest : list id) :
  firstn (length (n :: rest)) l = map Some (rev (n :: rest)) ->
  nth_error l (length rest) = Some (Some n) /\ firstn (length rest) l = map Some (rev rest).
Proof.
  cbn [length rev]. rewrite map_app. cbn [map]. intros F.
  apply (firstn_snoc_nth l (length rest) (map Some (rev rest)) (Some n) F). rewrite map_length, rev_length. reflexivity.
Qed.
Lemma resize_firstn (l : list cell) (n k : nat) : (length l <= n)%nat -> (k <= length l)%nat ->
  firstn k (resize l n) = firstn k l.
Proof. intros H K. apply (proj2 (resize_spec l n H)). exact K. Qed.
Lemma resize_length (l : list cell) (n : nat) : (length l <= n)%nat -> length (resize l n) = n.
Proof. intros H. apply (proj1 (resize_spec l n H)). Qed.
Lemma grow_gt mem : mem < size_up8 (mem + N.div2 mem + 1).
Proof.
  pose proof (size_up8_le (mem + N.div2 mem + 1)) as H. revert H. generalize (N.div2 mem). intros d H.
  remember (size_up8 (mem + d + 1)) as u. lia.
Qed.
Lemma push_resized (l : list cell) (pool : list id) (node : id) (n : nat) :
  firstn (length pool) l = map Some (rev pool) -> (length pool <= length l)%nat -> (length l <= n)%nat ->
  (length pool < n)%nat ->
  exists l', upd (resize l n) (length pool) (Some node) = Some l' /\ length l' = n /\
             firstn (length (node :: pool)) l' = map Some (rev (node :: pool)).
Proof.
  intros F L1 L2 L3.
  destruct (push_cell (resize l n) pool node) as (l' & E & Ll & Ff).
  - rewrite resize_firstn by assumption. exact F.
  - rewrite resize_length by assumption. exact L3.
  - exists l'. rewrite resize_length in Ll by assumption. auto.
Qed.

(* ---------------------------------------------------------------- the caller's store through a returned element pointer *)
(* the model's q_push / q_insert include the store of the payload v by the caller (`*(T * )a_que_push_back(ctx) = v`); the C
   function only returns the pointer: the generated function is followed by that store *)
Definition ksetv (w : cworld) (a : id) (v : Z) : cworld :=
  mkK (k_h w) (vset (k_val w) a v) (k_fresh w) (k_qa w) (k_qb w) (k_sched w) (k_trace w).
Definition then_store (r : outcome (cworld * id)) (v : Z) : outcome (cworld * id) :=
  match r with
  | Ok (c', p) => Ok (if N.eqb p 0 then c' else ksetv c' p v, p)
  | Fault => Fault
  | NoFuel => NoFuel
  end.
Lemma R_setv c m a v : R c m -> R (ksetv c a v) (setv m a v).
Proof.
  intros (E1 & E2 & E3 & E4 & E5 & F & A & B). unfold R, ksetv, setv; cbn. rewrite E2. repeat split; assumption.
Qed.
Lemma R_fuel c m : R c m -> kfuel c = fuel_of m.
Proof. intros (_ & _ & E3 & _). unfold kfuel, fuel_of. rewrite E3. reflexivity. Qed.
Lemma R_heap c m : R c m -> k_h c = w_h m.
Proof. intros (E & _). exact E. Qed.
Lemma bind_eta {A B : Type} (r : outcome (A * B)) : bind r (fun '(a, b) => Ok (a, b)) = r.
Proof. destruct r as [[a b]| |]; reflexivity. Qed.
