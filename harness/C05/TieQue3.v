(* Second part of the tie between the queue functions regenerated from src/que.c / include/a/que.h (Gen.QueGen) and the model
   C05/QueDefs.v: element swap, the insertion sorts, a_que_drop, a_que_swap, a_que_setz.  Statement shapes and the relation R:
   see TieQueR.v and TieQue.v.  Comparison callbacks are arbitrary functions cmp : Z -> Z -> Z of the two payloads (as in the
   model); the element destructor is NULL (as in the model). *)
From Coq Require Import NArith ZArith List Bool Lia FMapPositive.
From LibaV Require Import C05.DListDefs C05.DListProofs C05.QueDefs C05.AccDefs C05.QueSpec C05.QueProofs.
From Gen Require Import QueGen TieQueR TieQue.
Import ListNotations.
Local Open Scope N_scope.

Lemma R_val c m : R c m -> k_val c = w_val m.
Proof. intros (_ & E & _). exact E. Qed.
Lemma R_num c m s : R c m -> c_num (kgetq c s) = q_num (getq m s).
Proof. intros HR. destruct (R_getq c m s HR) as (l & _ & _ & _ & _ & _ & _ & Hn & _). exact Hn. Qed.
(* a world that differs from c in its heap only, whatever the number of stores that led to it *)
Ltac Rheap c HR := match goal with |- R _ (seth ?m ?h) => change (R (kseth c h) (seth m h)); apply R_seth; exact HR end.

(* ---------------------------------------------------------------- a_que_swap_ *)
Theorem tie_a_que_swap_ : forall c m l r, R c m -> simu (a_que_swap_ c l r) (q_swap_elem m l r).
Proof.
  intros c m l r HR. unfold a_que_swap_, q_swap_elem, simu. rewrite (R_heap c m HR).
  destruct (rd_next (w_h m) l) as [ln|]; [|exact I]. cbn [lift bind].
  destruct (N.eqb ln r).
  - destruct (l_del_node (w_h m) l) as [h1|]; [|exact I]. cbn [lift bind k_h kseth].
    destruct (l_add_next h1 r l) as [h2|]; [|exact I]. cbn [lift bind]. Rheap c HR.
  - destruct (rd_next (w_h m) r) as [rn|]; [|exact I]. cbn [lift bind].
    destruct (N.eqb rn l).
    + destruct (l_del_node (w_h m) r) as [h1|]; [|exact I]. cbn [lift bind k_h kseth].
      destruct (l_add_next h1 l r) as [h2|]; [|exact I]. cbn [lift bind]. Rheap c HR.
    + destruct (l_swap_node (w_h m) l r) as [h1|]; [|exact I]. cbn [lift bind]. Rheap c HR.
Qed.

(* ---------------------------------------------------------------- a_que_sort_fore / a_que_sort_back *)
Lemma sort_fore_loop_scan c s cmp it itv : vget (k_val c) it = Some itv -> forall fuel at_,
  a_que_sort_fore_loop1 fuel c s cmp it at_ = scan_fore cmp (k_h c) (k_val c) (qaddr s) itv at_ fuel.
Proof.
  intros Hv. induction fuel as [|fuel IH]; intros at_; [reflexivity|].
  cbn [a_que_sort_fore_loop1 scan_fore]. rewrite Hv. cbn [lift bind].
  destruct (vget (k_val c) at_) as [v|]; [|reflexivity]. cbn [lift bind].
  destruct (Z.leb (cmp itv v) 0); [reflexivity|].
  destruct (rd_next (k_h c) at_) as [n|]; [|reflexivity]. cbn [lift bind].
  destruct (N.eqb n (qaddr s)); [reflexivity|]. apply IH.
Qed.
Lemma sort_back_loop_scan c s cmp it itv : vget (k_val c) it = Some itv -> forall fuel at_,
  a_que_sort_back_loop1 fuel c s cmp it at_ = scan_back cmp (k_h c) (k_val c) (qaddr s) itv at_ fuel.
Proof.
  intros Hv. induction fuel as [|fuel IH]; intros at_; [reflexivity|].
  cbn [a_que_sort_back_loop1 scan_back].
  destruct (vget (k_val c) at_) as [v|]; [|reflexivity]. cbn [lift bind]. rewrite Hv. cbn [lift bind].
  destruct (Z.leb (cmp v itv) 0); [reflexivity|].
  destruct (rd_prev (k_h c) at_) as [n|]; [|reflexivity]. cbn [lift bind].
  destruct (N.eqb n (qaddr s)); [reflexivity|]. apply IH.
Qed.

Theorem tie_a_que_sort_fore : forall c m s cmp, R c m -> simu (a_que_sort_fore c s cmp) (q_sort_fore cmp m s).
Proof.
  intros c m s cmp HR. unfold a_que_sort_fore, q_sort_fore, simu. rewrite (R_num c m s HR).
  destruct (N.ltb 1 (q_num (getq m s))); [|exact HR].
  cbv zeta. rewrite <- (R_fuel c m HR), <- (R_heap c m HR), <- (R_val c m HR).
  destruct (rd_next (k_h c) (qaddr s)) as [it|]; [|exact I]. cbn [lift bind].
  destruct (rd_next (k_h c) it) as [at0|] eqn:Eitn; [|exact I]. cbn [lift bind].
  destruct (vget (k_val c) it) as [itv|] eqn:Ev.
  2:{ unfold kfuel. cbn [a_que_sort_fore_loop1]. rewrite Ev. exact I. }
  rewrite (sort_fore_loop_scan c s cmp it itv Ev). cbn [lift bind].
  destruct (scan_fore cmp (k_h c) (k_val c) (qaddr s) itv at0 (kfuel c)) as [at1| |]; [|exact I|exact I]. cbn [bind].
  destruct (N.eqb at1 at0); [exact HR|].
  destruct (rd_prev (k_h c) at1) as [at2|]; [|exact I]. cbn [lift bind].
  destruct (rd_prev (k_h c) it) as [itp|]; [|exact I]. cbn [lift bind].
  destruct (l_link (k_h c) itp at0) as [h1|]; [|exact I]. cbn [lift bind k_h kseth].
  destruct (rd_next h1 at2) as [a2n|]; [|exact I]. cbn [lift bind].
  destruct (l_link h1 it a2n) as [h2|]; [|exact I]. cbn [lift bind].
  destruct (l_link h2 at2 it) as [h3|]; [|exact I]. cbn [lift bind]. Rheap c HR.
Qed.
Theorem tie_a_que_sort_back : forall c m s cmp, R c m -> simu (a_que_sort_back c s cmp) (q_sort_back cmp m s).
Proof.
  intros c m s cmp HR. unfold a_que_sort_back, q_sort_back, simu. rewrite (R_num c m s HR).
  destruct (N.ltb 1 (q_num (getq m s))); [|exact HR].
  cbv zeta. rewrite <- (R_fuel c m HR), <- (R_heap c m HR), <- (R_val c m HR).
  destruct (rd_prev (k_h c) (qaddr s)) as [it|]; [|exact I]. cbn [lift bind].
  destruct (rd_prev (k_h c) it) as [at0|] eqn:Eitn; [|exact I]. cbn [lift bind].
  destruct (vget (k_val c) it) as [itv|] eqn:Ev.
  2:{ unfold kfuel. cbn [a_que_sort_back_loop1]. destruct (vget (k_val c) at0); [|exact I]. cbn [lift bind]. rewrite Ev. exact I. }
  rewrite (sort_back_loop_scan c s cmp it itv Ev). cbn [lift bind].
  destruct (scan_back cmp (k_h c) (k_val c) (qaddr s) itv at0 (kfuel c)) as [at1| |]; [|exact I|exact I]. cbn [bind].
  destruct (N.eqb at1 at0); [exact HR|].
  destruct (rd_next (k_h c) at1) as [at2|]; [|exact I]. cbn [lift bind].
  destruct (rd_next (k_h c) it) as [itn|]; [|exact I]. cbn [lift bind].
  destruct (l_link (k_h c) at0 itn) as [h1|]; [|exact I]. cbn [lift bind k_h kseth].
  destruct (rd_prev h1 at2) as [a2p|]; [|exact I]. cbn [lift bind].
  destruct (l_link h1 a2p it) as [h2|]; [|exact I]. cbn [lift bind].
  destruct (l_link h2 it at2) as [h3|]; [|exact I]. cbn [lift bind]. Rheap c HR.
Qed.

(* ---------------------------------------------------------------- a_que_push_sort *)
Lemma push_sort_loop_scan c s cmp key : forall fuel it,
  a_que_push_sort_loop1 fuel c s key cmp it = scan_back cmp (k_h c) (k_val c) (qaddr s) key it fuel.
Proof.
  induction fuel as [|fuel IH]; intros it; [reflexivity|].
  cbn [a_que_push_sort_loop1 scan_back].
  destruct (vget (k_val c) it) as [v|]; [|reflexivity]. cbn [lift bind].
  destruct (Z.leb (cmp v key) 0); [reflexivity|].
  destruct (rd_prev (k_h c) it) as [n|]; [|reflexivity]. cbn [lift bind].
  destruct (N.eqb n (qaddr s)); [reflexivity|]. apply IH.
Qed.
Theorem tie_a_que_push_sort : forall c m s key cmp, R c m ->
  simw (then_store (a_que_push_sort c s key cmp) key) (q_push_sort cmp m s key).
Proof.
  intros c m s key cmp HR. unfold a_que_push_sort, q_push_sort. cbv zeta. rewrite (R_heap c m HR).
  destruct (rd_prev (w_h m) (qaddr s)) as [it0|]; [|exact I]. cbn [lift bind].
  use_tie (tie_a_que_new_ c m s HR). destruct HT as [HR1 <-]. cbn [bind].
  destruct (N.eqb r1 0) eqn:Hz; [cbn; split; [exact HR1|reflexivity]|].
  rewrite (R_num c1 m1 s HR1).
  assert (Tail : forall it,
    simw (then_store
            (bind (lift (rd_next (k_h c1) it)) (fun t2 =>
             bind (lift (l_link (k_h c1) r1 t2)) (fun h1 =>
             let w2 := kseth c1 h1 in
             bind (lift (l_link (k_h w2) it r1)) (fun h2 =>
             let w3 := kseth w2 h2 in Ok (w3, r1))))) key)
         (doo itn <- lift (rd_next (w_h m1) it) ;
          doo h1 <- lift (l_link (w_h m1) r1 itn) ;
          doo h2 <- lift (l_link h1 it r1) ; Ok (setv (seth m1 h2) r1 key, r1))).
  { intros it. rewrite (R_heap c1 m1 HR1).
    destruct (rd_next (w_h m1) it) as [itn|]; [|exact I]. cbn [lift bind].
    destruct (l_link (w_h m1) r1 itn) as [h1|]; [|exact I]. cbn [lift bind k_h kseth].
    destruct (l_link h1 it r1) as [h2|]; [|exact I]. cbn [lift bind then_store simw]. rewrite Hz.
    split; [|reflexivity]. apply R_setv. Rheap c1 HR1. }
  destruct (N.ltb 1 (q_num (getq m1 s))).
  - rewrite push_sort_loop_scan, (R_fuel c1 m1 HR1).
    replace (scan_back cmp (k_h c1) (k_val c1)) with (scan_back cmp (w_h m1) (w_val m1))
      by (rewrite (R_heap c1 m1 HR1), (R_val c1 m1 HR1); reflexivity).
    destruct (scan_back cmp (w_h m1) (w_val m1) (qaddr s) key it0 (fuel_of m1)) as [it| |]; [|exact I|exact I].
    cbn [bind]. exact (Tail it).
  - exact (Tail it0).
Qed.

(* ---------------------------------------------------------------- a_que_drop *)
Lemma wr_next_live h a v h' x : wr_next h a v = Some h' -> live h x -> live h' x.
Proof.
  intros E L. assert (La : live h a). { unfold wr_next in E. destruct (dget h a) eqn:D; [eexists; eauto|discriminate]. }
  destruct (wr_next_spec h a v La) as (h2 & E2 & _ & _ & _ & Lv). rewrite E in E2. inversion E2; subst. apply Lv. exact L.
Qed.
Lemma wr_prev_live h a v h' x : wr_prev h a v = Some h' -> live h x -> live h' x.
Proof.
  intros E L. assert (La : live h a). { unfold wr_prev in E. destruct (dget h a) eqn:D; [eexists; eauto|discriminate]. }
  destruct (wr_prev_spec h a v La) as (h2 & E2 & _ & _ & _ & Lv). rewrite E in E2. inversion E2; subst. apply Lv. exact L.
Qed.
Lemma l_link_live h a b h' x : l_link h a b = Some h' -> live h x -> live h' x.
Proof.
  unfold l_link. intros E L. destruct (wr_next h a b) as [h1|] eqn:E1; [|discriminate].
  eapply wr_prev_live; [exact E|]. eapply wr_next_live; eauto.
Qed.
Lemma l_init_live h a h' x : l_init h a = Some h' -> live h x -> live h' x.
Proof.
  unfold l_init. intros E L. destruct (wr_next h a a) as [h1|] eqn:E1; [|discriminate].
  eapply wr_prev_live; [exact E|]. eapply wr_next_live; eauto.
Qed.
Lemma l_del_node_live h a h' x : l_del_node h a = Some h' -> live h x -> live h' x.
Proof.
  unfold l_del_node, l_del_. intros E L. destruct (rd_prev h a); [|discriminate]. destruct (rd_next h a); [|discriminate].
  eapply l_link_live; eauto.
Qed.
Lemma q_die_heap m s n m1 rc : q_die_ m s n = Ok (m1, rc) -> w_h m1 = w_h m.
Proof.
  unfold q_die_. destruct (N.eqb n 0); [intros E; inversion E; reflexivity|].
  destruct (N.leb (q_mem (getq m s)) (N.of_nat (length (q_pool (getq m s))))).
  - rewrite ask_eq. destruct (match w_sched m with [] => true | b :: _ => b end).
    + destruct (N.ltb _ _); [|discriminate]. intros E; inversion E. destruct s; reflexivity.
    + intros E; inversion E. reflexivity.
  - intros E; inversion E. destruct s; reflexivity.
Qed.
Lemma bind_assoc {A B C : Type} (r : outcome A) (f : A -> outcome B) (g : B -> outcome C) :
  bind (bind r f) g = bind r (fun x => bind (f x) g).
Proof. destruct r; reflexivity. Qed.

Definition drop_end (r : (cworld * Z) + cworld) : outcome (cworld * Z) :=
  match r with inl v => Ok v | inr w => Ok (w, 0%Z) end.
Definition drop_walk (fuel : nat) (c : cworld) (s : bool) : outcome (cworld * Z) :=
  bind (lift (rd_next (k_h c) (qaddr s))) (fun node => bind (a_que_drop_loop1 fuel c s (qaddr s) node) drop_end).
(* the C reads head->next and then tests the loop condition, the model takes a unit of fuel and then reads: the two agree
   once the sentinel is known to be allocated, which the first read establishes and no list primitive undoes *)
Lemma drop_loop_sim s : forall fuel c m, R c m -> live (w_h m) (qaddr s) ->
  simw (drop_walk fuel c s) (q_drop_loop m s fuel).
Proof.
  induction fuel as [|fuel IH]; intros c m HR Lh; unfold drop_walk; rewrite (R_heap c m HR).
  - destruct Lh as [nd Hd]. unfold rd_next. rewrite Hd. exact I.
  - cbn [q_drop_loop]. destruct (rd_next (w_h m) (qaddr s)) as [node|]; [|exact I]. cbn [lift bind a_que_drop_loop1].
    destruct (N.eqb node (qaddr s)); [cbn; split; [exact HR|reflexivity]|].
    unfold q_take_rc. pose proof (q_die_heap m s node) as Hh.
    use_tie (tie_a_que_die_ c m s node HR). destruct HT as [HR1 <-]. cbn [bind].
    specialize (Hh m1 r1 eq_refl).
    destruct (Z.eqb r1 0) eqn:Hz.
    2:{ cbn [bind drop_end simw fst snd]. rewrite Hz. split; [exact HR1|reflexivity]. }
    rewrite (R_heap c1 m1 HR1).
    destruct (l_del_node (w_h m1) node) as [h1|] eqn:E1; [|exact I]. cbn [lift bind k_h kseth].
    destruct (l_init h1 node) as [h2|] eqn:E2; [|exact I]. cbn [lift bind fst snd Z.eqb].
    assert (HR3 : R (kseth c1 h2) (seth m1 h2)) by (apply R_seth; exact HR1).
    assert (L3 : live (w_h (seth m1 h2)) (qaddr s)).
    { cbn [w_h seth]. eapply l_init_live; [exact E2|]. eapply l_del_node_live; [exact E1|]. rewrite Hh. exact Lh. }
    specialize (IH (kseth c1 h2) (seth m1 h2) HR3 L3). unfold drop_walk in IH. rewrite bind_assoc. exact IH.
Qed.
Lemma drop_top c m s : R c m ->
  simw (bind (lift (rd_next (k_h c) (qaddr s))) (fun node =>
        bind (a_que_drop_loop1 (kfuel c) c s (qaddr s) node) (fun r =>
        match r with inl v => Ok v | inr w => Ok (w, 0%Z) end)))
       (q_drop_loop m s (fuel_of m)).
Proof.
  intros HR. destruct (rd_next (w_h m) (qaddr s)) as [n|] eqn:E.
  - rewrite (R_fuel c m HR). apply (drop_loop_sim s (fuel_of m) c m HR). eapply rd_next_live; eauto.
  - rewrite (R_heap c m HR), E. unfold fuel_of. cbn [q_drop_loop lift bind]. rewrite E. exact I.
Qed.

Theorem tie_a_que_drop : forall c m s, R c m -> simw (a_que_drop c s) (q_drop m s).
Proof.
  intros c m s HR. unfold a_que_drop, q_drop, q_reserve. cbv zeta.
  destruct (N.ltb (c_mem (kgetq c s)) (c_cur (kgetq c s) + c_num (kgetq c s))) eqn:Hres.
  2:{ destruct (R_getq c m s HR) as (l & _ & _ & Hcur & _ & _ & _ & Hn & Hm).
      rewrite <- Hcur, <- Hn, <- Hm, Hres. exact (drop_top c m s HR). }
  revert Hres. setup HR s; kred; intros Hres.
  all: rewrite Hm in *; clear Hm; rewrite <- Hcur; rewrite Hres;
       apply N.ltb_lt in Hres; rewrite size_up_eq;
       pose proof (size_up8_le (ccur + mnum)) as Hup; set (mem' := size_up8 (ccur + mnum)) in *; clearbody mem';
       (destruct cp as [|l0|]; cbn [cells_of] in Hc; [| |discriminate]); inversion Hc; subst l; clear Hc; cbn [length] in *;
       unfold pool_realloc; kred;
       replace (N.eqb (8 * mem') 0) with false by (symmetry; apply N.eqb_neq; lia);
       rewrite kask_eq, ask_eq; kred;
       (destruct (match sc with [] => true | b :: _ => b end); kred;
        [|split; [Rsplit; (Rqsplit (@nil cell) || Rqsplit l0)|reflexivity]]);
       rewrite mul8_div8;
       match goal with |- simw _ (q_drop_loop ?M _ _) =>
         match goal with |- context [a_que_drop_loop1 (kfuel ?C) ?C _ _ _] => apply (drop_top C M) end end;
       Rsplit;
       match goal with |- Rq {| c_ptr := AArr (resize ?L ?n) |} _ =>
         Rqsplit (resize L n); try (rewrite resize_length; cbn [length]; lia);
         rewrite resize_firstn; cbn [length]; try lia; assumption end.
Qed.

(* ---------------------------------------------------------------- a_que_move_ (static helper of a_que_swap), a_que_swap *)
Theorem tie_a_que_move_ : forall c s f,
  a_que_move_ c s f = match q_move_ (k_h c) (qaddr s) (qaddr f) with
                      | Ok h' => Ok (kseth c h') | Fault => Fault | NoFuel => NoFuel end.
Proof.
  intros c s f. unfold a_que_move_, q_move_. cbv zeta.
  destruct (rd_next (k_h c) (qaddr s)) as [n|] eqn:E; [|reflexivity]. cbn [lift bind].
  destruct (N.eqb n (qaddr f)).
  - destruct (l_init (k_h c) (qaddr s)); reflexivity.
  - destruct (wr_prev (k_h c) n (qaddr s)) as [h1|]; [|reflexivity]. cbn [lift bind k_h kseth].
    destruct (rd_prev h1 (qaddr s)) as [p|]; [|reflexivity]. cbn [lift bind].
    destruct (wr_next h1 p (qaddr s)); reflexivity.
Qed.

Lemma dset_2_1 h a b : dset (dset h 2 a) 1 b = dset (dset h 1 b) 2 a.
Proof. unfold dset. destruct h as [|l o r]; cbn; [reflexivity|]. destruct l; reflexivity. Qed.

Theorem tie_a_que_swap : forall c m s1 s2, R c m -> simu (a_que_swap c s1 s2) (q_swap m s1 s2).
Proof.
  intros c m s1 s2 HR. unfold a_que_swap, q_swap, simu.
  destruct (Bool.eqb s1 s2) eqn:Es; [exact HR|].
  unfold q_struct_swap, struct_ld.
  destruct c as [h v f qa qb sc tr]; destruct m as [mh mv mf mqa mqb msc mtr];
  destruct HR as (E1 & E2 & E3 & E4 & E5 & Efr & QA & QB);
  cbn [k_h k_val k_fresh k_sched k_trace k_qa k_qb w_h w_val w_fresh w_sched w_trace w_qa w_qb] in E1, E2, E3, E4, E5, Efr, QA, QB;
  subst mh mv mf msc mtr.
  destruct s1, s2; try discriminate; cbn [qaddr]; kred.
  all: destruct (dget h 1) as [na|]; [|destruct (dget h 2); exact I]; (destruct (dget h 2) as [nb|]; [|exact I]).
  all: unfold struct_st; kred; rewrite tie_a_que_move_; cbn [qaddr]; kred; try rewrite dset_2_1.
  all: match goal with |- context [q_move_ ?H ?a ?b] => destruct (q_move_ H a b) as [h1| |]; try exact I end; cbn [bind].
  all: rewrite tie_a_que_move_; cbn [qaddr]; kred.
  all: match goal with |- context [q_move_ ?H ?a ?b] => destruct (q_move_ H a b) as [h2| |]; try exact I end; cbn [bind]; kred.
  all: Rsplit.
Qed.

(* ---------------------------------------------------------------- a_que_setz *)
(* the loop  while (ctx->cur_) a_alloc(ctx->ptr_[--ctx->cur_], 0);  hands every recycled node back, top of the stack first:
   the model's free_nodes over the pool list.  It needs what the queue invariant says of the pool: the recycled nodes are
   allocated, distinct and fewer than the fresh address counter (the model's free_nodes cannot fail and has no fuel) *)
Lemma setz_loop_sim s : forall pool c m fuel, R c m -> q_pool (getq m s) = pool -> NoDup pool ->
  (forall x, In x pool -> x <> 0 /\ live (w_h m) x) -> (length pool < fuel)%nat ->
  exists c', a_que_setz_loop1 fuel c s = Ok c' /\
             forall z, R (set_siz c' s z) (setq (free_nodes m pool) s (mkQ [] z (q_num (getq m s)) (q_mem (getq m s)))).
Proof.
  induction pool as [|n rest IH]; intros c m fuel HR Hp Hnd Hlive Hfuel.
  - destruct fuel as [|fuel]; [cbn in Hfuel; lia|]. exists c. revert Hp. setup HR s; kred; intros Hp; subst pool.
    all: cbn [a_que_setz_loop1]; kred; cbn [length N.of_nat] in Hcur; subst ccur; cbn [N.eqb]; split; [reflexivity|].
    all: intros z; unfold free_nodes; cbn [fold_left]; Rsplit; Rqsplit l.
  - destruct fuel as [|fuel]; [cbn in Hfuel; lia|]. cbn [length] in Hfuel.
    inversion Hnd as [|? ? Hnin Hnd']; subst.
    destruct (Hlive n (or_introl eq_refl)) as [Hnz [dn Hdn]].
    revert Hp Hlive Hdn. setup HR s; kred; intros Hp Hlive Hdn; subst pool.
    all: cbn [a_que_setz_loop1]; kred; cbn [length] in *.
    all: replace (N.eqb ccur 0) with false by (symmetry; apply N.eqb_neq; lia).
    all: (destruct cp as [|l0|]; cbn [cells_of] in Hc; [inversion Hc; subst l; cbn in Hl; lia| |discriminate]).
    all: inversion Hc; subst l0; clear Hc; unfold pool_ld; kred.
    all: destruct (pop_cell l n rest Hf) as [Enth Efst].
    all: replace (N.to_nat (0 + (ccur - 1))) with (length rest) by lia; rewrite Enth; kred;
         unfold node_free; kred; replace (N.eqb n 0) with false by (symmetry; apply N.eqb_neq; exact Hnz);
         rewrite Hdn; kred.
    all: assert (Hl2 : forall x, In x rest -> x <> 0 /\ live (ddel h n) x)
           by (intros x Hx; destruct (Hlive x (or_intror Hx)) as [Hxz Hxl]; split; [exact Hxz|];
               unfold live; rewrite dget_ddel_other by (intros ->; contradiction); exact Hxl).
    1: match goal with |- exists c', a_que_setz_loop1 _ ?C2 _ = _ /\ _ =>
         destruct (IH C2 (mkW (ddel h n) (vdel v n) f mqa (mkQ rest msz mnum mmem) sc tr) fuel) as (c' & Ec & Rc);
         [Rsplit; Rqsplit l|reflexivity|exact Hnd'|exact Hl2|lia|] end.
    2: match goal with |- exists c', a_que_setz_loop1 _ ?C2 _ = _ /\ _ =>
         destruct (IH C2 (mkW (ddel h n) (vdel v n) f (mkQ rest msz mnum mmem) mqb sc tr) fuel) as (c' & Ec & Rc);
         [Rsplit; Rqsplit l|reflexivity|exact Hnd'|exact Hl2|lia|] end.
    all: exists c'; split; [exact Ec|]; intros z; exact (Rc z).
Qed.

Lemma R_set_siz c m s z : R c m ->
  R (set_siz c s z) (setq m s (mkQ (q_pool (getq m s)) z (q_num (getq m s)) (q_mem (getq m s)))).
Proof.
  intros HR. unfold set_siz. apply R_setq; [exact HR|].
  destruct (R_getq c m s HR) as (l & Hc & Hl & Hcur & Hle & Hf & Hs & Hn & Hm).
  exists l. cbn [c_ptr c_siz c_num c_cur c_mem q_pool q_siz q_num q_mem]. repeat split; assumption.
Qed.
Lemma NoDup_app_l {A : Type} (l1 l2 : list A) : NoDup (l1 ++ l2) -> NoDup l1.
Proof. induction l1 as [|a l1 IH]; [constructor|]. cbn. intros H. inversion H; subst. constructor; [|auto]. intros Hin. apply H2. apply in_or_app. auto. Qed.
Lemma NoDup_app_r {A : Type} (l1 l2 : list A) : NoDup (l1 ++ l2) -> NoDup l2.
Proof. induction l1 as [|a l1 IH]; [auto|]. cbn. intros H. inversion H; subst. auto. Qed.

(* under the queue invariant QInv (proved along every history: QueProofs.step_refines, Properties_C05.que_history) *)
Theorem tie_a_que_setz : forall c m s siz X, R c m -> QInv m X -> simw (a_que_setz c s siz) (q_setz m s siz).
Proof.
  intros c m s siz X HR I. unfold a_que_setz, q_setz.
  destruct (drop_ok m X s I) as (m1' & rc' & k & E & _ & I1 & _).
  use_tie (tie_a_que_drop c m s HR). destruct HT as [HR1 <-]. inversion E; subst m1' rc'. clear E. cbn [bind].
  destruct (Z.eqb r1 0) eqn:Hz; [|split; [exact HR1|reflexivity]].
  apply Z.eqb_eq in Hz. subst r1.
  set (siz' := if N.eqb siz 0 then 1 else siz).
  destruct (R_getq c1 m1 s HR1) as (l & _ & _ & _ & _ & _ & Hs & _). rewrite Hs.
  destruct (N.ltb (q_siz (getq m1 s)) siz').
  - set (X1 := QueSpec.upd s (skipn k (sel s X)) X) in *.
    assert (Hin : forall x, In x (q_pool (getq m1 s)) -> In x (allnodes m1 X1)) by (intros x Hx; eapply allnodes_pool; eauto).
    destruct (setz_loop_sim s (q_pool (getq m1 s)) c1 m1 (kfuel c1) HR1 eq_refl) as (c' & Ec & Rc).
    + pose proof (qi_nodup _ _ I1) as ND. unfold allnodes, pools in ND.
      apply NoDup_app_r, NoDup_app_r in ND. destruct s; [apply NoDup_app_r in ND|apply NoDup_app_l in ND]; exact ND.
    + intros x Hx. destruct (qi_node _ _ I1 x (Hin x Hx)) as (Hge & Hlv & _). split; [lia|exact Hlv].
    + pose proof (qi_fresh _ _ I1) as F. rewrite (R_fuel c1 m1 HR1). unfold fuel_of.
      assert (length (q_pool (getq m1 s)) <= length (allnodes m1 X1))%nat.
      { unfold allnodes, pools. rewrite !app_length. destruct s; cbn [getq]; lia. }
      lia.
    + rewrite Ec. cbn [bind simw]. split; [exact (Rc siz')|reflexivity].
  - cbn [simw]. split; [exact (R_set_siz c1 m1 s siz' HR1)|reflexivity].
Qed.
