(* Tie between the heap programs REGENERATED from include/a/list.h and include/a/slist.h by tools/c2heap.py (module Gen.GenList,
   rewritten on every run: every field read and write of each function body, in the C's order, through the model's checked
   accessors) and the hand-written pointer-level models C05/DListDefs.v and C05/SListDefs.v about which the theorems of
   Properties_C05.v are proved.  Each statement is for EVERY heap and EVERY address (null and dangling ones included: both
   sides fault on the same access).  Where the C reads a field twice and the model once, or the model names an intermediate
   heap the C does not, the proof is by cases on the outcome of each access. *)
From Coq Require Import NArith List.
From LibaV Require Import C05.DListDefs C05.SListDefs.
From Gen Require Import GenList.
Local Open Scope N_scope.

Ltac hcases :=
  repeat match goal with
         | |- context [match ?e with Some _ => _ | None => _ end] =>
             lazymatch e with context [match _ with Some _ => _ | None => _ end] => fail | _ => destruct e eqn:? end
         | |- context [if ?c then _ else _] =>
             lazymatch c with context [if _ then _ else _] => fail | _ => destruct c eqn:? end
         end;
  try reflexivity; try congruence.

(* unfold every translated function and every model function down to the checked accessors, then go by cases *)
Ltac tie := intros; cbv delta [gen_a_list_ctor gen_a_list_init gen_a_list_dtor gen_a_list_link gen_a_list_loop gen_a_list_add_ gen_a_list_add_node gen_a_list_add_next gen_a_list_add_prev gen_a_list_del_ gen_a_list_del_node gen_a_list_del_next gen_a_list_del_prev gen_a_list_set_ gen_a_list_set_node gen_a_list_mov_next gen_a_list_mov_prev gen_a_list_rot_next gen_a_list_rot_prev gen_a_list_swap_ gen_a_list_swap_node gen_a_slist_ctor gen_a_slist_init gen_a_slist_dtor gen_a_slist_link gen_a_slist_add gen_a_slist_add_head gen_a_slist_add_tail gen_a_slist_del gen_a_slist_del_head gen_a_slist_mov gen_a_slist_rot l_init l_link l_loop l_add_ l_add_node l_add_next l_add_prev l_del_ l_del_node l_del_next l_del_prev l_set_ l_set_node l_mov_next l_mov_prev l_rot_next l_rot_prev l_swap_ l_swap_node s_ctor s_add s_add_head s_add_tail s_del s_del_head s_mov s_rot s_rot_body] beta; hcases.

Theorem tie_a_list_ctor : forall h c, gen_a_list_ctor h c = l_init h c.
Proof. tie. Qed.
Theorem tie_a_list_init : forall h c, gen_a_list_init h c = l_init h c.
Proof. tie. Qed.
Theorem tie_a_list_dtor : forall h c, gen_a_list_dtor h c = l_init h c.
Proof. tie. Qed.
Theorem tie_a_list_link : forall h a b, gen_a_list_link h a b = l_link h a b.
Proof. tie. Qed.
Theorem tie_a_list_loop : forall h a b, gen_a_list_loop h a b = l_loop h a b.
Proof. tie. Qed.
Theorem tie_a_list_add_ : forall h a b c d, gen_a_list_add_ h a b c d = l_add_ h a b c d.
Proof. tie. Qed.
Theorem tie_a_list_add_node : forall h a b n, gen_a_list_add_node h a b n = l_add_node h a b n.
Proof. tie. Qed.
Theorem tie_a_list_add_next : forall h c n, gen_a_list_add_next h c n = l_add_next h c n.
Proof. tie. Qed.
Theorem tie_a_list_add_prev : forall h c n, gen_a_list_add_prev h c n = l_add_prev h c n.
Proof. tie. Qed.
Theorem tie_a_list_del_ : forall h a b, gen_a_list_del_ h a b = l_del_ h a b.
Proof. tie. Qed.
Theorem tie_a_list_del_node : forall h n, gen_a_list_del_node h n = l_del_node h n.
Proof. tie. Qed.
Theorem tie_a_list_del_next : forall h n, gen_a_list_del_next h n = l_del_next h n.
Proof. tie. Qed.
Theorem tie_a_list_del_prev : forall h n, gen_a_list_del_prev h n = l_del_prev h n.
Proof. tie. Qed.
Theorem tie_a_list_set_ : forall h a b c d, gen_a_list_set_ h a b c d = l_set_ h a b c d.
Proof. tie. Qed.
Theorem tie_a_list_set_node : forall h c r, gen_a_list_set_node h c r = l_set_node h c r.
Proof. tie. Qed.
Theorem tie_a_list_mov_next : forall h c r, gen_a_list_mov_next h c r = l_mov_next h c r.
Proof. tie. Qed.
Theorem tie_a_list_mov_prev : forall h c r, gen_a_list_mov_prev h c r = l_mov_prev h c r.
Proof. tie. Qed.
Theorem tie_a_list_rot_next : forall h c, gen_a_list_rot_next h c = l_rot_next h c.
Proof. tie. Qed.
Theorem tie_a_list_rot_prev : forall h c, gen_a_list_rot_prev h c = l_rot_prev h c.
Proof. tie. Qed.
Theorem tie_a_list_swap_ : forall h a b c d, gen_a_list_swap_ h a b c d = l_swap_ h a b c d.
Proof. tie. Qed.
Theorem tie_a_list_swap_node : forall h l r, gen_a_list_swap_node h l r = l_swap_node h l r.
Proof. tie. Qed.

(* ---- singly linked list with tail ---- *)
Theorem tie_a_slist_ctor : forall w l, gen_a_slist_ctor w l = s_ctor w l.
Proof. tie. Qed.
Theorem tie_a_slist_init : forall w l, gen_a_slist_init w l = s_ctor w l.
Proof. tie. Qed.
Theorem tie_a_slist_dtor : forall w l, gen_a_slist_dtor w l = s_ctor w l.
Proof. tie. Qed.
Theorem tie_a_slist_link : forall w a b, gen_a_slist_link w a b = s_wr w a b.
Proof. tie. Qed.
Theorem tie_a_slist_add : forall w l p n, gen_a_slist_add w l p n = s_add w l p n.
Proof. tie. Qed.
Theorem tie_a_slist_add_head : forall w l n, gen_a_slist_add_head w l n = s_add_head w l n.
Proof. tie. Qed.
Theorem tie_a_slist_add_tail : forall w l n, gen_a_slist_add_tail w l n = s_add_tail w l n.
Proof. tie. Qed.
Theorem tie_a_slist_del : forall w l p, gen_a_slist_del w l p = s_del w l p.
Proof. tie. Qed.
Theorem tie_a_slist_del_head : forall w l, gen_a_slist_del_head w l = s_del_head w l.
Proof. tie. Qed.
Theorem tie_a_slist_mov : forall w l t p, gen_a_slist_mov w l t p = s_mov w l t p.
Proof. tie. Qed.
Theorem tie_a_slist_rot : forall w l, gen_a_slist_rot w l = s_rot w l.
Proof. tie. Qed.
