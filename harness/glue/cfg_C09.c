/* C09 configuration sweep: every kernel of src/linalg.c for a_real = float / double / long double (see cfg_common.h).

   One case per line, the line format of checks/C09.py Case.line():
       <op> <d1> <d2> <d3> <nx> X[nx] <ny> Y[ny> <no> O[no]
   op is the routine without its a_real_ prefix (T1 T2 eye1 eye2 tri1 tri2 diag diag1 diag2 triL triL1 triL2 triU triU1 triU2
   mulmm mulTm mulmT mulTT); the dimensions are passed to the routine in the order of its parameters; X, Y are the input
   arrays, O the initial (stale) contents of the result array - for the in-place T1 the matrix itself.  All values are small
   integers, exact in every configuration.

   The three arrays are blocks of exactly nx / ny / no cells in ONE allocation of exactly the size needed (block, guard bytes,
   block, ...: at least 32 guard bytes 0xA7 before, between and after the blocks; the blocks of the largest shapes do not fit
   the fixed pool of cfg_common.h, hence the per-case pool here with the same layout and the same GUARD@ token).  ASan sees an
   access outside the allocation, the guard scan sees an overrun from one array into the space next to it.
   Printed: every cell of the result array, then `i1` when both input arrays still hold what was read from the line (else
   `i0`), then a GUARD@ token for the first damaged guard byte if there is one. */
#include "a/linalg.h"
#include "glue/cfg_common.h"

/* ------------------------------------------------------------------ per-case pool, exactly sized */
static unsigned char *bp;
static size_t bp_size, bp_used;
static struct
{
    char const *name;
    size_t off, size;
} bp_blk[4];
static int bp_n;

static void bp_open(size_t b0, size_t b1, size_t b2)
{
    /* three blocks: each preceded by >= GUARD_MIN guard bytes and aligned to 16; GUARD_MIN + 16 after the last */
    bp_size = (b0 + GUARD_MIN + 16) + (b1 + GUARD_MIN + 16) + (b2 + GUARD_MIN + 16) + GUARD_MIN;
    bp = (unsigned char *)malloc(bp_size);
    if (!bp)
    {
        printf(" NO-MEMORY");
        fflush(stdout);
        exit(4);
    }
    memset(bp, GUARD_BYTE, bp_size);
    bp_used = 0;
    bp_n = 0;
}
static a_real *bp_take(char const *name, long n)
{
    size_t bytes = sizeof(a_real) * (size_t)n;
    size_t off = (bp_used + GUARD_MIN + 15) & ~(size_t)15;
    if (off + bytes + GUARD_MIN > bp_size || bp_n >= 4)
    {
        printf(" POOL-EXHAUSTED");
        fflush(stdout);
        exit(4);
    }
    bp_blk[bp_n].name = name;
    bp_blk[bp_n].off = off;
    bp_blk[bp_n].size = bytes;
    ++bp_n;
    bp_used = off + bytes;
    return (a_real *)(void *)(bp + off);
}
static int bp_check(char const *where)
{
    size_t o = 0;
    int b = 0;
    while (o < bp_size)
    {
        if (b < bp_n && o == bp_blk[b].off)
        {
            o += bp_blk[b].size;
            ++b;
            continue;
        }
        if (bp[o] != GUARD_BYTE)
        {
            int k = b > 0 ? b - 1 : 0;
            long rel = (long)o - (long)bp_blk[k].off;
            printf(" GUARD@%s:%s%+ld(block-of-%lu-bytes)", where, bp_blk[k].name, rel, (unsigned long)bp_blk[k].size);
            return 1;
        }
        ++o;
    }
    return 0;
}

static a_real *read_block(char const *name, long n, a_real **copy)
{
    a_real *p = bp_take(name, n);
    long i;
    *copy = (a_real *)malloc(sizeof(a_real) * (size_t)(n ? n : 1));
    for (i = 0; i < n; ++i) { (*copy)[i] = p[i] = next_real(); }
    return p;
}

static void run_case(void)
{
    char const *op = g_kind;
    char name[32];
    a_uint d1 = (a_uint)next_int(), d2 = (a_uint)next_int(), d3 = (a_uint)next_int();
    long nx, ny, no, i;
    a_real *X, *Y, *O, *X0, *Y0, *O0;
    int known = 1, intact = 1;
    /* the counts precede the arrays: look ahead for the three counts to size the allocation exactly */
    {
        int pos = g_pos;
        nx = next_int();
        g_pos += (int)nx;
        ny = next_int();
        g_pos += (int)ny;
        no = next_int();
        g_pos = pos;
    }
    if (nx < 0 || ny < 0 || no < 0 || g_pos + 3 + nx + ny + no > g_ntok)
    {
        printf(" BAD-CASE-LINE");
        return;
    }
    bp_open(sizeof(a_real) * (size_t)nx, sizeof(a_real) * (size_t)no, sizeof(a_real) * (size_t)ny);
    (void)next_int();
    X = read_block("X", nx, &X0);
    /* the result array sits between the two inputs: an overrun at either end lands in guard bytes next to an input */
    {
        int pos = g_pos;
        g_pos += 1 + (int)ny;
        (void)next_int();
        O = read_block("result", no, &O0);
        g_pos = pos;
        (void)next_int();
        Y = read_block("Y", ny, &Y0);
    }
    snprintf(name, sizeof(name), "a_real_%s", op);
    if (!strcmp(op, "T1")) { a_real_T1(d1, O); }
    else if (!strcmp(op, "T2")) { a_real_T2(d1, d2, X, O); }
    else if (!strcmp(op, "eye1")) { a_real_eye1(d1, O); }
    else if (!strcmp(op, "eye2")) { a_real_eye2(d1, d2, O); }
    else if (!strcmp(op, "tri1")) { a_real_tri1(d1, O); }
    else if (!strcmp(op, "tri2")) { a_real_tri2(d1, d2, O); }
    else if (!strcmp(op, "diag")) { a_real_diag(d1, X, O); }
    else if (!strcmp(op, "diag1")) { a_real_diag1(d1, X, O); }
    else if (!strcmp(op, "diag2")) { a_real_diag2(d1, d2, X, O); }
    else if (!strcmp(op, "triL")) { a_real_triL(d1, X, O); }
    else if (!strcmp(op, "triL1")) { a_real_triL1(d1, X, O); }
    else if (!strcmp(op, "triL2")) { a_real_triL2(d1, d2, X, O); }
    else if (!strcmp(op, "triU")) { a_real_triU(d1, X, O); }
    else if (!strcmp(op, "triU1")) { a_real_triU1(d1, X, O); }
    else if (!strcmp(op, "triU2")) { a_real_triU2(d1, d2, X, O); }
    else if (!strcmp(op, "mulmm")) { a_real_mulmm(d1, d2, d3, X, Y, O); }
    else if (!strcmp(op, "mulTm")) { a_real_mulTm(d1, d2, d3, X, Y, O); }
    else if (!strcmp(op, "mulmT")) { a_real_mulmT(d1, d2, d3, X, Y, O); }
    else if (!strcmp(op, "mulTT")) { a_real_mulTT(d1, d2, d3, X, Y, O); }
    else
    {
        known = 0;
        printf(" UNKNOWN-KIND");
    }
    if (known)
    {
        put_arr(O, no);
        for (i = 0; i < nx; ++i) { intact &= (memcmp(&X[i], &X0[i], sizeof(a_real) > 10 ? 10 : sizeof(a_real)) == 0); }
        for (i = 0; i < ny; ++i) { intact &= (memcmp(&Y[i], &Y0[i], sizeof(a_real) > 10 ? 10 : sizeof(a_real)) == 0); }
        put_int(intact);
        bp_check(name);
    }
    free(X0);
    free(Y0);
    free(O0);
    free(bp);
    bp = 0;
}
