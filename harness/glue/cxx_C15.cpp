/* C15 glue: C++ members of a_trajpoly3 / a_trajpoly5 / a_trajpoly7 against the C functions they forward to
   (include/a/trajpoly3.h, trajpoly5.h, trajpoly7.h; poly.h has no C++ members).  See cxx_common.hpp for the method. */
#include "a/trajpoly3.h"
#include "a/trajpoly5.h"
#include "a/trajpoly7.h"
#include "glue/cxx_common.hpp"

Entry TABLE[] = {
    {"a_trajpoly3", "gen", "a_trajpoly3_gen", 0, 0},
    {"a_trajpoly3", "pos", "a_trajpoly3_pos", 0, 0},
    {"a_trajpoly3", "vel", "a_trajpoly3_vel", 0, 0},
    {"a_trajpoly3", "acc", "a_trajpoly3_acc", 0, 0},
    {"a_trajpoly3", "c0", "a_trajpoly3_c0", 0, 0},
    {"a_trajpoly3", "c1", "a_trajpoly3_c1", 0, 0},
    {"a_trajpoly3", "c2", "a_trajpoly3_c2", 0, 0},
    {"a_trajpoly5", "gen", "a_trajpoly5_gen", 0, 0},
    {"a_trajpoly5", "pos", "a_trajpoly5_pos", 0, 0},
    {"a_trajpoly5", "vel", "a_trajpoly5_vel", 0, 0},
    {"a_trajpoly5", "acc", "a_trajpoly5_acc", 0, 0},
    {"a_trajpoly5", "c0", "a_trajpoly5_c0", 0, 0},
    {"a_trajpoly5", "c1", "a_trajpoly5_c1", 0, 0},
    {"a_trajpoly5", "c2", "a_trajpoly5_c2", 0, 0},
    {"a_trajpoly7", "gen", "a_trajpoly7_gen", 0, 0},
    {"a_trajpoly7", "pos", "a_trajpoly7_pos", 0, 0},
    {"a_trajpoly7", "vel", "a_trajpoly7_vel", 0, 0},
    {"a_trajpoly7", "acc", "a_trajpoly7_acc", 0, 0},
    {"a_trajpoly7", "jer", "a_trajpoly7_jer", 0, 0},
    {"a_trajpoly7", "c0", "a_trajpoly7_c0", 0, 0},
    {"a_trajpoly7", "c1", "a_trajpoly7_c1", 0, 0},
    {"a_trajpoly7", "c2", "a_trajpoly7_c2", 0, 0},
    {"a_trajpoly7", "c3", "a_trajpoly7_c3", 0, 0},
};
int const NTABLE = (int)(sizeof(TABLE) / sizeof(TABLE[0]));

/* world: the object, one caller-owned output array (8 cells + 2 spare cells that must stay untouched), the returned value */
template <class T>
struct W
{
    T o;
    a_real out[10];
    a_real ret;
};
typedef W<a_trajpoly3> W3;
typedef W<a_trajpoly5> W5;
typedef W<a_trajpoly7> W7;
static Field const F3[] = {ARR(W3, o.c, 'r'), ARR(W3, out, 'r'), FLD(W3, ret, 'r')};
static Field const F5[] = {ARR(W5, o.c, 'r'), ARR(W5, out, 'r'), FLD(W5, ret, 'r')};
static Field const F7[] = {ARR(W7, o.c, 'r'), ARR(W7, out, 'r'), FLD(W7, ret, 'r')};
static W3 w3;
static W5 w5;
static W7 w7;

template <class WW>
static void poison(WW &w, Rng &r, int nc)
{
    a_real v[20];
    r.distinct(v, nc + 11, 100, 900, true);
    for (int i = 0; i < nc; ++i) { w.o.c[i] = v[i]; }
    for (int i = 0; i < 10; ++i) { w.out[i] = v[nc + i]; }
    w.ret = v[nc + 10];
}

/* evaluation members and coefficient accessors: same text for the three orders */
#define EVAL(N, WN, FN, w, name)                                                                        \
    {                                                                                                   \
        a_real x = (a_real)r.range(-0.25, 1.5) * ts;                                                    \
        w.ret = -777;                                                                                   \
        compare("a_trajpoly" #N, #name, w, "x=" + R(x), [&](WN &q) { q.ret = q.o.name(x); },           \
                [&](WN &q) { q.ret = a_trajpoly##N##_##name(&q.o, x); }, FN, 3);                         \
    }
#define COEF(N, WN, FN, w, name)                                                                        \
    {                                                                                                   \
        compare("a_trajpoly" #N, #name, w, "out=<poisoned array>", [&](WN &q) { q.o.name(q.out); },    \
                [&](WN &q) { a_trajpoly##N##_##name(&q.o, q.out); }, FN, 3);                             \
    }

static void run_all(Rng &r, long n)
{
    for (long k = 0; k < n; ++k)
    {
        a_real a[9];
        /* ts p0 p1 v0 v1 a0 a1 j0 j1: pairwise distinct, non-zero; ts positive */
        r.distinct(a, 9, 0.5, 9.5, true);
        a_real ts = a[0] < 0 ? -a[0] : a[0];
        int arity = (int)(k % 4); /* how many of the defaulted arguments are spelled out */
        /* ---- cubic */
        poison(w3, r, 4);
        std::string s = "ts=" + R(ts) + " p0=" + R(a[1]) + " p1=" + R(a[2]);
        if (arity == 0)
        {
            compare("a_trajpoly3", "gen", w3, s + " (v0, v1 defaulted)", [&](W3 &q) { q.o.gen(ts, a[1], a[2]); },
                    [&](W3 &q) { a_trajpoly3_gen(&q.o, ts, a[1], a[2], 0, 0); }, F3, 3);
        }
        else if (arity == 1)
        {
            compare("a_trajpoly3", "gen", w3, s + " v0=" + R(a[3]) + " (v1 defaulted)", [&](W3 &q) { q.o.gen(ts, a[1], a[2], a[3]); },
                    [&](W3 &q) { a_trajpoly3_gen(&q.o, ts, a[1], a[2], a[3], 0); }, F3, 3);
        }
        else
        {
            compare("a_trajpoly3", "gen", w3, s + " v0=" + R(a[3]) + " v1=" + R(a[4]), [&](W3 &q) { q.o.gen(ts, a[1], a[2], a[3], a[4]); },
                    [&](W3 &q) { a_trajpoly3_gen(&q.o, ts, a[1], a[2], a[3], a[4]); }, F3, 3);
        }
        EVAL(3, W3, F3, w3, pos) EVAL(3, W3, F3, w3, vel) EVAL(3, W3, F3, w3, acc)
        COEF(3, W3, F3, w3, c0) COEF(3, W3, F3, w3, c1) COEF(3, W3, F3, w3, c2)
        /* ---- quintic */
        poison(w5, r, 6);
        if (arity == 0)
        {
            compare("a_trajpoly5", "gen", w5, s + " (v0, v1, a0, a1 defaulted)", [&](W5 &q) { q.o.gen(ts, a[1], a[2]); },
                    [&](W5 &q) { a_trajpoly5_gen(&q.o, ts, a[1], a[2], 0, 0, 0, 0); }, F5, 3);
        }
        else if (arity == 1)
        {
            compare("a_trajpoly5", "gen", w5, s + " v0=" + R(a[3]) + " v1=" + R(a[4]) + " a0=" + R(a[5]) + " (a1 defaulted)",
                    [&](W5 &q) { q.o.gen(ts, a[1], a[2], a[3], a[4], a[5]); },
                    [&](W5 &q) { a_trajpoly5_gen(&q.o, ts, a[1], a[2], a[3], a[4], a[5], 0); }, F5, 3);
        }
        else
        {
            compare("a_trajpoly5", "gen", w5, s + " v0=" + R(a[3]) + " v1=" + R(a[4]) + " a0=" + R(a[5]) + " a1=" + R(a[6]),
                    [&](W5 &q) { q.o.gen(ts, a[1], a[2], a[3], a[4], a[5], a[6]); },
                    [&](W5 &q) { a_trajpoly5_gen(&q.o, ts, a[1], a[2], a[3], a[4], a[5], a[6]); }, F5, 3);
        }
        EVAL(5, W5, F5, w5, pos) EVAL(5, W5, F5, w5, vel) EVAL(5, W5, F5, w5, acc)
        COEF(5, W5, F5, w5, c0) COEF(5, W5, F5, w5, c1) COEF(5, W5, F5, w5, c2)
        /* ---- septic */
        poison(w7, r, 8);
        if (arity == 0)
        {
            compare("a_trajpoly7", "gen", w7, s + " (v0, v1, a0, a1, j0, j1 defaulted)", [&](W7 &q) { q.o.gen(ts, a[1], a[2]); },
                    [&](W7 &q) { a_trajpoly7_gen(&q.o, ts, a[1], a[2], 0, 0, 0, 0, 0, 0); }, F7, 3);
        }
        else if (arity == 1)
        {
            compare("a_trajpoly7", "gen", w7,
                    s + " v0=" + R(a[3]) + " v1=" + R(a[4]) + " a0=" + R(a[5]) + " a1=" + R(a[6]) + " j0=" + R(a[7]) + " (j1 defaulted)",
                    [&](W7 &q) { q.o.gen(ts, a[1], a[2], a[3], a[4], a[5], a[6], a[7]); },
                    [&](W7 &q) { a_trajpoly7_gen(&q.o, ts, a[1], a[2], a[3], a[4], a[5], a[6], a[7], 0); }, F7, 3);
        }
        else
        {
            compare("a_trajpoly7", "gen", w7,
                    s + " v0=" + R(a[3]) + " v1=" + R(a[4]) + " a0=" + R(a[5]) + " a1=" + R(a[6]) + " j0=" + R(a[7]) + " j1=" + R(a[8]),
                    [&](W7 &q) { q.o.gen(ts, a[1], a[2], a[3], a[4], a[5], a[6], a[7], a[8]); },
                    [&](W7 &q) { a_trajpoly7_gen(&q.o, ts, a[1], a[2], a[3], a[4], a[5], a[6], a[7], a[8]); }, F7, 3);
        }
        EVAL(7, W7, F7, w7, pos) EVAL(7, W7, F7, w7, vel) EVAL(7, W7, F7, w7, acc) EVAL(7, W7, F7, w7, jer)
        COEF(7, W7, F7, w7, c0) COEF(7, W7, F7, w7, c1) COEF(7, W7, F7, w7, c2) COEF(7, W7, F7, w7, c3)
    }
}
