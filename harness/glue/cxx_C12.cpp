/* C12 glue: C++ members of a_pid, a_pid_neuro and a_pid_fuzzy against the C functions they forward to
   (include/a/pid.h, pid_neuro.h, pid_fuzzy.h).  See cxx_common.hpp for the method. */
#include "a/pid.h"
#include "a/pid_neuro.h"
#include "glue/cxx_common.hpp"
#include "glue/cxx_pid_fuzzy.hpp"

Entry TABLE[] = {
    {"a_pid", "init", "a_pid_init", 0, 0},
    {"a_pid", "set_kpid", "a_pid_set_kpid", 0, 0},
    {"a_pid", "run", "a_pid_run", 0, 0},
    {"a_pid", "pos", "a_pid_pos", 0, 0},
    {"a_pid", "inc", "a_pid_inc", 0, 0},
    {"a_pid", "zero", "a_pid_zero", 0, 0},
    {"a_pid_neuro", "init", "a_pid_neuro_init", 0, 0},
    {"a_pid_neuro", "set_kpid", "a_pid_neuro_set_kpid", 0, 0},
    {"a_pid_neuro", "set_wpid", "a_pid_neuro_set_wpid", 0, 0},
    {"a_pid_neuro", "run", "a_pid_neuro_run", 0, 0},
    {"a_pid_neuro", "inc", "a_pid_neuro_inc", 0, 0},
    {"a_pid_neuro", "zero", "a_pid_neuro_zero", 0, 0},
    PID_FUZZY_TABLE,
};
int const NTABLE = (int)(sizeof(TABLE) / sizeof(TABLE[0]));

struct WP
{
    a_pid o;
    a_real ret;
};
struct WN
{
    a_pid_neuro o;
    a_real ret;
};
static Field const FP[] = {PIDF(WP, o.), FLD(WP, ret, 'r')};
static Field const FN[] = {PIDF(WN, o.pid.), FLD(WN, o.k, 'r'), FLD(WN, o.wp, 'r'), FLD(WN, o.wi, 'r'), FLD(WN, o.wd, 'r'),
                           FLD(WN, o.ec, 'r'), FLD(WN, ret, 'r')};
static int const NFP = (int)(sizeof(FP) / sizeof(FP[0])), NFN = (int)(sizeof(FN) / sizeof(FN[0]));
static WP wp;
static WN wn;

/* every field generated: gains and state pairwise distinct and non-zero, limits wide (k % 4 != 3) or tight */
static void fresh_pid(a_pid &p, Rng &r, long k)
{
    a_real v[12];
    r.distinct(v, 12, 0.2, 6, true);
    p.kp = v[0];
    p.ki = v[1];
    p.kd = v[2];
    p.sum = v[3] / 4;
    p.out = v[4];
    p.var = v[5];
    p.fdb = v[6];
    p.err = v[7];
    double wide = (k % 4 != 3) ? 100 : 1;
    p.summax = (a_real)(wide * (1 + r.unit()));
    p.summin = (a_real)(-wide * (1.5 + r.unit()));
    p.outmax = (a_real)(wide * (3 + r.unit()));
    p.outmin = (a_real)(-wide * (4 + r.unit()));
}

static void run_all(Rng &r, long n)
{
    for (long k = 0; k < n; ++k)
    {
        a_real v[8];
        /* ------------------------------------------------------------ a_pid */
        memset((void *)&wp, 0x5a, sizeof(wp));
        fresh_pid(wp.o, r, k);
        wp.ret = -777;
        if (k & 1)
        {
            compare("a_pid", "init", wp, "(state fields all non-zero)", [&](WP &q) { q.o.init(); }, [&](WP &q) { a_pid_init(&q.o); }, FP, NFP);
        }
        else
        {
            compare("a_pid", "zero", wp, "(state fields all non-zero)", [&](WP &q) { q.o.zero(); }, [&](WP &q) { a_pid_zero(&q.o); }, FP, NFP);
        }
        fresh_pid(wp.o, r, k);
        r.distinct(v, 3, 0.2, 6, true);
        compare("a_pid", "set_kpid", wp, "kp=" + R(v[0]) + " ki=" + R(v[1]) + " kd=" + R(v[2]), [&](WP &q) { q.o.set_kpid(v[0], v[1], v[2]); },
                [&](WP &q) { a_pid_set_kpid(&q.o, v[0], v[1], v[2]); }, FP, NFP);
        for (int s = 0; s < 3; ++s)
        {
            r.distinct(v, 2, 0.2, 4, true);
            a_real set = v[0], fdb = v[1];
            std::string a = "set=" + R(set) + " fdb=" + R(fdb) + fmt(" (step %d of a history)", s);
            switch ((k + s) % 3)
            {
            case 0:
                compare("a_pid", "run", wp, a, [&](WP &q) { q.ret = q.o.run(set, fdb); }, [&](WP &q) { q.ret = a_pid_run(&q.o, set, fdb); }, FP, NFP);
                break;
            case 1:
                compare("a_pid", "pos", wp, a, [&](WP &q) { q.ret = q.o.pos(set, fdb); }, [&](WP &q) { q.ret = a_pid_pos(&q.o, set, fdb); }, FP, NFP);
                break;
            default:
                compare("a_pid", "inc", wp, a, [&](WP &q) { q.ret = q.o.inc(set, fdb); }, [&](WP &q) { q.ret = a_pid_inc(&q.o, set, fdb); }, FP, NFP);
                break;
            }
        }
        /* ------------------------------------------------------------ a_pid_neuro */
        memset((void *)&wn, 0x5a, sizeof(wn));
        fresh_pid(wn.o.pid, r, k);
        r.distinct(v, 5, 0.2, 3, true);
        wn.o.k = v[0];
        wn.o.wp = v[1];
        wn.o.wi = v[2];
        wn.o.wd = v[3];
        wn.o.ec = v[4];
        wn.ret = -777;
        if (k & 1)
        {
            compare("a_pid_neuro", "init", wn, "(state fields all non-zero)", [&](WN &q) { q.o.init(); }, [&](WN &q) { a_pid_neuro_init(&q.o); }, FN, NFN);
        }
        else
        {
            compare("a_pid_neuro", "zero", wn, "(state fields all non-zero)", [&](WN &q) { q.o.zero(); }, [&](WN &q) { a_pid_neuro_zero(&q.o); }, FN, NFN);
        }
        fresh_pid(wn.o.pid, r, k);
        wn.o.ec = v[4];
        r.distinct(v, 7, 0.2, 3, true);
        compare("a_pid_neuro", "set_kpid", wn, "k=" + R(v[0]) + " kp=" + R(v[1]) + " ki=" + R(v[2]) + " kd=" + R(v[3]),
                [&](WN &q) { q.o.set_kpid(v[0], v[1], v[2], v[3]); }, [&](WN &q) { a_pid_neuro_set_kpid(&q.o, v[0], v[1], v[2], v[3]); }, FN, NFN);
        compare("a_pid_neuro", "set_wpid", wn, "wp=" + R(v[4]) + " wi=" + R(v[5]) + " wd=" + R(v[6]),
                [&](WN &q) { q.o.set_wpid(v[4], v[5], v[6]); }, [&](WN &q) { a_pid_neuro_set_wpid(&q.o, v[4], v[5], v[6]); }, FN, NFN);
        for (int s = 0; s < 3; ++s)
        {
            r.distinct(v, 2, 0.2, 2, true);
            a_real set = v[0], fdb = v[1];
            std::string a = "set=" + R(set) + " fdb=" + R(fdb) + fmt(" (step %d of a history)", s);
            if ((k + s) % 2)
            {
                compare("a_pid_neuro", "run", wn, a, [&](WN &q) { q.ret = q.o.run(set, fdb); },
                        [&](WN &q) { q.ret = a_pid_neuro_run(&q.o, set, fdb); }, FN, NFN);
            }
            else
            {
                compare("a_pid_neuro", "inc", wn, a, [&](WN &q) { q.ret = q.o.inc(set, fdb); },
                        [&](WN &q) { q.ret = a_pid_neuro_inc(&q.o, set, fdb); }, FN, NFN);
            }
        }
    }
    /* ---------------------------------------------------------------- a_pid_fuzzy */
    run_pid_fuzzy(r, n);
}
