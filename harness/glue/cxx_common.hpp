/* Shared part of the C++ member-wrapper correspondence harnesses (harness/glue/cxx_<ID>.cpp, driven by tools/vglue.py).

   Every public header of liba gives its structs C++ member functions that forward to the C API (or, for a_lpf / a_hpf,
   repeat the C inline function's body).  A harness puts the object AND every caller-owned array into one plain "world"
   struct W, fills the world with generated data, and for each trial
       1. keeps a byte copy of the world,
       2. calls the MEMBER function on the world, stores the returned value in the world, keeps a byte copy A,
       3. restores the world from the copy of step 1 (so both sides start from identical bytes, padding included),
       4. calls the C FUNCTION the member stands for (same arguments), stores the returned value,
       5. compares A with the world byte for byte.
   Because both calls run on the SAME storage, pointer members are compared as raw bit patterns too.  A difference is
   printed as
       DIFF <struct>::<member> args=... field=... cxx=... c=...
   and the process exits 1.  `--list` prints the table  `TABLE <struct> <member> <C function>`  without running anything;
   tools/vglue.py compares it with the member functions found in the header (a member missing from the table is an
   "uncovered member", a broken tie).  A table entry that no trial exercised makes the harness exit 2.

   usage: cxx_<ID> <seed> <trials-per-member>     |     cxx_<ID> --list */
#ifndef VERIF_GLUE_CXX_COMMON_HPP
#define VERIF_GLUE_CXX_COMMON_HPP
#include <stddef.h>
#include <stdint.h>
#include <stdio.h>
#include <stdlib.h>
#include <string.h>
#include <stdarg.h>
#include <string>

typedef unsigned long long u64;

struct Entry
{
    char const *st;  /* struct */
    char const *mem; /* member function */
    char const *cfn; /* the C function (or documented meaning) it stands for */
    long trials;     /* filled while running */
    long effective;  /* trials in which the call changed the world or returned a non-zero value */
};

struct Field
{
    char const *name;
    size_t off, size, es; /* offset in the world, total size, element size */
    char kind;            /* r a_real, u unsigned int, p pointer, z size_t, b raw bytes */
};
#define FLD(W, path, kind) {#path, offsetof(W, path), sizeof(((W *)0)->path), sizeof(((W *)0)->path), kind}
#define ARR(W, path, kind) {#path, offsetof(W, path), sizeof(((W *)0)->path), sizeof(((W *)0)->path[0]), kind}

/* ---------------------------------------------------------------- PRNG (splitmix64) */
struct Rng
{
    u64 s;
    u64 next()
    {
        u64 z = (s += 0x9E3779B97F4A7C15ULL);
        z = (z ^ (z >> 30)) * 0xBF58476D1CE4E5B9ULL;
        z = (z ^ (z >> 27)) * 0x94D049BB133111EBULL;
        return z ^ (z >> 31);
    }
    unsigned below(unsigned n) { return (unsigned)(next() % n); }
    double unit() { return (double)(next() >> 11) * (1.0 / 9007199254740992.0); }
    double range(double lo, double hi) { return lo + (hi - lo) * unit(); }
    /* n values, pairwise distinct in magnitude (ratio of neighbours >= ~1.15), non-zero, none the negative of another;
       magnitudes between lo and hi; sign chosen at random when `sgn` is set */
    void distinct(a_real *out, int n, double lo, double hi, bool sgn)
    {
        int i, j;
        double v[32];
        for (i = 0; i < n; ++i) { v[i] = lo + (hi - lo) * (i + 0.15 + 0.7 * unit()) / n; }
        for (i = n - 1; i > 0; --i)
        {
            j = (int)below((unsigned)i + 1);
            double t = v[i];
            v[i] = v[j];
            v[j] = t;
        }
        /* the factor fills the low mantissa bits of every configuration (a `double` parameter in a wrapper would lose them
           in the long double build) */
        for (i = 0; i < n; ++i) { out[i] = (a_real)((sgn && (next() & 1)) ? -v[i] : v[i]) * ((a_real)1 + 3 * A_REAL_EPSILON); }
    }
};

/* ---------------------------------------------------------------- bookkeeping */
static int g_fail = 0;
static int g_ndiff = 0;
extern Entry TABLE[];
extern int const NTABLE;

static Entry *entry(char const *st, char const *mem)
{
    for (int i = 0; i < NTABLE; ++i)
    {
        if (!strcmp(TABLE[i].st, st) && !strcmp(TABLE[i].mem, mem)) { return TABLE + i; }
    }
    fprintf(stderr, "harness error: %s::%s is not in TABLE\n", st, mem);
    exit(3);
}

static std::string fmt(char const *f, ...)
{
    char buf[2048];
    va_list ap;
    va_start(ap, f);
    vsnprintf(buf, sizeof(buf), f, ap);
    va_end(ap);
    return std::string(buf);
}
static std::string R(a_real v) /* a real argument, exactly */
{
    return fmt("%.*Lg", (int)(sizeof(a_real) > 8 ? 21 : sizeof(a_real) > 4 ? 17 : 9), (long double)v);
}

static std::string show(Field const &f, void const *p)
{
    unsigned char const *b = (unsigned char const *)p;
    std::string hex;
    for (size_t i = f.es; i-- > 0;) { hex += fmt("%02x", b[i]); }
    if (f.kind == 'r' && f.es == sizeof(a_real))
    {
        a_real v;
        memcpy(&v, p, sizeof(v));
        return fmt("%.17Lg(0x%s)", (long double)v, hex.c_str());
    }
    if (f.kind == 'u' && f.es == sizeof(unsigned))
    {
        unsigned v;
        memcpy(&v, p, sizeof(v));
        return fmt("%u", v);
    }
    return "0x" + hex;
}

/* one trial: see the head of this file */
template <class W, class FA, class FB>
static void compare(char const *st, char const *mem, W &w, std::string const &args, FA cxx, FB c, Field const *fl, int nf)
{
    static W w0, a; /* worlds are plain data */
    Entry *e = entry(st, mem);
    memcpy((void *)&w0, (void const *)&w, sizeof(W));
    cxx(w);
    memcpy((void *)&a, (void const *)&w, sizeof(W));
    memcpy((void *)&w, (void const *)&w0, sizeof(W));
    c(w);
    e->trials++;
    if (memcmp((void const *)&w, (void const *)&w0, sizeof(W)) != 0) { e->effective++; }
    if (memcmp((void const *)&a, (void const *)&w, sizeof(W)) == 0) { return; }
    g_fail = 1;
    unsigned char const *pa = (unsigned char const *)&a, *pc = (unsigned char const *)&w;
    static unsigned char seen[sizeof(W)];
    memset(seen, 0, sizeof(seen));
    int shown = 0;
    for (int i = 0; i < nf; ++i)
    {
        for (size_t o = fl[i].off; o < fl[i].off + fl[i].size; o += fl[i].es)
        {
            memset(seen + o, 1, fl[i].es);
            if (memcmp(pa + o, pc + o, fl[i].es) == 0) { continue; }
            if (g_ndiff < 40 && shown < 6)
            {
                std::string nm;
                for (char const *c = fl[i].name; *c; ++c)
                {
                    if (*c != ' ') { nm += *c; } /* stringified macro arguments may carry blanks */
                }
                if (fl[i].size > fl[i].es) { nm += fmt("[%u]", (unsigned)((o - fl[i].off) / fl[i].es)); }
                printf("DIFF %s::%s args=%s field=%s cxx=%s c=%s\n", st, mem, args.c_str(), nm.c_str(),
                       show(fl[i], pa + o).c_str(), show(fl[i], pc + o).c_str());
                ++g_ndiff;
                ++shown;
            }
        }
    }
    for (size_t o = 0; o < sizeof(W); ++o)
    {
        if (!seen[o] && pa[o] != pc[o] && g_ndiff < 40 && shown < 6)
        {
            printf("DIFF %s::%s args=%s field=byte+%u cxx=0x%02x c=0x%02x\n", st, mem, args.c_str(), (unsigned)o, pa[o], pc[o]);
            ++g_ndiff;
            ++shown;
        }
    }
    fflush(stdout);
}

static int finish()
{
    int rc = g_fail ? 1 : 0;
    long total = 0;
    for (int i = 0; i < NTABLE; ++i)
    {
        printf("COVERED %s %s %s %ld %ld\n", TABLE[i].st, TABLE[i].mem, TABLE[i].cfn, TABLE[i].trials, TABLE[i].effective);
        total += TABLE[i].trials;
        if (TABLE[i].trials == 0 || TABLE[i].effective == 0)
        {
            printf("UNTESTED %s::%s (no trial in which the call had an observable effect)\n", TABLE[i].st, TABLE[i].mem);
            if (!rc) { rc = 2; }
        }
    }
    printf("TOTAL %ld\n", total);
    return rc;
}

static int list_table()
{
    for (int i = 0; i < NTABLE; ++i) { printf("TABLE %s %s %s\n", TABLE[i].st, TABLE[i].mem, TABLE[i].cfn); }
    return 0;
}

/* main skeleton: run_all(rng, n) is defined by each harness */
static void run_all(Rng &r, long n);
int main(int argc, char **argv)
{
    if (argc > 1 && !strcmp(argv[1], "--list")) { return list_table(); }
    Rng r;
    r.s = argc > 1 ? strtoull(argv[1], 0, 10) : 1;
    long n = argc > 2 ? atol(argv[2]) : 200;
    run_all(r, n);
    return finish();
}
#endif
