/* C13 configuration sweep: a_mf_*, a_mf, a_fuzzy_*, a_pid_fuzzy_* for a_real = float / double / long double (see cfg_common.h).
     mf <tag> x p0 p1 p2 p3    the specific membership function (tags 1..13 of a/mf.h), then the dispatcher a_mf(tag, x, p) with the
                               parameter vector in a pool block of exactly as many cells as the function has parameters
     op a b gamma              a_fuzzy_not(a) cap cap_algebra cap_bounded cup cup_algebra cup_bounded equ equ_(gamma), then
                               a_pid_fuzzy_opr(k)(a, b) for k = 0..7
     fuzzy ...                 see cfg_pid_fuzzy.h */
#include "a/mf.h"
#include "a/fuzzy.h"
#include "glue/cfg_common.h"
#include "glue/cfg_pid_fuzzy.h"

static int const NPAR[14] = {0, 2, 4, 3, 2, 4, 4, 4, 3, 2, 2, 2, 2, 4};

static void run_case(void)
{
    long i;
    if (!strcmp(g_kind, "mf"))
    {
        long e = next_int();
        a_real x = next_real(), p[4], *q, y = 0;
        for (i = 0; i < 4; ++i) { p[i] = next_real(); }
        q = pool_reals("params", (e >= 0 && e < 14) ? NPAR[e] : 0, 0);
        for (i = 0; i < ((e >= 0 && e < 14) ? NPAR[e] : 0); ++i) { q[i] = p[i]; }
        switch (e)
        {
        case A_MF_GAUSS: y = a_mf_gauss(x, p[0], p[1]); break;
        case A_MF_GAUSS2: y = a_mf_gauss2(x, p[0], p[1], p[2], p[3]); break;
        case A_MF_GBELL: y = a_mf_gbell(x, p[0], p[1], p[2]); break;
        case A_MF_SIG: y = a_mf_sig(x, p[0], p[1]); break;
        case A_MF_DSIG: y = a_mf_dsig(x, p[0], p[1], p[2], p[3]); break;
        case A_MF_PSIG: y = a_mf_psig(x, p[0], p[1], p[2], p[3]); break;
        case A_MF_TRAP: y = a_mf_trap(x, p[0], p[1], p[2], p[3]); break;
        case A_MF_TRI: y = a_mf_tri(x, p[0], p[1], p[2]); break;
        case A_MF_LINS: y = a_mf_lins(x, p[0], p[1]); break;
        case A_MF_LINZ: y = a_mf_linz(x, p[0], p[1]); break;
        case A_MF_S: y = a_mf_s(x, p[0], p[1]); break;
        case A_MF_Z: y = a_mf_z(x, p[0], p[1]); break;
        case A_MF_PI: y = a_mf_pi(x, p[0], p[1], p[2], p[3]); break;
        default: break;
        }
        put(y);
        put(a_mf((unsigned)e, x, q));
        pool_check("a_mf");
    }
    else if (!strcmp(g_kind, "op"))
    {
        a_real a = next_real(), b = next_real(), g = next_real();
        unsigned k;
        put(a_fuzzy_not(a));
        put(a_fuzzy_cap(a, b));
        put(a_fuzzy_cap_algebra(a, b));
        put(a_fuzzy_cap_bounded(a, b));
        put(a_fuzzy_cup(a, b));
        put(a_fuzzy_cup_algebra(a, b));
        put(a_fuzzy_cup_bounded(a, b));
        put(a_fuzzy_equ(a, b));
        put(a_fuzzy_equ_(g, a, b));
        for (k = 0; k < 8; ++k) { put(a_pid_fuzzy_opr(k)(a, b)); }
    }
    else if (!strcmp(g_kind, "fuzzy")) { run_fuzzy_case(); }
    else { printf(" UNKNOWN-KIND"); }
}
