/* C14 configuration sweep: a_trajtrap_*, a_trajbell_* for a_real = float / double / long double (see cfg_common.h).
     trap vm ac de p0 p1 v0 v1 x...     a_trajtrap_gen on a poisoned object: returned duration, the 12 fields in declaration order,
                                         then pos vel acc per x
     bell jm am vm p0 p1 v0 v1 x...     a_trajbell_gen likewise: duration, the 14 fields, then pos vel acc jer per x
   A query time is a hex-float literal, or `@<literal>`: that fraction of the returned duration (computed in a_real). */
#include "a/trajtrap.h"
#include "a/trajbell.h"
#include "glue/cfg_common.h"

static a_real next_time(a_real T)
{
    if (g_pos < g_ntok && g_tok[g_pos][0] == '@') { return (a_real)strtold(g_tok[g_pos++] + 1, 0) * T; }
    return next_real();
}

static void run_case(void)
{
    long i;
    a_real a[7];
    if (!strcmp(g_kind, "trap"))
    {
        a_trajtrap t;
        a_real r;
        for (i = 0; i < 7; ++i) { a[i] = next_real(); }
        t.t = t.p0 = t.p1 = t.v0 = t.v1 = t.vc = t.ta = t.td = t.pa = t.pd = t.ac = t.de = POISON;
        r = a_trajtrap_gen(&t, a[0], a[1], a[2], a[3], a[4], a[5], a[6]);
        put(r);
        put(t.t); put(t.p0); put(t.p1); put(t.v0); put(t.v1); put(t.vc); put(t.ta); put(t.td); put(t.pa); put(t.pd); put(t.ac); put(t.de);
        while (more())
        {
            a_real x = next_time(r);
            put(a_trajtrap_pos(&t, x));
            put(a_trajtrap_vel(&t, x));
            put(a_trajtrap_acc(&t, x));
        }
    }
    else if (!strcmp(g_kind, "bell"))
    {
        a_trajbell t;
        a_real r;
        for (i = 0; i < 7; ++i) { a[i] = next_real(); }
        t.t = t.tv = t.ta = t.td = t.taj = t.tdj = t.p0 = t.p1 = t.v0 = t.v1 = t.vm = t.jm = t.am = t.dm = POISON;
        r = a_trajbell_gen(&t, a[0], a[1], a[2], a[3], a[4], a[5], a[6]);
        put(r);
        put(t.t); put(t.tv); put(t.ta); put(t.td); put(t.taj); put(t.tdj); put(t.p0); put(t.p1); put(t.v0); put(t.v1); put(t.vm);
        put(t.jm); put(t.am); put(t.dm);
        while (more())
        {
            a_real x = next_time(r);
            put(a_trajbell_pos(&t, x));
            put(a_trajbell_vel(&t, x));
            put(a_trajbell_acc(&t, x));
            put(a_trajbell_jer(&t, x));
        }
    }
    else { printf(" UNKNOWN-KIND"); }
}
