/* C13 glue: C++ members of a_pid_fuzzy (include/a/pid_fuzzy.h; mf.h and fuzzy.h have no C++ members and no `namespace a`
   functions) against the C functions they forward to.  See cxx_common.hpp for the method. */
#include "a/pid_fuzzy.h"
#include "glue/cxx_common.hpp"
#include "glue/cxx_pid_fuzzy.hpp"

Entry TABLE[] = {
    PID_FUZZY_TABLE,
};
int const NTABLE = (int)(sizeof(TABLE) / sizeof(TABLE[0]));

static void run_all(Rng &r, long n) { run_pid_fuzzy(r, n); }
