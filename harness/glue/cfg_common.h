/* Shared part of the configuration-sweep drivers (harness/glue/cfg_<ID>.c, driven by tools/vglue.py config_sweep).

   A driver is generic in a_real and is built three times (A_SIZE_REAL 4, 8, 16) with -fsanitize=address,undefined from the
   CURRENT tree.  It reads one case per line,  `<kind> <token> ...`,  and prints one line per case.  Numbers travel exactly:
     input  reals are C99 hex-float literals of dyadic rationals (parsed by strtold, then converted to a_real: exact whenever
            the value fits binary32, which tools/vglue.py guarantees for every exact case);
     output reals are printed with %La after conversion to long double (exact for float, double and long double), integers
            as `i<decimal>`.
   tools/vglue.py parses them back into exact fractions: nothing is ever compared as a rounded decimal.

   Caller-owned arrays: everything a case hands to the library lives in ONE pool obtained from malloc (so ASan sees an access
   outside the pool).  The pool is filled with the guard byte 0xA7; pool_take carves aligned blocks out of it and leaves at
   least 32 guard bytes before, between and after them.  pool_check() scans every byte of the pool that belongs to no block;
   a damaged guard is printed as the token `GUARD@<where>:<nearest block>+<offset>`, which the python side turns into a
   violation (ASan cannot see an overrun from one array into its neighbour inside one allocation).  Arrays that the library
   is documented to clear are pre-filled with the poison value 777, so "starts from zero state" is observable. */
#ifndef VERIF_GLUE_CFG_COMMON_H
#define VERIF_GLUE_CFG_COMMON_H
#include "a/a.h"
#include <stdio.h>
#include <stdlib.h>
#include <string.h>

#define POISON ((a_real)777)
#define GUARD_BYTE 0xA7
#define GUARD_MIN 32
#define POOL_BYTES 6144

/* ------------------------------------------------------------------ tokens */
static char *g_tok[8192];
static int g_ntok, g_pos;
static char *g_kind;

static int read_case(char *line)
{
    char *t;
    g_ntok = 0;
    g_pos = 0;
    g_kind = strtok(line, " \n");
    if (!g_kind) { return 0; }
    while ((t = strtok(0, " \n")) && g_ntok < 8192) { g_tok[g_ntok++] = t; }
    return 1;
}
static int more(void) { return g_pos < g_ntok; }
static a_real next_real(void)
{
    if (g_pos >= g_ntok)
    {
        printf(" MISSING-TOKEN");
        return 0;
    }
    return (a_real)strtold(g_tok[g_pos++], 0);
}
static long next_int(void)
{
    if (g_pos >= g_ntok)
    {
        printf(" MISSING-TOKEN");
        return 0;
    }
    return strtol(g_tok[g_pos++], 0, 10);
}
static void put(a_real v) { printf(" %La", (long double)v); }
static void put_int(long v) { printf(" i%ld", v); }
static void put_arr(a_real const *p, long n)
{
    long i;
    for (i = 0; i < n; ++i) { put(p[i]); }
}

/* ------------------------------------------------------------------ pool with guard cells */
static unsigned char *g_pool;
static struct
{
    char const *name;
    size_t off, size;
} g_blk[32];
static int g_nblk;
static size_t g_used;

static void pool_reset(void)
{
    if (!g_pool) { g_pool = (unsigned char *)malloc(POOL_BYTES); }
    memset(g_pool, GUARD_BYTE, POOL_BYTES);
    g_nblk = 0;
    g_used = 0;
}
static void *pool_take(char const *name, size_t bytes)
{
    size_t off = g_used + GUARD_MIN;
    off = (off + 15) & ~(size_t)15;
    while (((size_t)(g_pool + off)) & 15) { ++off; }
    if (off + bytes + GUARD_MIN > POOL_BYTES || g_nblk >= 32)
    {
        printf(" POOL-EXHAUSTED");
        fflush(stdout);
        exit(4);
    }
    g_blk[g_nblk].name = name;
    g_blk[g_nblk].off = off;
    g_blk[g_nblk].size = bytes;
    ++g_nblk;
    g_used = off + bytes;
    return g_pool + off;
}
static a_real *pool_reals(char const *name, long n, a_real fill)
{
    a_real *p = (a_real *)pool_take(name, sizeof(a_real) * (size_t)n);
    long i;
    for (i = 0; i < n; ++i) { p[i] = fill; }
    return p;
}
/* every byte outside the blocks must still be the guard byte; prints one token for the first damaged byte */
static int pool_check(char const *where)
{
    size_t o = 0;
    int b = 0;
    while (o < POOL_BYTES)
    {
        if (b < g_nblk && o == g_blk[b].off)
        {
            o += g_blk[b].size;
            ++b;
            continue;
        }
        if (g_pool[o] != GUARD_BYTE)
        {
            /* name it relative to the block that ends closest before it (an overrun), else the block after it */
            int k = b > 0 ? b - 1 : 0;
            long rel = (long)o - (long)g_blk[k].off;
            printf(" GUARD@%s:%s%+ld(block-of-%lu-bytes)", where, g_nblk ? g_blk[k].name : "pool", rel, (unsigned long)(g_nblk ? g_blk[k].size : 0));
            /* repair, so that one overrun is reported once */
            {
                size_t e = (b < g_nblk) ? g_blk[b].off : POOL_BYTES, q;
                for (q = o; q < e; ++q) { g_pool[q] = GUARD_BYTE; }
            }
            return 1;
        }
        ++o;
    }
    return 0;
}

static char g_line[1 << 17];
static void run_case(void);
int main(void)
{
    setvbuf(stdout, 0, _IOFBF, 1 << 16);
    while (fgets(g_line, sizeof(g_line), stdin))
    {
        if (!read_case(g_line)) { continue; }
        pool_reset();
        run_case();
        pool_check("end");
        printf("\n");
        fflush(stdout);
    }
    free(g_pool);
    return 0;
}
#endif
