/* C++ members of a_pid_fuzzy (include/a/pid_fuzzy.h, anchored by C12 and by C13) against the C functions they forward to.
   Included by cxx_C12.cpp and cxx_C13.cpp after cxx_common.hpp; the including file puts PID_FUZZY_TABLE into its TABLE. */
#ifndef VERIF_GLUE_CXX_PID_FUZZY_HPP
#define VERIF_GLUE_CXX_PID_FUZZY_HPP
#include "a/pid_fuzzy.h"
#include "a/mf.h"

#define PID_FUZZY_TABLE                                       \
    {"a_pid_fuzzy", "init", "a_pid_fuzzy_init", 0, 0},         \
    {"a_pid_fuzzy", "set_opr", "a_pid_fuzzy_set_opr", 0, 0},   \
    {"a_pid_fuzzy", "bfuzz", "a_pid_fuzzy_bfuzz", 0, 0},       \
    {"a_pid_fuzzy", "set_bfuzz", "a_pid_fuzzy_set_bfuzz", 0, 0}, \
    {"a_pid_fuzzy", "set_rule", "a_pid_fuzzy_set_rule", 0, 0}, \
    {"a_pid_fuzzy", "set_kpid", "a_pid_fuzzy_set_kpid", 0, 0}, \
    {"a_pid_fuzzy", "run", "a_pid_fuzzy_run", 0, 0},           \
    {"a_pid_fuzzy", "pos", "a_pid_fuzzy_pos", 0, 0},           \
    {"a_pid_fuzzy", "inc", "a_pid_fuzzy_inc", 0, 0},           \
    {"a_pid_fuzzy", "zero", "a_pid_fuzzy_zero", 0, 0}

#define GF_NRULE 3
#define GF_NFUZZ 3
struct WF
{
    a_pid_fuzzy o;
    a_real me[4 * GF_NRULE + 1], mec[4 * GF_NRULE + 1]; /* tag a b c per set, A_MF_NUL at the end */
    a_real mkp[GF_NRULE * GF_NRULE], mki[GF_NRULE * GF_NRULE], mkd[GF_NRULE * GF_NRULE];
    a_real alt[5][GF_NRULE * GF_NRULE]; /* a second set of tables: set_rule must be told apart from "keep what was there" */
    union
    {
        unsigned char blk[A_PID_FUZZY_BFUZZ(GF_NFUZZ) + 64];
        a_real align_;
    } u;
    a_real ret;
    void *retp;
};
#define PIDF(W, p)                                                                                                        \
    FLD(W, p kp, 'r'), FLD(W, p ki, 'r'), FLD(W, p kd, 'r'), FLD(W, p summax, 'r'), FLD(W, p summin, 'r'), FLD(W, p sum, 'r'), \
        FLD(W, p outmax, 'r'), FLD(W, p outmin, 'r'), FLD(W, p out, 'r'), FLD(W, p var, 'r'), FLD(W, p fdb, 'r'), FLD(W, p err, 'r')
static Field const FF[] = {
    PIDF(WF, o.pid.), FLD(WF, o.me, 'p'), FLD(WF, o.mec, 'p'), FLD(WF, o.mkp, 'p'), FLD(WF, o.mki, 'p'), FLD(WF, o.mkd, 'p'),
    FLD(WF, o.idx, 'p'), FLD(WF, o.val, 'p'), FLD(WF, o.opr, 'p'), FLD(WF, o.kp, 'r'), FLD(WF, o.ki, 'r'), FLD(WF, o.kd, 'r'),
    FLD(WF, o.nrule, 'u'), FLD(WF, o.nfuzz, 'u'), ARR(WF, me, 'r'), ARR(WF, mec, 'r'), ARR(WF, mkp, 'r'), ARR(WF, mki, 'r'),
    ARR(WF, mkd, 'r'), ARR(WF, u.blk, 'b'), FLD(WF, ret, 'r'), FLD(WF, retp, 'p')};
static int const NFF = (int)(sizeof(FF) / sizeof(FF[0]));
static WF wf;

/* three overlapping triangles around `centre` with half-width `h`: two sets are active for most inputs */
static void gf_table(a_real *t, double centre, double h)
{
    for (int i = 0; i < GF_NRULE; ++i)
    {
        double b = centre + (i - 1) * h;
        t[4 * i] = A_MF_TRI;
        t[4 * i + 1] = (a_real)(b - h * 1.25);
        t[4 * i + 2] = (a_real)b;
        t[4 * i + 3] = (a_real)(b + h * 1.5);
    }
    t[4 * GF_NRULE] = A_MF_NUL;
}

/* a configured controller in a generated state (through the C API and direct field writes only) */
static void gf_fresh(Rng &r)
{
    a_real v[48];
    memset((void *)&wf, 0x5a, sizeof(wf));
    gf_table(wf.me, r.range(-0.5, 0.5), r.range(2, 4));
    gf_table(wf.mec, r.range(-0.5, 0.5), r.range(3, 6));
    r.distinct(v, 27, 0.1, 3, true);
    for (int i = 0; i < 9; ++i)
    {
        wf.mkp[i] = v[i];
        wf.mki[i] = v[9 + i];
        wf.mkd[i] = v[18 + i];
    }
    r.distinct(v, 45, 0.1, 3, true);
    for (int i = 0; i < 45; ++i) { wf.alt[i / 9][i % 9] = v[i]; }
    r.distinct(v, 12, 0.3, 5, true);
    wf.o.pid.summax = 40 + (v[0] < 0 ? -v[0] : v[0]);
    wf.o.pid.summin = -50 - (v[1] < 0 ? -v[1] : v[1]);
    wf.o.pid.outmax = 300 + v[2];
    wf.o.pid.outmin = -400 + v[3];
    wf.o.pid.sum = v[4];
    wf.o.pid.out = v[5];
    wf.o.pid.var = v[6];
    wf.o.pid.fdb = v[7];
    wf.o.pid.err = v[8];
    a_pid_fuzzy_set_rule(&wf.o, GF_NRULE, wf.me, wf.mec, wf.mkp, wf.mki, wf.mkd);
    a_pid_fuzzy_set_kpid(&wf.o, v[9], v[10], v[11]);
    a_pid_fuzzy_set_opr(&wf.o, A_PID_FUZZY_CAP_ALGEBRA);
    a_pid_fuzzy_set_bfuzz(&wf.o, wf.u.blk, GF_NFUZZ);
    wf.ret = -777;
    wf.retp = 0;
}

static void run_pid_fuzzy(Rng &r, long n)
{
    for (long k = 0; k < n; ++k)
    {
        a_real v[8];
        gf_fresh(r);
        /* init / zero on a state in which every state field is non-zero */
        if (k & 1)
        {
            compare("a_pid_fuzzy", "init", wf, "(state fields all non-zero)", [&](WF &q) { q.o.init(); },
                    [&](WF &q) { a_pid_fuzzy_init(&q.o); }, FF, NFF);
        }
        else
        {
            compare("a_pid_fuzzy", "zero", wf, "(state fields all non-zero)", [&](WF &q) { q.o.zero(); },
                    [&](WF &q) { a_pid_fuzzy_zero(&q.o); }, FF, NFF);
        }
        gf_fresh(r);
        {
            unsigned opr = 1 + r.below(7); /* 0 (EQU) and out-of-range values share the default arm: 1..6 are distinct, 7 is the default */
            compare("a_pid_fuzzy", "set_opr", wf, fmt("opr=%u", opr), [&](WF &q) { q.o.set_opr(opr); },
                    [&](WF &q) { a_pid_fuzzy_set_opr(&q.o, opr); }, FF, NFF);
        }
        {
            void *p = wf.u.blk + 16 * (1 + r.below(3));
            a_size num = 1 + r.below(2);
            compare("a_pid_fuzzy", "set_bfuzz", wf, fmt("ptr=blk+%u num=%u", (unsigned)((unsigned char *)p - wf.u.blk), (unsigned)num),
                    [&](WF &q) { q.o.set_bfuzz(p, num); }, [&](WF &q) { a_pid_fuzzy_set_bfuzz(&q.o, p, num); }, FF, NFF);
            compare("a_pid_fuzzy", "bfuzz", wf, "()", [&](WF &q) { q.retp = q.o.bfuzz(); },
                    [&](WF &q) { q.retp = a_pid_fuzzy_bfuzz(&q.o); }, FF, NFF);
        }
        {
            unsigned nr = 1 + r.below(2);
            compare("a_pid_fuzzy", "set_rule", wf, fmt("nrule=%u me=alt[0] mec=alt[1] mkp=alt[2] mki=alt[3] mkd=alt[4]", nr),
                    [&](WF &q) { q.o.set_rule(nr, q.alt[0], q.alt[1], q.alt[2], q.alt[3], q.alt[4]); },
                    [&](WF &q) { a_pid_fuzzy_set_rule(&q.o, nr, q.alt[0], q.alt[1], q.alt[2], q.alt[3], q.alt[4]); }, FF, NFF);
        }
        r.distinct(v, 3, 0.2, 6, true);
        compare("a_pid_fuzzy", "set_kpid", wf, "kp=" + R(v[0]) + " ki=" + R(v[1]) + " kd=" + R(v[2]),
                [&](WF &q) { q.o.set_kpid(v[0], v[1], v[2]); }, [&](WF &q) { a_pid_fuzzy_set_kpid(&q.o, v[0], v[1], v[2]); }, FF, NFF);
        /* stepping: a short history on a configured controller, every step compared (state, gains, scratch block) */
        gf_fresh(r);
        for (int s = 0; s < 4; ++s)
        {
            r.distinct(v, 2, 0.2, 2.5, true);
            a_real set = v[0], fdb = v[1];
            std::string a = "set=" + R(set) + " fdb=" + R(fdb) + fmt(" (step %d of a history)", s);
            switch ((k + s) % 3)
            {
            case 0:
                compare("a_pid_fuzzy", "run", wf, a, [&](WF &q) { q.ret = q.o.run(set, fdb); },
                        [&](WF &q) { q.ret = a_pid_fuzzy_run(&q.o, set, fdb); }, FF, NFF);
                break;
            case 1:
                compare("a_pid_fuzzy", "pos", wf, a, [&](WF &q) { q.ret = q.o.pos(set, fdb); },
                        [&](WF &q) { q.ret = a_pid_fuzzy_pos(&q.o, set, fdb); }, FF, NFF);
                break;
            default:
                compare("a_pid_fuzzy", "inc", wf, a, [&](WF &q) { q.ret = q.o.inc(set, fdb); },
                        [&](WF &q) { q.ret = a_pid_fuzzy_inc(&q.o, set, fdb); }, FF, NFF);
                break;
            }
        }
    }
}
#endif
