/* C12 configuration sweep: a_pid_*, a_pid_neuro_*, a_pid_fuzzy_* for a_real = float / double / long double (see cfg_common.h).
     pid   kp ki kd summax summin outmax outmin (<mode> set fdb)...         mode: 0 run, 1 pos, 2 inc, 3 zero
           object poisoned (777 in every field), then a_pid_init, a_pid_set_kpid, limits; after every step:
           returned value, sum out var fdb err; at the end kp ki kd summax summin outmax outmin
     neuro k kp ki kd wp wi wd outmax outmin (<mode> set fdb)...            mode: 0 run, 1 inc, 2 zero
           after every step: returned value, pid.out wp wi wd ec var fdb err; at the end k kp ki kd
     fuzzy ...                                                               see cfg_pid_fuzzy.h */
#include "a/pid.h"
#include "a/pid_neuro.h"
#include "glue/cfg_common.h"
#include "glue/cfg_pid_fuzzy.h"

static void run_case(void)
{
    long i;
    if (!strcmp(g_kind, "pid"))
    {
        a_pid c;
        a_real par[7];
        for (i = 0; i < 7; ++i) { par[i] = next_real(); }
        c.kp = c.ki = c.kd = c.summax = c.summin = c.sum = c.outmax = c.outmin = c.out = c.var = c.fdb = c.err = POISON;
        a_pid_init(&c);
        a_pid_set_kpid(&c, par[0], par[1], par[2]);
        c.summax = par[3];
        c.summin = par[4];
        c.outmax = par[5];
        c.outmin = par[6];
        while (more())
        {
            long mode = next_int();
            a_real set = next_real(), fdb = next_real(), r = 0;
            switch (mode)
            {
            case 0: r = a_pid_run(&c, set, fdb); break;
            case 1: r = a_pid_pos(&c, set, fdb); break;
            case 2: r = a_pid_inc(&c, set, fdb); break;
            default: a_pid_zero(&c); r = c.out; break;
            }
            put(r);
            put(c.sum); put(c.out); put(c.var); put(c.fdb); put(c.err);
        }
        put(c.kp); put(c.ki); put(c.kd); put(c.summax); put(c.summin); put(c.outmax); put(c.outmin);
    }
    else if (!strcmp(g_kind, "neuro"))
    {
        a_pid_neuro c;
        a_real par[9];
        for (i = 0; i < 9; ++i) { par[i] = next_real(); }
        c.pid.kp = c.pid.ki = c.pid.kd = c.pid.summax = c.pid.summin = c.pid.sum = c.pid.outmax = c.pid.outmin = POISON;
        c.pid.out = c.pid.var = c.pid.fdb = c.pid.err = c.k = c.wp = c.wi = c.wd = c.ec = POISON;
        a_pid_neuro_init(&c);
        a_pid_neuro_set_kpid(&c, par[0], par[1], par[2], par[3]);
        a_pid_neuro_set_wpid(&c, par[4], par[5], par[6]);
        c.pid.outmax = par[7];
        c.pid.outmin = par[8];
        while (more())
        {
            long mode = next_int();
            a_real set = next_real(), fdb = next_real(), r = 0;
            switch (mode)
            {
            case 0: r = a_pid_neuro_run(&c, set, fdb); break;
            case 1: r = a_pid_neuro_inc(&c, set, fdb); break;
            default: a_pid_neuro_zero(&c); r = c.pid.out; break;
            }
            put(r);
            put(c.pid.out); put(c.wp); put(c.wi); put(c.wd); put(c.ec); put(c.pid.var); put(c.pid.fdb); put(c.pid.err);
        }
        put(c.k); put(c.pid.kp); put(c.pid.ki); put(c.pid.kd);
    }
    else if (!strcmp(g_kind, "fuzzy")) { run_fuzzy_case(); }
    else { printf(" UNKNOWN-KIND"); }
}
