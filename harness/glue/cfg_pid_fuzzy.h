/* The fuzzy-tuned PID controller in the configuration sweep (shared by cfg_C12.c and cfg_C13.c, see cfg_common.h).
     fuzzy <nrule> <nfuzz> <opr> <mask> <lme> <lmec>  kp ki kd summax summin outmax outmin
           me[lme] mec[lmec] mkp[n*n] mki[n*n] mkd[n*n]  (<mode> set fdb)...      mode: 0 run, 1 pos, 2 inc, 3 zero
   Every table is a pool block of exactly its size; the scratch block handed to a_pid_fuzzy_set_bfuzz is a pool block of exactly
   A_PID_FUZZY_BFUZZ(nfuzz) bytes (the documented size, which depends on sizeof(a_real)).  mask bit 0/1/2: mkp/mki/mkd present
   (else NULL).  Printed after every step: returned value, pid.kp pid.ki pid.kd (the scheduled gains), sum out var fdb err;
   the guard bytes are checked after every call. */
#ifndef VERIF_GLUE_CFG_PID_FUZZY_H
#define VERIF_GLUE_CFG_PID_FUZZY_H
#include "a/pid_fuzzy.h"

static void run_fuzzy_case(void)
{
    long i, nrule = next_int(), nfuzz = next_int(), opr = next_int(), mask = next_int(), lme = next_int(), lmec = next_int();
    long nn = nrule * nrule;
    a_real par[7];
    a_real *me, *mec, *mkp, *mki, *mkd;
    void *blk;
    a_pid_fuzzy c;
    for (i = 0; i < 7; ++i) { par[i] = next_real(); }
    me = pool_reals("me", lme, 0);
    mec = pool_reals("mec", lmec, 0);
    mkp = pool_reals("mkp", nn, 0);
    mki = pool_reals("mki", nn, 0);
    mkd = pool_reals("mkd", nn, 0);
    blk = pool_take("bfuzz", A_PID_FUZZY_BFUZZ((size_t)nfuzz));
    memset(blk, 0x5a, A_PID_FUZZY_BFUZZ((size_t)nfuzz));
    for (i = 0; i < lme; ++i) { me[i] = next_real(); }
    for (i = 0; i < lmec; ++i) { mec[i] = next_real(); }
    for (i = 0; i < nn; ++i) { mkp[i] = next_real(); }
    for (i = 0; i < nn; ++i) { mki[i] = next_real(); }
    for (i = 0; i < nn; ++i) { mkd[i] = next_real(); }
    memset(&c, 0x5a, sizeof(c));
    c.pid.sum = c.pid.out = c.pid.var = c.pid.fdb = c.pid.err = POISON;
    a_pid_fuzzy_init(&c);
    a_pid_fuzzy_set_rule(&c, (unsigned)nrule, me, mec, (mask & 1) ? mkp : 0, (mask & 2) ? mki : 0, (mask & 4) ? mkd : 0);
    a_pid_fuzzy_set_kpid(&c, par[0], par[1], par[2]);
    a_pid_fuzzy_set_opr(&c, (unsigned)opr);
    a_pid_fuzzy_set_bfuzz(&c, blk, (a_size)nfuzz);
    c.pid.summax = par[3];
    c.pid.summin = par[4];
    c.pid.outmax = par[5];
    c.pid.outmin = par[6];
    pool_check("a_pid_fuzzy_set_bfuzz");
    put_int((long)(a_pid_fuzzy_bfuzz(&c) == blk));
    while (more())
    {
        long mode = next_int();
        a_real set = next_real(), fdb = next_real(), r = 0;
        switch (mode)
        {
        case 0: r = a_pid_fuzzy_run(&c, set, fdb); break;
        case 1: r = a_pid_fuzzy_pos(&c, set, fdb); break;
        case 2: r = a_pid_fuzzy_inc(&c, set, fdb); break;
        default: a_pid_fuzzy_zero(&c); r = c.pid.out; break;
        }
        put(r);
        put(c.pid.kp); put(c.pid.ki); put(c.pid.kd);
        put(c.pid.sum); put(c.pid.out); put(c.pid.var); put(c.pid.fdb); put(c.pid.err);
        pool_check(mode == 0 ? "a_pid_fuzzy_run" : mode == 1 ? "a_pid_fuzzy_pos" : mode == 2 ? "a_pid_fuzzy_inc" : "a_pid_fuzzy_zero");
    }
    put(c.kp); put(c.ki); put(c.kd);
}
#endif
