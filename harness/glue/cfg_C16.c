/* C16 configuration sweep: a_tf_*, a_lpf_*, a_hpf_* for a_real = float / double / long double (see cfg_common.h).
     tf <nn> <nd> num[nn] den[nd] (<op> [x])...   op: 0 a_tf_init  1 a_tf_iter x  2 a_tf_zero  3 a_tf_set_num  4 a_tf_set_den
                                                    5 dirty: both delay lines refilled with the poison value
        delay lines and coefficient vectors are pool blocks of exactly nn / nd cells, in the order input, num, output, den;
        after op 0, 2, 3, 4 every cell of both delay lines is printed, after op 1 the returned value; at the end both lines.
     lpf <alpha> x...    a_lpf_init on a poisoned object, then a_lpf_iter per x (value printed), alpha, output, a_lpf_zero, output
     hpf <alpha> x...    the same for a_hpf (output and input printed)
     gen <fc> <ts>       a_lpf_gen, a_hpf_gen, A_LPF_GEN / A_HPF_GEN through the initialiser macros A_LPF_2 / A_HPF_2 */
#include "a/tf.h"
#include "a/lpf.h"
#include "a/hpf.h"
#include "glue/cfg_common.h"

static void run_case(void)
{
    long i;
    if (!strcmp(g_kind, "tf"))
    {
        long nn = next_int(), nd = next_int();
        a_real *in = pool_reals("input", nn, POISON);
        a_real *num = pool_reals("num", nn, 0);
        a_real *out = pool_reals("output", nd, POISON);
        a_real *den = pool_reals("den", nd, 0);
        a_tf tf;
        memset(&tf, 0x5a, sizeof(tf));
        for (i = 0; i < nn; ++i) { num[i] = next_real(); }
        for (i = 0; i < nd; ++i) { den[i] = next_real(); }
        while (more())
        {
            long op = next_int();
            switch (op)
            {
            case 0: a_tf_init(&tf, (unsigned)nn, num, in, (unsigned)nd, den, out); break;
            case 1: put(a_tf_iter(&tf, next_real())); break;
            case 2: a_tf_zero(&tf); break;
            case 3: a_tf_set_num(&tf, (unsigned)nn, num, in); break;
            case 4: a_tf_set_den(&tf, (unsigned)nd, den, out); break;
            default:
                for (i = 0; i < nn; ++i) { in[i] = POISON; }
                for (i = 0; i < nd; ++i) { out[i] = POISON; }
                break;
            }
            if (op == 0 || op == 2 || op == 3 || op == 4)
            {
                put_arr(in, nn);
                put_arr(out, nd);
            }
            pool_check(op == 0 ? "a_tf_init" : op == 1 ? "a_tf_iter" : op == 2 ? "a_tf_zero" : op == 3 ? "a_tf_set_num" : op == 4 ? "a_tf_set_den" : "dirty");
        }
        put_arr(in, nn);
        put_arr(out, nd);
        put_int((long)tf.num_n);
        put_int((long)tf.den_n);
        put_int((long)(tf.input == in && tf.output == out && tf.num_p == num && tf.den_p == den));
    }
    else if (!strcmp(g_kind, "lpf"))
    {
        a_lpf f;
        f.alpha = POISON;
        f.output = POISON;
        a_lpf_init(&f, next_real());
        while (more()) { put(a_lpf_iter(&f, next_real())); }
        put(f.alpha);
        put(f.output);
        a_lpf_zero(&f);
        put(f.output);
    }
    else if (!strcmp(g_kind, "hpf"))
    {
        a_hpf f;
        f.alpha = POISON;
        f.output = POISON;
        f.input = POISON;
        a_hpf_init(&f, next_real());
        while (more()) { put(a_hpf_iter(&f, next_real())); }
        put(f.alpha);
        put(f.output);
        put(f.input);
        a_hpf_zero(&f);
        put(f.output);
        put(f.input);
    }
    else if (!strcmp(g_kind, "gen"))
    {
        a_real fc = next_real(), ts = next_real();
        a_lpf l = A_LPF_2(fc, ts);
        a_hpf h = A_HPF_2(fc, ts);
        put(a_lpf_gen(fc, ts));
        put(a_hpf_gen(fc, ts));
        put(l.alpha);
        put(h.alpha);
        put(l.output);
        put(h.output);
        put(h.input);
        {
            /* the same macros with compound argument expressions (exact splits: f1 + f2 == fc, t1 - t0 == ts): a macro
               that does not parenthesise its parameters computes something else */
            a_real f1 = fc / 2, f2 = fc - f1, t1 = ts * 2, t0 = ts;
            int const exact = (f1 + f2 == fc) && (t1 - t0 == ts);
            a_real fa = exact ? f1 : fc, fb = exact ? f2 : 0, ta = exact ? t1 : ts, tb = exact ? t0 : 0;
            a_lpf l2 = A_LPF_2(fa + fb, ta - tb);
            a_hpf h2 = A_HPF_2(fa + fb, ta - tb);
            a_lpf l1 = A_LPF_1(l.alpha / 2 + l.alpha / 2);
            a_hpf h1 = A_HPF_1(h.alpha / 2 + h.alpha / 2);
            put(A_LPF_GEN(fa + fb, ta - tb));
            put(A_HPF_GEN(fa + fb, ta - tb));
            put(l2.alpha);
            put(h2.alpha);
            put(l1.alpha - l.alpha);
            put(h1.alpha - h.alpha);
        }
    }
    else { printf(" UNKNOWN-KIND"); }
}
