/* C14 glue: C++ members of a_trajtrap and a_trajbell against the C functions they forward to
   (include/a/trajtrap.h, trajbell.h).  Requests are generated feasible (the generator returns a positive duration in
   almost every trial, counted as "effective"), in both directions of travel, with every argument distinct and non-zero;
   the defaulted boundary velocities are exercised by calling gen with 5, 6 and 7 arguments.  See cxx_common.hpp. */
#include "a/trajtrap.h"
#include "a/trajbell.h"
#include "glue/cxx_common.hpp"

Entry TABLE[] = {
    {"a_trajtrap", "gen", "a_trajtrap_gen", 0, 0},
    {"a_trajtrap", "pos", "a_trajtrap_pos", 0, 0},
    {"a_trajtrap", "vel", "a_trajtrap_vel", 0, 0},
    {"a_trajtrap", "acc", "a_trajtrap_acc", 0, 0},
    {"a_trajbell", "gen", "a_trajbell_gen", 0, 0},
    {"a_trajbell", "pos", "a_trajbell_pos", 0, 0},
    {"a_trajbell", "vel", "a_trajbell_vel", 0, 0},
    {"a_trajbell", "acc", "a_trajbell_acc", 0, 0},
    {"a_trajbell", "jer", "a_trajbell_jer", 0, 0},
};
int const NTABLE = (int)(sizeof(TABLE) / sizeof(TABLE[0]));

struct WT
{
    a_trajtrap o;
    a_real ret;
};
struct WB
{
    a_trajbell o;
    a_real ret;
};
static Field const FT[] = {FLD(WT, o.t, 'r'), FLD(WT, o.p0, 'r'), FLD(WT, o.p1, 'r'), FLD(WT, o.v0, 'r'), FLD(WT, o.v1, 'r'),
                           FLD(WT, o.vc, 'r'), FLD(WT, o.ta, 'r'), FLD(WT, o.td, 'r'), FLD(WT, o.pa, 'r'), FLD(WT, o.pd, 'r'),
                           FLD(WT, o.ac, 'r'), FLD(WT, o.de, 'r'), FLD(WT, ret, 'r')};
static Field const FB[] = {FLD(WB, o.t, 'r'), FLD(WB, o.tv, 'r'), FLD(WB, o.ta, 'r'), FLD(WB, o.td, 'r'), FLD(WB, o.taj, 'r'),
                           FLD(WB, o.tdj, 'r'), FLD(WB, o.p0, 'r'), FLD(WB, o.p1, 'r'), FLD(WB, o.v0, 'r'), FLD(WB, o.v1, 'r'),
                           FLD(WB, o.vm, 'r'), FLD(WB, o.jm, 'r'), FLD(WB, o.am, 'r'), FLD(WB, o.dm, 'r'), FLD(WB, ret, 'r')};
static int const NFT = (int)(sizeof(FT) / sizeof(FT[0])), NFB = (int)(sizeof(FB) / sizeof(FB[0]));
static WT wt;
static WB wb;
static long g_pos_t = 0, g_pos_b = 0;

#define TEV(ST, name, WW, FF, NF, w, T)                                                                                \
    {                                                                                                                  \
        a_real x = (a_real)(r.range(-0.1, 1.1) * (double)(T));                                                         \
        w.ret = -777;                                                                                                  \
        compare(#ST, #name, w, "x=" + R(x), [&](WW &q) { q.ret = q.o.name(x); },                                      \
                [&](WW &q) { q.ret = ST##_##name(&q.o, x); }, FF, NF);                                                 \
    }

static void run_all(Rng &r, long n)
{
    for (long k = 0; k < n; ++k)
    {
        a_real v[16];
        int arity = (int)(k % 3);
        double dir = (k & 4) ? -1 : 1;
        /* ------------------------------------------------------------ trapezoid */
        r.distinct(v, 13, 100, 900, true);
        wt.o.t = v[0]; wt.o.p0 = v[1]; wt.o.p1 = v[2]; wt.o.v0 = v[3]; wt.o.v1 = v[4]; wt.o.vc = v[5]; wt.o.ta = v[6];
        wt.o.td = v[7]; wt.o.pa = v[8]; wt.o.pd = v[9]; wt.o.ac = v[10]; wt.o.de = v[11]; wt.ret = v[12];
        {
            a_real vm = (a_real)r.range(3, 6), ac = (a_real)(dir * r.range(1, 2)), de = (a_real)(-dir * r.range(2.2, 3.2));
            a_real p0 = (a_real)r.range(-9, 9), p1 = (a_real)((double)p0 + dir * r.range(2, 40));
            a_real v0 = (a_real)(dir * r.range(0.2, 1)), v1 = (a_real)(dir * r.range(1.1, 2));
            if (k % 5 == 0) { vm = -vm; } /* the generator takes the magnitude */
            std::string s = "vm=" + R(vm) + " ac=" + R(ac) + " de=" + R(de) + " p0=" + R(p0) + " p1=" + R(p1);
            if (arity == 0)
            {
                compare("a_trajtrap", "gen", wt, s + " (v0, v1 defaulted)", [&](WT &q) { q.ret = q.o.gen(vm, ac, de, p0, p1); },
                        [&](WT &q) { q.ret = a_trajtrap_gen(&q.o, vm, ac, de, p0, p1, 0, 0); }, FT, NFT);
            }
            else if (arity == 1)
            {
                compare("a_trajtrap", "gen", wt, s + " v0=" + R(v0) + " (v1 defaulted)", [&](WT &q) { q.ret = q.o.gen(vm, ac, de, p0, p1, v0); },
                        [&](WT &q) { q.ret = a_trajtrap_gen(&q.o, vm, ac, de, p0, p1, v0, 0); }, FT, NFT);
            }
            else
            {
                compare("a_trajtrap", "gen", wt, s + " v0=" + R(v0) + " v1=" + R(v1), [&](WT &q) { q.ret = q.o.gen(vm, ac, de, p0, p1, v0, v1); },
                        [&](WT &q) { q.ret = a_trajtrap_gen(&q.o, vm, ac, de, p0, p1, v0, v1); }, FT, NFT);
            }
            if (wt.ret > 0) { ++g_pos_t; }
            a_real T = wt.ret > 0 ? wt.ret : 1;
            TEV(a_trajtrap, pos, WT, FT, NFT, wt, T) TEV(a_trajtrap, vel, WT, FT, NFT, wt, T) TEV(a_trajtrap, acc, WT, FT, NFT, wt, T)
        }
        /* ------------------------------------------------------------ double S */
        r.distinct(v, 15, 100, 900, true);
        wb.o.t = v[0]; wb.o.tv = v[1]; wb.o.ta = v[2]; wb.o.td = v[3]; wb.o.taj = v[4]; wb.o.tdj = v[5]; wb.o.p0 = v[6];
        wb.o.p1 = v[7]; wb.o.v0 = v[8]; wb.o.v1 = v[9]; wb.o.vm = v[10]; wb.o.jm = v[11]; wb.o.am = v[12]; wb.o.dm = v[13];
        wb.ret = v[14];
        {
            a_real jm = (a_real)r.range(5, 9), am = (a_real)r.range(1.5, 3), vm = (a_real)r.range(3.2, 4.8);
            a_real p0 = (a_real)r.range(-9, 9), p1 = (a_real)((double)p0 + dir * r.range(2, 60));
            a_real v0 = (a_real)(dir * r.range(0.1, 0.7)), v1 = (a_real)(dir * r.range(0.8, 1.4));
            if (k % 7 == 0) { jm = -jm; }
            std::string s = "jm=" + R(jm) + " am=" + R(am) + " vm=" + R(vm) + " p0=" + R(p0) + " p1=" + R(p1);
            if (arity == 0)
            {
                compare("a_trajbell", "gen", wb, s + " (v0, v1 defaulted)", [&](WB &q) { q.ret = q.o.gen(jm, am, vm, p0, p1); },
                        [&](WB &q) { q.ret = a_trajbell_gen(&q.o, jm, am, vm, p0, p1, 0, 0); }, FB, NFB);
            }
            else if (arity == 1)
            {
                compare("a_trajbell", "gen", wb, s + " v0=" + R(v0) + " (v1 defaulted)", [&](WB &q) { q.ret = q.o.gen(jm, am, vm, p0, p1, v0); },
                        [&](WB &q) { q.ret = a_trajbell_gen(&q.o, jm, am, vm, p0, p1, v0, 0); }, FB, NFB);
            }
            else
            {
                compare("a_trajbell", "gen", wb, s + " v0=" + R(v0) + " v1=" + R(v1), [&](WB &q) { q.ret = q.o.gen(jm, am, vm, p0, p1, v0, v1); },
                        [&](WB &q) { q.ret = a_trajbell_gen(&q.o, jm, am, vm, p0, p1, v0, v1); }, FB, NFB);
            }
            if (wb.ret > 0) { ++g_pos_b; }
            a_real T = wb.ret > 0 ? wb.ret : 1;
            TEV(a_trajbell, pos, WB, FB, NFB, wb, T) TEV(a_trajbell, vel, WB, FB, NFB, wb, T) TEV(a_trajbell, acc, WB, FB, NFB, wb, T)
            TEV(a_trajbell, jer, WB, FB, NFB, wb, T)
        }
    }
    printf("NOTE positive-duration a_trajtrap %ld/%ld a_trajbell %ld/%ld\n", g_pos_t, n, g_pos_b, n);
}
