/* C15 configuration sweep: a_trajpoly3/5/7_* and a_poly_* for a_real = float / double / long double (see cfg_common.h).
     p3 <ts> <p0> <p1> <v0> <v1> x...                        gen on a poisoned object; c[0..3]; per x: pos vel acc;
                                                             then c0 / c1 / c2 into pool arrays of exactly 4 / 3 / 2 cells
     p5 <ts> <p0> <p1> <v0> <v1> <a0> <a1> x...              the same, 6 coefficients, arrays of 6 / 5 / 4 cells
     p7 <ts> <p0> <p1> <v0> <v1> <a0> <a1> <j0> <j1> x...    the same plus jer and c3, arrays of 8 / 7 / 6 / 5 cells
     poly <n> a[n] <x>     a_poly_eval, a_poly_evar (and the pointer-pair forms when n > 0), then a_poly_swap twice,
                           the array (a pool block of exactly n cells) printed after each
     xtx <m> x[m] <n>      a_poly_xTx into a pool block of n*n cells
     xty <m> x[m] y[m] <n> a_poly_xTy into a pool block of n cells */
#include "a/trajpoly3.h"
#include "a/trajpoly5.h"
#include "a/trajpoly7.h"
#include "a/poly.h"
#include "glue/cfg_common.h"

static void run_case(void)
{
    long i;
    if (!strcmp(g_kind, "p3"))
    {
        a_trajpoly3 t;
        a_real a[5], *c0 = pool_reals("c0", 4, POISON), *c1 = pool_reals("c1", 3, POISON), *c2 = pool_reals("c2", 2, POISON);
        for (i = 0; i < 4; ++i) { t.c[i] = POISON; }
        for (i = 0; i < 5; ++i) { a[i] = next_real(); }
        a_trajpoly3_gen(&t, a[0], a[1], a[2], a[3], a[4]);
        put_arr(t.c, 4);
        while (more())
        {
            a_real x = next_real();
            put(a_trajpoly3_pos(&t, x));
            put(a_trajpoly3_vel(&t, x));
            put(a_trajpoly3_acc(&t, x));
        }
        a_trajpoly3_c0(&t, c0); pool_check("a_trajpoly3_c0");
        a_trajpoly3_c1(&t, c1); pool_check("a_trajpoly3_c1");
        a_trajpoly3_c2(&t, c2); pool_check("a_trajpoly3_c2");
        put_arr(c0, 4); put_arr(c1, 3); put_arr(c2, 2);
    }
    else if (!strcmp(g_kind, "p5"))
    {
        a_trajpoly5 t;
        a_real a[7], *c0 = pool_reals("c0", 6, POISON), *c1 = pool_reals("c1", 5, POISON), *c2 = pool_reals("c2", 4, POISON);
        for (i = 0; i < 6; ++i) { t.c[i] = POISON; }
        for (i = 0; i < 7; ++i) { a[i] = next_real(); }
        a_trajpoly5_gen(&t, a[0], a[1], a[2], a[3], a[4], a[5], a[6]);
        put_arr(t.c, 6);
        while (more())
        {
            a_real x = next_real();
            put(a_trajpoly5_pos(&t, x));
            put(a_trajpoly5_vel(&t, x));
            put(a_trajpoly5_acc(&t, x));
        }
        a_trajpoly5_c0(&t, c0); pool_check("a_trajpoly5_c0");
        a_trajpoly5_c1(&t, c1); pool_check("a_trajpoly5_c1");
        a_trajpoly5_c2(&t, c2); pool_check("a_trajpoly5_c2");
        put_arr(c0, 6); put_arr(c1, 5); put_arr(c2, 4);
    }
    else if (!strcmp(g_kind, "p7"))
    {
        a_trajpoly7 t;
        a_real a[9], *c0 = pool_reals("c0", 8, POISON), *c1 = pool_reals("c1", 7, POISON), *c2 = pool_reals("c2", 6, POISON),
                     *c3 = pool_reals("c3", 5, POISON);
        for (i = 0; i < 8; ++i) { t.c[i] = POISON; }
        for (i = 0; i < 9; ++i) { a[i] = next_real(); }
        a_trajpoly7_gen(&t, a[0], a[1], a[2], a[3], a[4], a[5], a[6], a[7], a[8]);
        put_arr(t.c, 8);
        while (more())
        {
            a_real x = next_real();
            put(a_trajpoly7_pos(&t, x));
            put(a_trajpoly7_vel(&t, x));
            put(a_trajpoly7_acc(&t, x));
            put(a_trajpoly7_jer(&t, x));
        }
        a_trajpoly7_c0(&t, c0); pool_check("a_trajpoly7_c0");
        a_trajpoly7_c1(&t, c1); pool_check("a_trajpoly7_c1");
        a_trajpoly7_c2(&t, c2); pool_check("a_trajpoly7_c2");
        a_trajpoly7_c3(&t, c3); pool_check("a_trajpoly7_c3");
        put_arr(c0, 8); put_arr(c1, 7); put_arr(c2, 6); put_arr(c3, 5);
    }
    else if (!strcmp(g_kind, "poly"))
    {
        long n = next_int();
        a_real *a = pool_reals("a", n, POISON), x;
        for (i = 0; i < n; ++i) { a[i] = next_real(); }
        x = next_real();
        put(a_poly_eval(a, (a_size)n, x));
        put(a_poly_evar(a, (a_size)n, x));
        if (n > 0)
        {
            put(a_poly_eval_(a, a + n, x));
            put(a_poly_evar_(a, a + n, x));
        }
        pool_check("a_poly_eval");
        a_poly_swap(a, (a_size)n);
        pool_check("a_poly_swap");
        put_arr(a, n);
        if (n > 0) { a_poly_swap_(a, a + n); }
        pool_check("a_poly_swap_");
        put_arr(a, n);
    }
    else if (!strcmp(g_kind, "xtx"))
    {
        long m = next_int(), n;
        a_real *x = pool_reals("x", m, POISON), *A;
        for (i = 0; i < m; ++i) { x[i] = next_real(); }
        n = next_int();
        A = pool_reals("A", n * n, POISON);
        a_poly_xTx((a_uint)m, x, (a_uint)n, A);
        pool_check("a_poly_xTx");
        put_arr(A, n * n);
    }
    else if (!strcmp(g_kind, "xty"))
    {
        long m = next_int(), n;
        a_real *x = pool_reals("x", m, POISON), *y = pool_reals("y", m, POISON), *b;
        for (i = 0; i < m; ++i) { x[i] = next_real(); }
        for (i = 0; i < m; ++i) { y[i] = next_real(); }
        n = next_int();
        b = pool_reals("b", n, POISON);
        a_poly_xTy((a_uint)m, x, y, (a_uint)n, b);
        pool_check("a_poly_xTy");
        put_arr(b, n);
    }
    else { printf(" UNKNOWN-KIND"); }
}
