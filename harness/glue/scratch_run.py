#!/usr/bin/env python3
"""Scratch runner of the glue checks of ONE property without going through checks/<ID>.py (used while checks/C14.py was being
edited by someone else, and for experiments on scratch copies):

    [VERIF_REPO=<tree>] [VERIF_SEED=n] python3 harness/glue/scratch_run.py <ID> [cxx|cfg|both] [quick|thorough]

Builds go to build/glue/<ID>/; evidence/ is not touched (ctx.finish is not called); a violation still writes its replay file under
replays/<ID>/ and prints the VIOLATION line.  Exit status 1 when a violation or a broken tie was recorded."""
import os
import sys
import time

HERE = os.path.dirname(os.path.abspath(__file__))
ROOT = os.path.dirname(os.path.dirname(HERE))
sys.path.insert(0, os.path.join(ROOT, "tools"))
sys.path.insert(0, ROOT)
import vlib   # noqa: E402
import vglue  # noqa: E402


def main():
    pid = sys.argv[1]
    what = sys.argv[2] if len(sys.argv) > 2 else "both"
    tier = sys.argv[3] if len(sys.argv) > 3 else "quick"
    ctx = vlib.Ctx(pid, tier, int(os.environ.get("VERIF_SEED", "20260926")))
    ctx.build = vlib.VERIF / "build" / "glue" / pid
    ctx.build.mkdir(parents=True, exist_ok=True)
    t = time.time()
    if what in ("cxx", "both"):
        vglue.cxx_wrappers(ctx, pid)
    if what in ("cfg", "both"):
        vglue.config_sweep(ctx, pid)
    print("time %.1fs violations %d broken ties %s" % (time.time() - t, ctx.n_viol, ctx.broken_ties))
    for k, v in ctx.cov.items():
        if k.startswith("glue"):
            print(k, "=", str(v)[:400])
    return 1 if ctx.n_viol or ctx.broken_ties else 0


if __name__ == "__main__":
    sys.exit(main())
