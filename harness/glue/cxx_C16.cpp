/* C16 glue: C++ members of a_tf, a_lpf and a_hpf (include/a/tf.h, lpf.h, hpf.h).  The members of a_tf forward to the C
   API; those of a_lpf / a_hpf REPEAT the body of the C inline functions (gen stores a_lpf_gen / a_hpf_gen in alpha,
   operator() is a_lpf_iter / a_hpf_iter, zero is a_lpf_zero / a_hpf_zero), so for them the comparison is between two
   pieces of text that must stay equal.  Coefficient vectors and both delay lines live in the world, pre-filled with
   pairwise distinct non-zero values; delay lines are longer than the orders used, the cells behind them must not change.
   See cxx_common.hpp for the method. */
#include "a/tf.h"
#include "a/lpf.h"
#include "a/hpf.h"
#include "glue/cxx_common.hpp"

Entry TABLE[] = {
    {"a_tf", "init", "a_tf_init", 0, 0},
    {"a_tf", "set_num", "a_tf_set_num", 0, 0},
    {"a_tf", "set_den", "a_tf_set_den", 0, 0},
    {"a_tf", "operator()", "a_tf_iter", 0, 0},
    {"a_tf", "zero", "a_tf_zero", 0, 0},
    {"a_lpf", "gen", "alpha=a_lpf_gen", 0, 0},
    {"a_lpf", "operator()", "a_lpf_iter", 0, 0},
    {"a_lpf", "zero", "a_lpf_zero", 0, 0},
    {"a_hpf", "gen", "alpha=a_hpf_gen", 0, 0},
    {"a_hpf", "operator()", "a_hpf_iter", 0, 0},
    {"a_hpf", "zero", "a_hpf_zero", 0, 0},
};
int const NTABLE = (int)(sizeof(TABLE) / sizeof(TABLE[0]));

#define NA 8
struct WTF
{
    a_tf o;
    a_real num[NA], den[NA], in[NA], out[NA];
    a_real num2[NA], den2[NA], in2[NA], out2[NA]; /* what the object pointed to before a setter is called */
    a_real ret;
};
struct WL
{
    a_lpf o;
    a_real ret;
};
struct WH
{
    a_hpf o;
    a_real ret;
};
static Field const FTF[] = {FLD(WTF, o.input, 'p'), FLD(WTF, o.output, 'p'), FLD(WTF, o.num_p, 'p'), FLD(WTF, o.den_p, 'p'),
                            FLD(WTF, o.num_n, 'u'), FLD(WTF, o.den_n, 'u'), ARR(WTF, num, 'r'), ARR(WTF, den, 'r'), ARR(WTF, in, 'r'),
                            ARR(WTF, out, 'r'), ARR(WTF, num2, 'r'), ARR(WTF, den2, 'r'), ARR(WTF, in2, 'r'), ARR(WTF, out2, 'r'),
                            FLD(WTF, ret, 'r')};
static Field const FL[] = {FLD(WL, o.alpha, 'r'), FLD(WL, o.output, 'r'), FLD(WL, ret, 'r')};
static Field const FH[] = {FLD(WH, o.alpha, 'r'), FLD(WH, o.output, 'r'), FLD(WH, o.input, 'r'), FLD(WH, ret, 'r')};
static int const NFTF = (int)(sizeof(FTF) / sizeof(FTF[0]));
static WTF wtf;
static WL wl;
static WH wh;

static void fresh_tf(Rng &r)
{
    a_real v[32];
    memset((void *)&wtf, 0x5a, sizeof(wtf));
    for (int b = 0; b < 2; ++b)
    {
        r.distinct(v, 4 * NA, 0.1, 3, true);
        for (int i = 0; i < NA; ++i)
        {
            (b ? wtf.num2 : wtf.num)[i] = v[i];
            (b ? wtf.den2 : wtf.den)[i] = v[NA + i] / 4;
            (b ? wtf.in2 : wtf.in)[i] = v[2 * NA + i];
            (b ? wtf.out2 : wtf.out)[i] = v[3 * NA + i];
        }
    }
    /* the object starts as a filter over the second set of arrays, orders 2 / 1 */
    wtf.o.num_p = wtf.num2;
    wtf.o.den_p = wtf.den2;
    wtf.o.input = wtf.in2;
    wtf.o.output = wtf.out2;
    wtf.o.num_n = 2;
    wtf.o.den_n = 1;
    wtf.ret = -777;
}

static void run_all(Rng &r, long n)
{
    for (long k = 0; k < n; ++k)
    {
        a_real v[8];
        /* ------------------------------------------------------------ a_tf */
        unsigned nn = 1 + r.below(3), nd = 4 + r.below(3); /* distinct orders: 1..3 and 4..6 */
        if (k & 1)
        {
            unsigned t = nn;
            nn = nd;
            nd = t;
        }
        fresh_tf(r);
        compare("a_tf", "init", wtf, fmt("num_n=%u num_p=num input=in den_n=%u den_p=den output=out (arrays of %d cells, all non-zero)", nn, nd, NA),
                [&](WTF &q) { q.o.init(nn, q.num, q.in, nd, q.den, q.out); },
                [&](WTF &q) { a_tf_init(&q.o, nn, q.num, q.in, nd, q.den, q.out); }, FTF, NFTF);
        for (int s = 0; s < 3; ++s)
        {
            r.distinct(v, 1, 0.3, 5, true);
            a_real x = v[0];
            compare("a_tf", "operator()", wtf, "x=" + R(x) + fmt(" (step %d after init with orders %u/%u)", s, nn, nd),
                    [&](WTF &q) { q.ret = q.o(x); }, [&](WTF &q) { q.ret = a_tf_iter(&q.o, x); }, FTF, NFTF);
        }
        compare("a_tf", "zero", wtf, fmt("(after 3 steps, orders %u/%u)", nn, nd), [&](WTF &q) { q.o.zero(); },
                [&](WTF &q) { a_tf_zero(&q.o); }, FTF, NFTF);
        fresh_tf(r);
        compare("a_tf", "set_num", wtf, fmt("num_n=%u num_p=num input=in", nn), [&](WTF &q) { q.o.set_num(nn, q.num, q.in); },
                [&](WTF &q) { a_tf_set_num(&q.o, nn, q.num, q.in); }, FTF, NFTF);
        compare("a_tf", "set_den", wtf, fmt("den_n=%u den_p=den output=out", nd), [&](WTF &q) { q.o.set_den(nd, q.den, q.out); },
                [&](WTF &q) { a_tf_set_den(&q.o, nd, q.den, q.out); }, FTF, NFTF);
        /* ------------------------------------------------------------ a_lpf / a_hpf */
        r.distinct(v, 6, 0.1, 0.9, false);
        wl.o.alpha = v[0];
        wl.o.output = -v[1] * 7;
        wl.ret = -777;
        wh.o.alpha = v[2];
        wh.o.output = v[3] * 5;
        wh.o.input = -v[4] * 3;
        wh.ret = -777;
        {
            a_real fc = (a_real)r.range(2, 40), ts = (a_real)r.range(0.001, 0.02);
            std::string a = "fc=" + R(fc) + " ts=" + R(ts);
            for (int s = 0; s < 2; ++s)
            {
                a_real x = (a_real)r.range(-5, 5);
                compare("a_lpf", "operator()", wl, "x=" + R(x), [&](WL &q) { q.ret = q.o(x); }, [&](WL &q) { q.ret = a_lpf_iter(&q.o, x); }, FL, 3);
                compare("a_hpf", "operator()", wh, "x=" + R(x), [&](WH &q) { q.ret = q.o(x); }, [&](WH &q) { q.ret = a_hpf_iter(&q.o, x); }, FH, 4);
            }
            compare("a_lpf", "gen", wl, a, [&](WL &q) { q.o.gen(fc, ts); }, [&](WL &q) { q.o.alpha = a_lpf_gen(fc, ts); }, FL, 3);
            compare("a_hpf", "gen", wh, a, [&](WH &q) { q.o.gen(fc, ts); }, [&](WH &q) { q.o.alpha = a_hpf_gen(fc, ts); }, FH, 4);
            compare("a_lpf", "zero", wl, "(output non-zero)", [&](WL &q) { q.o.zero(); }, [&](WL &q) { a_lpf_zero(&q.o); }, FL, 3);
            compare("a_hpf", "zero", wh, "(output, input non-zero)", [&](WH &q) { q.o.zero(); }, [&](WH &q) { a_hpf_zero(&q.o); }, FH, 4);
        }
    }
}
