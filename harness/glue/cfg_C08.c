/* C08 configuration sweep: the PLU / LDL^T / LL^T families of src/linalg_plu.c, linalg_ldl.c, linalg_llt.c for a_real = float /
   double / long double (see cfg_common.h).

       plu|ldl|llt <n> <rmask> A[n*n] b[n]

   rmask selects the derived routines that are run after a successful factorisation (the generator leaves out those whose
   intermediates would not be exact on this matrix):  1 the solve chain,  2 the two inverses,  4 the determinant,
   8 the read-outs of the factors, the log-determinant and the sign of the determinant.

   Every array the library sees is a pool block of exactly its size (guard bytes between and around them, scanned after every
   call): the matrix / factor storage A (n*n), the permutation p (n a_uint, pre-filled with 99), the right-hand side b (n), a
   vector v (n), the scratch vector w (n) and a result matrix M (n*n); v, w and M are refilled with the poison value 777 before
   every routine that is documented to produce them.  Printed, in this order (call sequence of harness/C08/drv.c):
     plu: rc; on success sign p[n] A[n*n];  8: P P_ L U (n*n each);  1: apply lower upper (the same vector, n each), solve (n);
          2: inv: w[n] M[n*n], inv_: M[n*n];  4: det;  8: lndet sgndet;  then i1 iff the factor storage is unchanged by the derived
          routines, i1 iff b is unchanged
     ldl: rc; on success A[n*n];  8: L (n*n) D (n);  1: lower upper (in place on a copy of b), solve;  2: inv: w M, inv_: M;  4: det;
          8: lndet sgndet;  factor storage unchanged
     llt: as ldl without D and sgndet
   After a failure (rc != 0) nothing else is printed: the contents of A, p and sign are unspecified then. */
#include "a/linalg.h"
#include "glue/cfg_common.h"

static void poison(a_real *p, long n)
{
    long i;
    for (i = 0; i < n; ++i) { p[i] = POISON; }
}

static int same(a_real const *x, a_real const *y, long n)
{
    long i;
    for (i = 0; i < n; ++i)
    {
        if (memcmp(&x[i], &y[i], sizeof(a_real) > 10 ? 10 : sizeof(a_real))) { return 0; }
    }
    return 1;
}

static void run_case(void)
{
    int const plu = !strcmp(g_kind, "plu"), ldl = !strcmp(g_kind, "ldl"), llt = !strcmp(g_kind, "llt");
    long n, nn, rmask, i;
    a_real *A, *b, *v, *w, *M, *A1, *b1;
    a_uint *p = 0;
    int rc, sign = 12345;
    if (!plu && !ldl && !llt)
    {
        printf(" UNKNOWN-KIND");
        return;
    }
    n = next_int();
    rmask = next_int();
    if (n < 0 || n > 8)
    {
        printf(" BAD-CASE-LINE");
        return;
    }
    nn = n * n;
    A = pool_reals("A", nn, 0);
    if (plu)
    {
        p = (a_uint *)pool_take("p", sizeof(a_uint) * (size_t)n);
        for (i = 0; i < n; ++i) { p[i] = 99; }
    }
    b = pool_reals("b", n, 0);
    v = pool_reals("v", n, POISON);
    w = pool_reals("scratch", n, POISON);
    M = pool_reals("M", nn, POISON);
    for (i = 0; i < nn; ++i) { A[i] = next_real(); }
    for (i = 0; i < n; ++i) { b[i] = next_real(); }

    if (plu)
    {
        rc = a_real_plu((a_uint)n, A, p, &sign);
        put_int(rc);
        pool_check("a_real_plu");
        if (rc) { return; }
        put_int(sign);
        for (i = 0; i < n; ++i) { put_int((long)p[i]); }
    }
    else if (ldl)
    {
        rc = a_real_ldl((a_uint)n, A);
        put_int(rc);
        pool_check("a_real_ldl");
        if (rc) { return; }
    }
    else
    {
        rc = a_real_llt((a_uint)n, A);
        put_int(rc);
        pool_check("a_real_llt");
        if (rc) { return; }
    }
    put_arr(A, nn);
    A1 = (a_real *)malloc(sizeof(a_real) * (size_t)(nn ? nn : 1));
    b1 = (a_real *)malloc(sizeof(a_real) * (size_t)(n ? n : 1));
    for (i = 0; i < nn; ++i) { A1[i] = A[i]; }
    for (i = 0; i < n; ++i) { b1[i] = b[i]; }

    if (plu)
    {
        if (rmask & 8)
        {
            poison(M, nn); a_real_plu_P((a_uint)n, p, M); put_arr(M, nn); pool_check("a_real_plu_P");
            poison(M, nn); a_real_plu_P_((a_uint)n, p, M); put_arr(M, nn); pool_check("a_real_plu_P_");
            poison(M, nn); a_real_plu_L((a_uint)n, A, M); put_arr(M, nn); pool_check("a_real_plu_L");
            poison(M, nn); a_real_plu_U((a_uint)n, A, M); put_arr(M, nn); pool_check("a_real_plu_U");
        }
        if (rmask & 1)
        {
            poison(v, n); a_real_plu_apply((a_uint)n, p, b, v); put_arr(v, n); pool_check("a_real_plu_apply");
            a_real_plu_lower((a_uint)n, A, v); put_arr(v, n); pool_check("a_real_plu_lower");
            a_real_plu_upper((a_uint)n, A, v); put_arr(v, n); pool_check("a_real_plu_upper");
            poison(v, n); a_real_plu_solve((a_uint)n, A, p, b, v); put_arr(v, n); pool_check("a_real_plu_solve");
        }
        if (rmask & 2)
        {
            poison(w, n); poison(M, nn); a_real_plu_inv((a_uint)n, A, p, w, M); put_arr(w, n); put_arr(M, nn); pool_check("a_real_plu_inv");
            poison(M, nn); a_real_plu_inv_((a_uint)n, A, p, M); put_arr(M, nn); pool_check("a_real_plu_inv_");
        }
        if (rmask & 4) { put(a_real_plu_det((a_uint)n, A, sign)); }
        if (rmask & 8)
        {
            put(a_real_plu_lndet((a_uint)n, A));
            put_int(a_real_plu_sgndet((a_uint)n, A, sign));
        }
    }
    else if (ldl)
    {
        if (rmask & 8)
        {
            poison(M, nn); a_real_ldl_L((a_uint)n, A, M); put_arr(M, nn); pool_check("a_real_ldl_L");
            poison(v, n); a_real_ldl_D((a_uint)n, A, v); put_arr(v, n); pool_check("a_real_ldl_D");
        }
        if (rmask & 1)
        {
            for (i = 0; i < n; ++i) { v[i] = b[i]; }
            a_real_ldl_lower((a_uint)n, A, v); put_arr(v, n); pool_check("a_real_ldl_lower");
            a_real_ldl_upper((a_uint)n, A, v); put_arr(v, n); pool_check("a_real_ldl_upper");
            for (i = 0; i < n; ++i) { v[i] = b[i]; }
            a_real_ldl_solve((a_uint)n, A, v); put_arr(v, n); pool_check("a_real_ldl_solve");
        }
        if (rmask & 2)
        {
            poison(w, n); poison(M, nn); a_real_ldl_inv((a_uint)n, A, w, M); put_arr(w, n); put_arr(M, nn); pool_check("a_real_ldl_inv");
            poison(M, nn); a_real_ldl_inv_((a_uint)n, A, M); put_arr(M, nn); pool_check("a_real_ldl_inv_");
        }
        if (rmask & 4) { put(a_real_ldl_det((a_uint)n, A)); }
        if (rmask & 8)
        {
            put(a_real_ldl_lndet((a_uint)n, A));
            put_int(a_real_ldl_sgndet((a_uint)n, A));
        }
    }
    else
    {
        if (rmask & 8) { poison(M, nn); a_real_llt_L((a_uint)n, A, M); put_arr(M, nn); pool_check("a_real_llt_L"); }
        if (rmask & 1)
        {
            for (i = 0; i < n; ++i) { v[i] = b[i]; }
            a_real_llt_lower((a_uint)n, A, v); put_arr(v, n); pool_check("a_real_llt_lower");
            a_real_llt_upper((a_uint)n, A, v); put_arr(v, n); pool_check("a_real_llt_upper");
            for (i = 0; i < n; ++i) { v[i] = b[i]; }
            a_real_llt_solve((a_uint)n, A, v); put_arr(v, n); pool_check("a_real_llt_solve");
        }
        if (rmask & 2)
        {
            poison(w, n); poison(M, nn); a_real_llt_inv((a_uint)n, A, w, M); put_arr(w, n); put_arr(M, nn); pool_check("a_real_llt_inv");
            poison(M, nn); a_real_llt_inv_((a_uint)n, A, M); put_arr(M, nn); pool_check("a_real_llt_inv_");
        }
        if (rmask & 4) { put(a_real_llt_det((a_uint)n, A)); }
        if (rmask & 8) { put(a_real_llt_lndet((a_uint)n, A)); }
    }
    put_int(same(A, A1, nn));
    if (plu) { put_int(same(b, b1, n)); }
    free(A1);
    free(b1);
}
