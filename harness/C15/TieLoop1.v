(* All-lengths translator tie of C15: the Horner evaluators and the coefficient swap of src/poly.c with the public wrappers of
   include/a/poly.h.  Module Gen.GenLoop is regenerated on every run by tools/c2arr.py from the CURRENT source: the three pointer
   loops `for (y = *--b; b > a;)`, `for (y = *a; ++a < b;)`, `for (; a < --b; ++a)` are Fixpoints on fuel (the call site passes
   S (b - a)); both pointers are offsets into ONE array `list T`, loads are nth_error, stores the checked update, `--b` at
   offset 0 is an error (None).  For EVERY NumOps instance, EVERY coefficient count and every position of the coefficients
   inside a larger array (pre ++ c ++ post, a = length pre, b = a + length c), and all values:
     tie_a_poly_eval_ / evar_ / swap_   c <> [] : generated = hand model of C15/PolyDefs.v (swap: the array with c replaced);
     tie_a_poly_*_empty                 the empty range at offset 0 (undefined in C: reads a[-1] resp. a[0] of an empty array,
                                        forms a - 1): the generated program stops; so do the models of eval_/evar_;
     tie_a_poly_eval / evar / swap      the wrappers (n ? f_(a, a + n, x) : 0, if (n > 1)), every count including 0 and 1.
   No hypothesis on sizes: the code does no integer arithmetic (pointers are not bounded; only accesses are checked). *)
From Coq Require Import ZArith List Bool Arith Lia.
From LibaV Require Import Common.NumOps C15.PolyDefs C15.LoopTieLemmas.
From Gen Require Import GenLoop.
Import ListNotations.

Section Tie.
  Context {T : Type} (O : NumOps T).
  Local Notation step x := (fun y ci => add O (mul O y x) ci).

  (* ---------------------------------------------------------------- a_poly_eval_: from the last coefficient down *)
  Lemma eval_loop x : forall mid pre post y fuel, length mid < fuel ->   (* for tie_a_poly_eval_ *)
    gen_a_poly_eval__loop1 O fuel (length pre) x (pre ++ mid ++ post) y (length pre + length mid) = Some (fold_left (step x) (rev mid) y).
  Proof.
    intros mid. induction mid as [|v mid IH] using rev_ind; intros pre post y fuel Hf.
    - destruct fuel as [|f]; [lia|]. cbn [gen_a_poly_eval__loop1 length rev fold_left]. rewrite Nat.add_0_r, Nat.ltb_irrefl. reflexivity.
    - destruct fuel as [|f]; [rewrite app_length in Hf; lia|]. rewrite app_length in *. cbn [length] in *.
      replace (length pre + (length mid + 1)) with (S (length pre + length mid)) by lia.
      cbn [gen_a_poly_eval__loop1].
      replace (length pre <? S (length pre + length mid)) with true by (symmetry; apply Nat.ltb_lt; lia).
      rewrite <- (app_assoc mid [v] post). cbn [app].
      replace (nth_error (pre ++ mid ++ v :: post) (length pre + length mid)) with (Some v).
      2:{ symmetry. rewrite (app_assoc pre mid (v :: post)). apply nth_error_mid'. rewrite app_length. reflexivity. }
      rewrite rev_app_distr. cbn [rev app fold_left]. apply IH. lia.
  Qed.

  Theorem tie_a_poly_eval_ : forall pre c post x, c <> [] ->
    gen_a_poly_eval_ O (pre ++ c ++ post) (length pre) (length pre + length c) x = poly_eval O c x.
  Proof.
    intros pre c post x Hc. destruct (@exists_last T c Hc) as (mid & v & ->).
    unfold gen_a_poly_eval_, poly_eval. rewrite app_length. cbn [length].
    replace (length pre + (length mid + 1)) with (S (length pre + length mid)) by lia.
    rewrite <- (app_assoc mid [v] post). cbn [app].
    replace (nth_error (pre ++ mid ++ v :: post) (length pre + length mid)) with (Some v).
    2:{ symmetry. rewrite (app_assoc pre mid (v :: post)). apply nth_error_mid'. rewrite app_length. reflexivity. }
    rewrite rev_app_distr. cbn [rev app]. apply eval_loop. lia.
  Qed.
  (* the empty range at the start of an array: the C reads a[-1]; both sides stop *)
  Theorem tie_a_poly_eval__empty : forall m x, gen_a_poly_eval_ O m 0 0 x = poly_eval O [] x.
  Proof. reflexivity. Qed.

  (* ---------------------------------------------------------------- a_poly_evar_: from the first coefficient up *)
  Lemma evar_loop x : forall mid pre post y fuel a, S a = length pre -> length mid < fuel ->   (* for tie_a_poly_evar_ *)
    gen_a_poly_evar__loop1 O fuel (length pre + length mid) x (pre ++ mid ++ post) a y = Some (fold_left (step x) mid y).
  Proof.
    intros mid. induction mid as [|v mid IH]; intros pre post y fuel a Ha Hf.
    - destruct fuel as [|f]; [lia|]. cbn [gen_a_poly_evar__loop1 length fold_left].
      replace (a + 1 <? length pre + 0) with false by (symmetry; apply Nat.ltb_ge; lia). reflexivity.
    - destruct fuel as [|f]; [cbn [length] in Hf; lia|]. cbn [length] in *. cbn [gen_a_poly_evar__loop1 fold_left].
      replace (a + 1 <? length pre + S (length mid)) with true by (symmetry; apply Nat.ltb_lt; lia).
      cbn [app]. rewrite (nth_error_mid' pre v (mid ++ post) (a + 1)) by lia.
      replace (pre ++ v :: mid ++ post) with ((pre ++ [v]) ++ mid ++ post) by (rewrite <- app_assoc; reflexivity).
      replace (length pre + S (length mid)) with (length (pre ++ [v]) + length mid) by (rewrite app_length; cbn [length]; lia).
      apply IH; [rewrite app_length; cbn [length]; lia | lia].
  Qed.

  Theorem tie_a_poly_evar_ : forall pre c post x, c <> [] ->
    gen_a_poly_evar_ O (pre ++ c ++ post) (length pre) (length pre + length c) x = poly_evar O c x.
  Proof.
    intros pre c post x Hc. destruct c as [|h t]; [exfalso; apply Hc; reflexivity|].
    unfold gen_a_poly_evar_, poly_evar. cbn [app length]. rewrite nth_error_mid.
    replace (pre ++ h :: t ++ post) with ((pre ++ [h]) ++ t ++ post) by (rewrite <- app_assoc; reflexivity).
    replace (length pre + S (length t)) with (length (pre ++ [h]) + length t) by (rewrite app_length; cbn [length]; lia).
    apply evar_loop; [rewrite app_length; cbn [length]; lia | rewrite app_length; cbn [length]; lia].
  Qed.
  (* the empty array: the C reads a[0]; both sides stop *)
  Theorem tie_a_poly_evar__empty : forall x, gen_a_poly_evar_ O [] 0 0 x = poly_evar O [] x.
  Proof. reflexivity. Qed.

  (* ---------------------------------------------------------------- a_poly_swap_: two cursors meeting in the middle *)
  Lemma swap_loop_gen : forall fuel pre mid post, length mid < fuel -> 0 < length pre + length mid ->   (* for tie_a_poly_swap_ *)
    gen_a_poly_swap__loop1 O fuel (pre ++ mid ++ post) (length pre + length mid) (length pre) = Some (pre ++ rev mid ++ post).
  Proof.
    induction fuel as [|f IH]; intros pre mid post Hf Hp; [lia|].
    destruct mid as [|x t].
    - destruct pre as [|p0 pre]; [cbn [length] in Hp; lia|]. cbn [length Nat.add gen_a_poly_swap__loop1].
      replace (S (length pre) <? length pre + 0) with false by (symmetry; apply Nat.ltb_ge; lia). reflexivity.
    - destruct t as [|x2 t'] using rev_ind.
      + cbn [length]. replace (length pre + 1) with (S (length pre)) by lia. cbn [gen_a_poly_swap__loop1].
        rewrite Nat.ltb_irrefl. reflexivity.
      + clear IHt'. rename t' into t, x2 into y. cbn [length] in *. rewrite app_length in *. cbn [length] in *.
        replace (length pre + S (length t + 1)) with (S (length pre + S (length t))) by lia.
        cbn [gen_a_poly_swap__loop1].
        replace (length pre <? length pre + S (length t)) with true by (symmetry; apply Nat.ltb_lt; lia).
        cbn [app]. rewrite nth_error_mid.
        replace (pre ++ x :: (t ++ [y]) ++ post) with ((pre ++ x :: t) ++ y :: post) by (rewrite <- !app_assoc; reflexivity).
        rewrite (nth_error_mid' (pre ++ x :: t) y post) by (rewrite app_length; reflexivity).
        replace ((pre ++ x :: t) ++ y :: post) with (pre ++ x :: (t ++ y :: post)) by (rewrite <- !app_assoc; reflexivity).
        unfold upd at 1. rewrite (upd_raw_mid pre x y (t ++ y :: post)) by reflexivity.
        replace (pre ++ y :: t ++ y :: post) with ((pre ++ y :: t) ++ y :: post) by (rewrite <- !app_assoc; reflexivity).
        unfold upd at 1. rewrite (upd_raw_mid (pre ++ y :: t) y x post) by (rewrite app_length; reflexivity).
        replace ((pre ++ y :: t) ++ x :: post) with ((pre ++ [y]) ++ t ++ x :: post) by (rewrite <- !app_assoc; reflexivity).
        replace (length pre + S (length t)) with (length (pre ++ [y]) + length t) by (rewrite app_length; cbn [length]; lia).
        replace (length pre + 1) with (length (pre ++ [y])) by (rewrite app_length; reflexivity).
        rewrite IH by (try (rewrite app_length; cbn [length]); lia).
        cbn [rev]. rewrite rev_app_distr. cbn [rev app]. rewrite <- !app_assoc. reflexivity.
  Qed.

  Theorem tie_a_poly_swap_ : forall pre c post, c <> [] ->
    gen_a_poly_swap_ O (pre ++ c ++ post) (length pre) (length pre + length c) = Some (pre ++ poly_swap c ++ post).
  Proof.
    intros pre c post Hc. unfold gen_a_poly_swap_. rewrite poly_swap_rev.
    apply swap_loop_gen; [lia|]. destruct c; [exfalso; apply Hc; reflexivity|cbn [length]; lia].
  Qed.
  (* the empty range at the start of an array: `--b` leaves the array; the generated program stops (the model has no error value) *)
  Theorem tie_a_poly_swap__empty : forall m, gen_a_poly_swap_ O m 0 0 = None.
  Proof. reflexivity. Qed.

  (* ---------------------------------------------------------------- the public wrappers of a/poly.h, every coefficient count *)
  Theorem tie_a_poly_eval : forall pre c post x, gen_a_poly_eval O (pre ++ c ++ post) (length pre) (length c) x = Some (poly_eval_w O c x).
  Proof.
    intros pre c post x. unfold gen_a_poly_eval, poly_eval_w. destruct c as [|h t]; [reflexivity|].
    remember (h :: t) as c eqn:Ec. assert (Hc : c <> []) by (subst c; discriminate).
    replace (length c =? 0) with false by (subst c; reflexivity).
    rewrite (tie_a_poly_eval_ pre c post x Hc). subst c.
    unfold poly_eval. destruct (rev (h :: t)) eqn:E; [|reflexivity].
    exfalso. apply (f_equal (@length T)) in E. rewrite rev_length in E. discriminate E.
  Qed.
  Theorem tie_a_poly_evar : forall pre c post x, gen_a_poly_evar O (pre ++ c ++ post) (length pre) (length c) x = Some (poly_evar_w O c x).
  Proof.
    intros pre c post x. unfold gen_a_poly_evar, poly_evar_w. destruct c as [|h t]; [reflexivity|].
    remember (h :: t) as c eqn:Ec. assert (Hc : c <> []) by (subst c; discriminate).
    replace (length c =? 0) with false by (subst c; reflexivity).
    rewrite (tie_a_poly_evar_ pre c post x Hc). subst c. reflexivity.
  Qed.
  Theorem tie_a_poly_swap : forall pre c post, gen_a_poly_swap O (pre ++ c ++ post) (length pre) (length c) = Some (pre ++ poly_swap_w c ++ post).
  Proof.
    intros pre c post. unfold gen_a_poly_swap, poly_swap_w. destruct c as [|h [|h2 t]]; [reflexivity|reflexivity|].
    remember (h :: h2 :: t) as c eqn:Ec. assert (Hc : c <> []) by (subst c; discriminate).
    replace (1 <? length c) with true by (subst c; reflexivity).
    apply tie_a_poly_swap_. exact Hc.
  Qed.
End Tie.
