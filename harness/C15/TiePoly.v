(* Tie between the model REGENERATED from src/trajpoly{3,5,7}.c by tools/c2coq.py (module Gen.GenPoly, rewritten on every
   run) and the hand-written model C15/PolyDefs.v about which Properties_C15.v is proved.  For every NumOps instance,
   by conversion.  A change of a coefficient formula, constant or sign in the C breaks one of these. *)
From Coq Require Import ZArith Bool List.
From LibaV Require Import Common.NumOps C15.PolyDefs.
From Gen Require Import GenPoly.
Import ListNotations.

Section Tie.
  Context {T : Type} (O : NumOps T).

  Definition t2 (l : list T) := match l with [a; b] => Some (a, b) | _ => None end.
  Definition t3 (l : list T) := match l with [a; b; c] => Some (a, b, c) | _ => None end.
  Definition t4 (l : list T) := match l with [a; b; c; d] => Some (a, b, c, d) | _ => None end.
  Definition t5 (l : list T) := match l with [a; b; c; d; e] => Some (a, b, c, d, e) | _ => None end.
  Definition t6 (l : list T) := match l with [a; b; c; d; e; f] => Some (a, b, c, d, e, f) | _ => None end.
  Definition t7 (l : list T) := match l with [a; b; c; d; e; f; g] => Some (a, b, c, d, e, f, g) | _ => None end.
  Definition t8 (l : list T) := match l with [a; b; c; d; e; f; g; h] => Some (a, b, c, d, e, f, g, h) | _ => None end.

  (* generators: the old coefficients x_i are inputs of the regenerated function (the struct is passed by pointer) and
     must not influence the result *)
  Theorem tie_a_trajpoly3_gen : forall x0 x1 x2 x3 ts p0 p1 v0 v1,
    Some (gen_a_trajpoly3_gen O x0 x1 x2 x3 ts p0 p1 v0 v1) = t4 (trajpoly3_gen O ts p0 p1 v0 v1).
  Proof. intros. reflexivity. Qed.

  Theorem tie_a_trajpoly5_gen : forall x0 x1 x2 x3 x4 x5 ts p0 p1 v0 v1 a0 a1,
    Some (gen_a_trajpoly5_gen O x0 x1 x2 x3 x4 x5 ts p0 p1 v0 v1 a0 a1) = t6 (trajpoly5_gen O ts p0 p1 v0 v1 a0 a1).
  Proof. intros. reflexivity. Qed.

  Theorem tie_a_trajpoly7_gen : forall x0 x1 x2 x3 x4 x5 x6 x7 ts p0 p1 v0 v1 a0 a1 j0 j1,
    Some (gen_a_trajpoly7_gen O x0 x1 x2 x3 x4 x5 x6 x7 ts p0 p1 v0 v1 a0 a1 j0 j1) = t8 (trajpoly7_gen O ts p0 p1 v0 v1 a0 a1 j0 j1).
  Proof. intros. reflexivity. Qed.

  (* derivative coefficient builders: result = the cells written (the context is passed as pointer to const: inputs only) *)
  Theorem tie_a_trajpoly3_c1 : forall c0 c1 c2 c3,
    Some (gen_a_trajpoly3_c1 O c0 c1 c2 c3) =
    match c1_of O [c0; c1; c2; c3] with [a; b; c] => Some (a, b, c) | _ => None end.
  Proof. intros. reflexivity. Qed.

  Theorem tie_a_trajpoly3_c2 : forall c0 c1 c2 c3,
    Some (gen_a_trajpoly3_c2 O c0 c1 c2 c3) =
    match c2_of O [c0; c1; c2; c3] with [a; b] => Some (a, b) | _ => None end.
  Proof. intros. reflexivity. Qed.

  Theorem tie_a_trajpoly5_c1 : forall c0 c1 c2 c3 c4 c5,
    Some (gen_a_trajpoly5_c1 O c0 c1 c2 c3 c4 c5) =
    match c1_of O [c0; c1; c2; c3; c4; c5] with [a; b; c; d; e] => Some (a, b, c, d, e) | _ => None end.
  Proof. intros. reflexivity. Qed.

  Theorem tie_a_trajpoly5_c2 : forall c0 c1 c2 c3 c4 c5,
    Some (gen_a_trajpoly5_c2 O c0 c1 c2 c3 c4 c5) =
    match c2_of O [c0; c1; c2; c3; c4; c5] with [a; b; c; d] => Some (a, b, c, d) | _ => None end.
  Proof. intros. reflexivity. Qed.

  Theorem tie_a_trajpoly7_c1 : forall c0 c1 c2 c3 c4 c5 c6 c7,
    Some (gen_a_trajpoly7_c1 O c0 c1 c2 c3 c4 c5 c6 c7) =
    match c1_of O [c0; c1; c2; c3; c4; c5; c6; c7] with [a; b; c; d; e; f; g] => Some (a, b, c, d, e, f, g) | _ => None end.
  Proof. intros. reflexivity. Qed.

  Theorem tie_a_trajpoly7_c2 : forall c0 c1 c2 c3 c4 c5 c6 c7,
    Some (gen_a_trajpoly7_c2 O c0 c1 c2 c3 c4 c5 c6 c7) =
    match c2_of O [c0; c1; c2; c3; c4; c5; c6; c7] with [a; b; c; d; e; f] => Some (a, b, c, d, e, f) | _ => None end.
  Proof. intros. reflexivity. Qed.

  Theorem tie_a_trajpoly7_c3 : forall c0 c1 c2 c3 c4 c5 c6 c7,
    Some (gen_a_trajpoly7_c3 O c0 c1 c2 c3 c4 c5 c6 c7) =
    match c3_of O [c0; c1; c2; c3; c4; c5; c6; c7] with [a; b; c; d; e] => Some (a, b, c, d, e) | _ => None end.
  Proof. intros. reflexivity. Qed.

End Tie.
