(* Tie between the UNROLLED translation of the polynomial helpers (src/poly.c cores inlined into the public wrappers of
   include/a/poly.h; module Gen.GenPolyN, regenerated on every run by tools/c2coq.py with the coefficient count fixed and the
   array exactly sized) and the wrapper model of C15/PolyDefs.v: for every count 0..6, ALL coefficients and arguments, and
   every NumOps instance. *)
From Coq Require Import ZArith List.
From LibaV Require Import Common.NumOps C15.PolyDefs.
From Gen Require Import GenPolyN.
Import ListNotations.

Section Tie.
  Context {T : Type} (O : NumOps T).

  Theorem tie_a_poly_eval_n0 : forall x, 
    poly_eval_w O [] x = gen_a_poly_eval_n0 O  x.
  Proof. intros. cbv. reflexivity. Qed.

  Theorem tie_a_poly_evar_n0 : forall x, 
    poly_evar_w O [] x = gen_a_poly_evar_n0 O  x.
  Proof. intros. cbv. reflexivity. Qed.

  Theorem tie_a_poly_swap_n0 : @poly_swap_w T [] = [].
  Proof. cbv. reflexivity. Qed.

  Theorem tie_a_poly_eval_n1 : forall a0 x, 
    poly_eval_w O [a0] x = gen_a_poly_eval_n1 O a0 x.
  Proof. intros. cbv. reflexivity. Qed.

  Theorem tie_a_poly_evar_n1 : forall a0 x, 
    poly_evar_w O [a0] x = gen_a_poly_evar_n1 O a0 x.
  Proof. intros. cbv. reflexivity. Qed.

  Theorem tie_a_poly_swap_n1 : forall a0,
    poly_swap_w [a0] = (let o0 := gen_a_poly_swap_n1 O a0 in [o0]).
  Proof. intros. cbv. reflexivity. Qed.

  Theorem tie_a_poly_eval_n2 : forall a0 a1 x, 
    poly_eval_w O [a0; a1] x = gen_a_poly_eval_n2 O a0 a1 x.
  Proof. intros. cbv. reflexivity. Qed.

  Theorem tie_a_poly_evar_n2 : forall a0 a1 x, 
    poly_evar_w O [a0; a1] x = gen_a_poly_evar_n2 O a0 a1 x.
  Proof. intros. cbv. reflexivity. Qed.

  Theorem tie_a_poly_swap_n2 : forall a0 a1,
    poly_swap_w [a0; a1] = (let '(o0, o1) := gen_a_poly_swap_n2 O a0 a1 in [o0; o1]).
  Proof. intros. cbv. reflexivity. Qed.

  Theorem tie_a_poly_eval_n3 : forall a0 a1 a2 x, 
    poly_eval_w O [a0; a1; a2] x = gen_a_poly_eval_n3 O a0 a1 a2 x.
  Proof. intros. cbv. reflexivity. Qed.

  Theorem tie_a_poly_evar_n3 : forall a0 a1 a2 x, 
    poly_evar_w O [a0; a1; a2] x = gen_a_poly_evar_n3 O a0 a1 a2 x.
  Proof. intros. cbv. reflexivity. Qed.

  Theorem tie_a_poly_swap_n3 : forall a0 a1 a2,
    poly_swap_w [a0; a1; a2] = (let '(o0, o1, o2) := gen_a_poly_swap_n3 O a0 a1 a2 in [o0; o1; o2]).
  Proof. intros. cbv. reflexivity. Qed.

  Theorem tie_a_poly_eval_n4 : forall a0 a1 a2 a3 x, 
    poly_eval_w O [a0; a1; a2; a3] x = gen_a_poly_eval_n4 O a0 a1 a2 a3 x.
  Proof. intros. cbv. reflexivity. Qed.

  Theorem tie_a_poly_evar_n4 : forall a0 a1 a2 a3 x, 
    poly_evar_w O [a0; a1; a2; a3] x = gen_a_poly_evar_n4 O a0 a1 a2 a3 x.
  Proof. intros. cbv. reflexivity. Qed.

  Theorem tie_a_poly_swap_n4 : forall a0 a1 a2 a3,
    poly_swap_w [a0; a1; a2; a3] = (let '(o0, o1, o2, o3) := gen_a_poly_swap_n4 O a0 a1 a2 a3 in [o0; o1; o2; o3]).
  Proof. intros. cbv. reflexivity. Qed.

  Theorem tie_a_poly_eval_n5 : forall a0 a1 a2 a3 a4 x, 
    poly_eval_w O [a0; a1; a2; a3; a4] x = gen_a_poly_eval_n5 O a0 a1 a2 a3 a4 x.
  Proof. intros. cbv. reflexivity. Qed.

  Theorem tie_a_poly_evar_n5 : forall a0 a1 a2 a3 a4 x, 
    poly_evar_w O [a0; a1; a2; a3; a4] x = gen_a_poly_evar_n5 O a0 a1 a2 a3 a4 x.
  Proof. intros. cbv. reflexivity. Qed.

  Theorem tie_a_poly_swap_n5 : forall a0 a1 a2 a3 a4,
    poly_swap_w [a0; a1; a2; a3; a4] = (let '(o0, o1, o2, o3, o4) := gen_a_poly_swap_n5 O a0 a1 a2 a3 a4 in [o0; o1; o2; o3; o4]).
  Proof. intros. cbv. reflexivity. Qed.

  Theorem tie_a_poly_eval_n6 : forall a0 a1 a2 a3 a4 a5 x, 
    poly_eval_w O [a0; a1; a2; a3; a4; a5] x = gen_a_poly_eval_n6 O a0 a1 a2 a3 a4 a5 x.
  Proof. intros. cbv. reflexivity. Qed.

  Theorem tie_a_poly_evar_n6 : forall a0 a1 a2 a3 a4 a5 x, 
    poly_evar_w O [a0; a1; a2; a3; a4; a5] x = gen_a_poly_evar_n6 O a0 a1 a2 a3 a4 a5 x.
  Proof. intros. cbv. reflexivity. Qed.

  Theorem tie_a_poly_swap_n6 : forall a0 a1 a2 a3 a4 a5,
    poly_swap_w [a0; a1; a2; a3; a4; a5] = (let '(o0, o1, o2, o3, o4, o5) := gen_a_poly_swap_n6 O a0 a1 a2 a3 a4 a5 in [o0; o1; o2; o3; o4; o5]).
  Proof. intros. cbv. reflexivity. Qed.
End Tie.
