/* C15 harness: polynomial trajectories and poly.c; doubles as bit patterns (see common/fharness.h). */
#include "a/trajpoly3.h"
#include "a/trajpoly5.h"
#include "a/trajpoly7.h"
#include "a/poly.h"
#include "common/fharness.h"

int main(void)
{
    char line[16384];
    while (fgets(line, sizeof(line), stdin))
    {
        int i;
        if (!f_read(line)) { continue; }
        double *a = f_arg;
        if (!strcmp(f_fn, "gen3"))
        {
            a_trajpoly3 t; for (i = 0; i < 4; ++i) { t.c[i] = 777; } /* a context that was in use before */ a_trajpoly3_gen(&t, a[0], a[1], a[2], a[3], a[4]);
            for (i = 0; i < 4; ++i) { put(t.c[i]); }
        }
        else if (!strcmp(f_fn, "gen5"))
        {
            a_trajpoly5 t; for (i = 0; i < 6; ++i) { t.c[i] = 777; } a_trajpoly5_gen(&t, a[0], a[1], a[2], a[3], a[4], a[5], a[6]);
            for (i = 0; i < 6; ++i) { put(t.c[i]); }
        }
        else if (!strcmp(f_fn, "gen7"))
        {
            a_trajpoly7 t; for (i = 0; i < 8; ++i) { t.c[i] = 777; } a_trajpoly7_gen(&t, a[0], a[1], a[2], a[3], a[4], a[5], a[6], a[7], a[8]);
            for (i = 0; i < 8; ++i) { put(t.c[i]); }
        }
        else if (!strcmp(f_fn, "ev3"))
        {
            a_trajpoly3 t; double c1[3], c2[2], c0[4], x = a[4];
            for (i = 0; i < 4; ++i) { t.c[i] = a[i]; }
            put(a_trajpoly3_pos(&t, x)); put(a_trajpoly3_vel(&t, x)); put(a_trajpoly3_acc(&t, x));
            a_trajpoly3_c1(&t, c1); a_trajpoly3_c2(&t, c2); a_trajpoly3_c0(&t, c0);
            for (i = 0; i < 3; ++i) { put(c1[i]); }
            for (i = 0; i < 2; ++i) { put(c2[i]); }
            for (i = 0; i < 4; ++i) { put(c0[i]); }
        }
        else if (!strcmp(f_fn, "ev5"))
        {
            a_trajpoly5 t; double c1[5], c2[4], c0[6], x = a[6];
            for (i = 0; i < 6; ++i) { t.c[i] = a[i]; }
            put(a_trajpoly5_pos(&t, x)); put(a_trajpoly5_vel(&t, x)); put(a_trajpoly5_acc(&t, x));
            a_trajpoly5_c1(&t, c1); a_trajpoly5_c2(&t, c2); a_trajpoly5_c0(&t, c0);
            for (i = 0; i < 5; ++i) { put(c1[i]); }
            for (i = 0; i < 4; ++i) { put(c2[i]); }
            for (i = 0; i < 6; ++i) { put(c0[i]); }
        }
        else if (!strcmp(f_fn, "ev7"))
        {
            a_trajpoly7 t; double c1[7], c2[6], c3[5], c0[8], x = a[8];
            for (i = 0; i < 8; ++i) { t.c[i] = a[i]; }
            put(a_trajpoly7_pos(&t, x)); put(a_trajpoly7_vel(&t, x)); put(a_trajpoly7_acc(&t, x)); put(a_trajpoly7_jer(&t, x));
            a_trajpoly7_c1(&t, c1); a_trajpoly7_c2(&t, c2); a_trajpoly7_c3(&t, c3); a_trajpoly7_c0(&t, c0);
            for (i = 0; i < 7; ++i) { put(c1[i]); }
            for (i = 0; i < 6; ++i) { put(c2[i]); }
            for (i = 0; i < 5; ++i) { put(c3[i]); }
            for (i = 0; i < 8; ++i) { put(c0[i]); }
        }
        else if (!strcmp(f_fn, "peval") || !strcmp(f_fn, "pevar"))
        { /* args: c[0..n-1] x ; guard cells around the coefficient array */
            int n = f_n - 1;
            double *blk = (double *)malloc(sizeof(double) * (size_t)(n + 2)), *buf = blk + 1;
            blk[0] = 12345; blk[n + 1] = 54321; /* cells that are not coefficients: a read outside the range shows in the value */
            for (i = 0; i < n; ++i) { buf[i] = a[i]; }
            put(f_fn[4] == 'l' ? a_poly_eval_(buf, buf + n, a[n]) : a_poly_evar_(buf, buf + n, a[n]));
            free(blk);
        }
        else if (!strcmp(f_fn, "pevalw") || !strcmp(f_fn, "pevarw"))
        { /* the public wrappers, n may be 0 */
            int n = f_n - 1;
            double *blk = (double *)malloc(sizeof(double) * (size_t)(n + 2)), *buf = blk + 1;
            blk[0] = 12345; blk[n + 1] = 54321;
            for (i = 0; i < n; ++i) { buf[i] = a[i]; }
            put(f_fn[4] == 'l' ? a_poly_eval(buf, (a_size)n, a[n]) : a_poly_evar(buf, (a_size)n, a[n]));
            free(blk);
        }
        else if (!strcmp(f_fn, "pswapw"))
        {
            int n = f_n;
            double *buf = (double *)malloc(sizeof(double) * (size_t)(n > 0 ? n : 1));
            for (i = 0; i < n; ++i) { buf[i] = a[i]; }
            a_poly_swap(buf, (a_size)n);
            for (i = 0; i < n; ++i) { put(buf[i]); }
            free(buf);
        }
        else if (!strcmp(f_fn, "pswap"))
        {
            int n = f_n;
            double *buf = (double *)malloc(sizeof(double) * (size_t)(n > 0 ? n : 1));
            for (i = 0; i < n; ++i) { buf[i] = a[i]; }
            a_poly_swap_(buf, buf + n);
            for (i = 0; i < n; ++i) { put(buf[i]); }
            free(buf);
        }
        printf("\n");
    }
    return 0;
}
