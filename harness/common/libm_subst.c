/* Substitutes for libm entry points, linked with -Wl,--wrap=<fn> in the bit-exact numeric harnesses.
   They are the C twins of sub1/sub2 in coq/Common/FloatOps.v: arbitrary fixed functions made of IEEE basic
   operations, so that the code AROUND a libm call can be compared bit for bit with the Gallina model.
   Compile with -O2 -ffp-contract=off -fno-builtin (no FMA, no constant folding through libm). */
static double sub1(double k, double x) { return (x * k + 0x1.8p-1) / (x * x + 0x1.4p+0) + k; }
static double sub2(double k, double x, double y) { return (x * k + y) / (x * x + y * y + 0x1.4p+0) + k * y; }
double __wrap_exp(double x) { return sub1(0x1.1p+0, x); }
double __wrap_log(double x) { return sub1(0x1.2p+0, x); }
double __wrap_sin(double x) { return sub1(0x1.3p+0, x); }
double __wrap_cos(double x) { return sub1(0x1.4p+0, x); }
double __wrap_tan(double x) { return sub1(0x1.5p+0, x); }
double __wrap_atan(double x) { return sub1(0x1.6p+0, x); }
double __wrap_asin(double x) { return sub1(0x1.7p+0, x); }
double __wrap_acos(double x) { return sub1(0x1.8p+0, x); }
double __wrap_sinh(double x) { return sub1(0x1.9p+0, x); }
double __wrap_cosh(double x) { return sub1(0x1.ap+0, x); }
double __wrap_tanh(double x) { return sub1(0x1.bp+0, x); }
double __wrap_expm1(double x) { return sub1(0x1.cp+0, x); }
double __wrap_log1p(double x) { return sub1(0x1.dp+0, x); }
double __wrap_floor(double x) { return sub1(0x1.ep+0, x); }
double __wrap_pow(double x, double y) { return sub2(0x1.1p+1, x, y); }
double __wrap_atan2(double x, double y) { return sub2(0x1.2p+1, x, y); }
double __wrap_hypot(double x, double y) { return sub2(0x1.3p+1, x, y); }
double __wrap_fmod(double x, double y) { return sub2(0x1.4p+1, x, y); }
