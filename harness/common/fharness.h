/* Helpers shared by the numeric correspondence harnesses: doubles travel as 16 hex digits of their bit pattern. */
#ifndef VERIF_FHARNESS_H
#define VERIF_FHARNESS_H
#include <stdio.h>
#include <stdlib.h>
#include <string.h>
#include <stdint.h>

static double f_of_bits(uint64_t u) { double d; memcpy(&d, &u, 8); return d; }
static uint64_t bits_of_f(double d) { uint64_t u; memcpy(&u, &d, 8); return u; }
static void put(double d)
{
    if (d != d) { printf(" nan"); }
    else { printf(" %016llx", (unsigned long long)bits_of_f(d)); }
}
/* tokenises one input line into fn and up to 512 numeric args (hex bit patterns) */
static char *f_fn;
static double f_arg[512];
static uint64_t f_raw[512];
static int f_n;
static int f_read(char *line)
{
    char *t;
    f_fn = strtok(line, " \n");
    f_n = 0;
    if (!f_fn) { return 0; }
    while ((t = strtok(0, " \n")) && f_n < 512)
    {
        f_raw[f_n] = strtoull(t, 0, 16);
        f_arg[f_n] = f_of_bits(f_raw[f_n]);
        ++f_n;
    }
    return 1;
}
#endif
