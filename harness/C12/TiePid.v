(* Tie between the model REGENERATED from src/pid.c / src/pid_neuro.c by tools/c2coq.py (module Gen.GenPid, rewritten on
   every run) and the hand-written model C12/PidDefs.v about which the theorems of Properties_C12.v are proved.
   Each statement is for EVERY NumOps instance (reals and binary64 alike) and is closed by conversion: the regenerated
   term and the model are the same computation.  A change of src/pid.c that alters a formula breaks one of these. *)
From Coq Require Import ZArith Bool.
From LibaV Require Import Common.NumOps C12.PidDefs.
From Gen Require Import GenPid.

Section Tie.
  Context {T : Type} (O : NumOps T).

  Definition mk (kp ki kd summax summin sum outmax outmin out var fdb err : T) : pid (T := T) :=
    {| kp := kp; ki := ki; kd := kd; summax := summax; summin := summin; sum := sum;
       outmax := outmax; outmin := outmin; out := out; var := var; fdb := fdb; err := err |}.
  Definition tup (s : pid (T := T)) :=
    (kp s, ki s, kd s, summax s, summin s, sum s, outmax s, outmin s, out s, var s, fdb s, err s).

  Theorem tie_a_pid_run_ : forall kp ki kd smax smin sum omax omin out var fdb err set f e,
    gen_a_pid_run_ O kp ki kd smax smin sum omax omin out var fdb err set f e =
    let s' := pid_run_ O (mk kp ki kd smax smin sum omax omin out var fdb err) set f e in (tup s', PidDefs.out s').
  Proof. intros. reflexivity. Qed.

  Theorem tie_a_pid_pos_ : forall kp ki kd smax smin sum omax omin out var fdb err f e,
    gen_a_pid_pos_ O kp ki kd smax smin sum omax omin out var fdb err f e =
    let s' := pid_pos_ O (mk kp ki kd smax smin sum omax omin out var fdb err) f e in (tup s', PidDefs.out s').
  Proof. intros. reflexivity. Qed.

  Theorem tie_a_pid_inc_ : forall kp ki kd smax smin sum omax omin out var fdb err f e,
    gen_a_pid_inc_ O kp ki kd smax smin sum omax omin out var fdb err f e =
    let s' := pid_inc_ O (mk kp ki kd smax smin sum omax omin out var fdb err) f e in (tup s', PidDefs.out s').
  Proof. intros. reflexivity. Qed.

  Theorem tie_a_pid_zero : forall kp ki kd smax smin sum omax omin out var fdb err,
    gen_a_pid_zero O kp ki kd smax smin sum omax omin out var fdb err =
    tup (pid_zero O (mk kp ki kd smax smin sum omax omin out var fdb err)).
  Proof. intros. reflexivity. Qed.
End Tie.

Section TieNeuro.
  Context {T : Type} (O : NumOps T).

  Theorem tie_a_pid_neuro_inc_ : forall kp ki kd smax smin sum omax omin out var fdb err k wp wi wd ec f e ec',
    gen_a_pid_neuro_inc_ O kp ki kd smax smin sum omax omin out var fdb err k wp wi wd ec f e ec' =
    let n' := neuro_inc_ O {| npid := mk kp ki kd smax smin sum omax omin out var fdb err;
                              nk := k; wp := wp; wi := wi; wd := wd; nec := ec |} f e ec' in
    (tup (npid n'), nk n', PidDefs.wp n', PidDefs.wi n', PidDefs.wd n', nec n', PidDefs.out (npid n')).
  Proof. intros. reflexivity. Qed.
End TieNeuro.
