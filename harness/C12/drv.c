/* C12 harness: a_pid_* and a_pid_neuro_* step by step on bit-pattern inputs. */
#include "a/pid.h"
#include "a/pid_neuro.h"
#include "common/fharness.h"

int main(void)
{
    static char line[1 << 16];
    while (fgets(line, sizeof(line), stdin))
    {
        int i;
        if (!f_read(line)) { continue; }
        double *a = f_arg;
        if (!strcmp(f_fn, "pid"))
        { /* kp ki kd summax summin outmax outmin  then triples: mode set fdb; a mode of 9 means a_pid_zero first */
            a_pid c;
            memset(&c, 0, sizeof(c));
            c.summax = a[3]; c.summin = a[4]; c.outmax = a[5]; c.outmin = a[6];
            a_pid_init(&c);
            a_pid_set_kpid(&c, a[0], a[1], a[2]);
            for (i = 7; i + 2 < f_n; i += 3)
            {
                int m = (int)f_raw[i];
                if (m >= 8) { a_pid_zero(&c); m -= 8; }
                if (m == 0) { a_pid_run(&c, a[i + 1], a[i + 2]); }
                else if (m == 1) { a_pid_pos(&c, a[i + 1], a[i + 2]); }
                else { a_pid_inc(&c, a[i + 1], a[i + 2]); }
                put(c.out); put(c.sum); put(c.var); put(c.fdb); put(c.err);
            }
        }
        else if (!strcmp(f_fn, "neuro"))
        { /* k kp ki kd wp wi wd outmax outmin then triples: mode set fdb */
            a_pid_neuro c;
            memset(&c, 0, sizeof(c));
            c.pid.summax = 0; c.pid.summin = 0; c.pid.outmax = a[7]; c.pid.outmin = a[8];
            a_pid_neuro_init(&c);
            a_pid_neuro_set_kpid(&c, a[0], a[1], a[2], a[3]);
            a_pid_neuro_set_wpid(&c, a[4], a[5], a[6]);
            for (i = 9; i + 2 < f_n; i += 3)
            {
                int m = (int)f_raw[i];
                if (m >= 8) { a_pid_neuro_zero(&c); m -= 8; }
                if (m == 0) { a_pid_neuro_run(&c, a[i + 1], a[i + 2]); }
                else { a_pid_neuro_inc(&c, a[i + 1], a[i + 2]); }
                put(c.pid.out); put(c.wp); put(c.wi); put(c.wd); put(c.ec); put(c.pid.var); put(c.pid.fdb); put(c.pid.err);
            }
        }
        printf("\n");
    }
    return 0;
}
