(* All-lengths translator tie of C13 / C12, part 2: a_pid_fuzzy_out_, a_pid_fuzzy_opr / set_opr and a_pid_fuzzy_zero of
   src/pid_fuzzy.c (with a_pid_set_kpid and a_pid_zero of src/pid.c, which they call).  Module Gen.GenLoop is regenerated on
   every run by tools/c2arr.py from the CURRENT sources: the members of `a_pid_fuzzy *ctx` the code reads are parameters (pointer
   members: an array and an offset; the three rule bases, which the code tests against NULL, also a flag `.._null`; the operator
   member `opr` a function T -> T -> T), the members it writes (ctx->pid.kp/ki/kd) and the two scratch arrays are results; the
   eight loops are Fixpoints on fuel with `++i` and `ctx->idx[i] *= ctx->nrule` checked to fit 32 bits; the three `goto exit`
   continue with the statements from the label on; the two walks are calls of the regenerated a_pid_fuzzy_mf.
   For EVERY NumOps instance, EVERY rule-base order with nrule * nrule < 2^32 (the scaled row index is an unsigned int), every
   membership table, every rule base present or NULL and of any length, every scratch block (too small: both sides stop), every
   operator and all values:
     tie_a_pid_fuzzy_out_   generated = (idx block, val block, pid.kp, pid.ki, pid.kd) of the hand model fuzzy_out_ of
                            C13/FuzzyDefs.v (table walks, joint membership with its sum, the guard `!(inv > 0)`, the three weighted
                            means, gains = base + mean), errors (a read or write outside a block, a table or a rule base) on the same runs;
     tie_a_pid_fuzzy_opr / set_opr   the switch on the enumeration = fuzzy_opr;   tie_a_pid_fuzzy_zero = fuzzy_zero.
   The bound the overflow check needs (the cells idx[0..ne) hold set numbers below nrule when the rows are scaled) is proved about
   the model's walker in C13/LoopTieLemmas.v (walk_frame, walk_count), not assumed. *)
From Coq Require Import ZArith NArith List Bool Arith Lia.
From LibaV Require Import Common.NumOps C11.LoopTieLemmas C12.PidDefs C13.MfDefs C13.FuzzyDefs C13.LoopTieLemmas.
From Gen Require Import GenLoop TieLoop1.
Import ListNotations.

Section Out.
  Context {T : Type} (O : NumOps T).

  (* ---------------------------------------------------------------- joint membership: one row, then all rows *)
  Lemma joint_row_loop (f : T -> T -> T) (ne i nec mat : nat) (idx : list nat) (Hnec : in32 nec) :   (* for tie_a_pid_fuzzy_out_ *)
    forall r fuel ii val inv it, ii + r = nec -> r < fuel ->
      gen_a_pid_fuzzy_out__loop2 O fuel nec i ne f 0 val ii inv (mat + it) =
      match joint_row O f ne i nec ii mat ({| sidx := idx; sval := val |}, inv, it) r with
      | Ok (c', inv', it') => Some (sval c', nec, inv', mat + it')
      | Fail _ => None
      end.
  Proof.
    induction r as [|r IH]; intros fuel ii val inv it Hi Hf; (destruct fuel as [|fu]; [lia|]);
      cbn [gen_a_pid_fuzzy_out__loop2 joint_row Nat.add].
    - replace (ii =? nec) with true by (symmetry; apply Nat.eqb_eq; lia). replace ii with nec by lia. reflexivity.
    - replace (ii =? nec) with false by (symmetry; apply Nat.eqb_neq; lia).
      unfold FuzzyDefs.bind, rd_val, wr_val, of_opt, option_map, rd. cbn [sidx sval].
      destruct (nth_error val i) as [a|]; [|reflexivity].
      destruct (nth_error val (ne + ii)) as [b|]; [|reflexivity].
      rewrite upd_eq. destruct (FuzzyDefs.upd (mat + it) (f a b) val) as [val1|]; [|reflexivity].
      rewrite fits32 by (apply in32_le with nec; [lia|exact Hnec]).
      rewrite !Nat.add_1_r. replace (S (mat + it)) with (mat + S it) by lia. apply IH; lia.
  Qed.

  Lemma joint_rows_loop (f : T -> T -> T) (nr ne nec mat : nat) (Hne : in32 ne) (Hnec : in32 nec) (Hnr : in32 (nr * nr)) :   (* for tie_a_pid_fuzzy_out_ *)
    forall r fuel i idx val inv it, i + r = ne -> r < fuel ->
      (forall j v, i <= j < ne -> nth_error idx j = Some v -> v < nr) ->
      gen_a_pid_fuzzy_out__loop1 O fuel ne nec ne f 0 0 nr idx val i inv (mat + it) =
      match joint_rows O f nr ne nec i mat ({| sidx := idx; sval := val |}, inv, it) r with
      | Ok (c', inv', _) => Some (sidx c', sval c', inv')
      | Fail _ => None
      end.
  Proof.
    induction r as [|r IH]; intros fuel i idx val inv it Hi Hf Hb; (destruct fuel as [|fu]; [lia|]);
      cbn [gen_a_pid_fuzzy_out__loop1 joint_rows Nat.add].
    - replace (i =? ne) with true by (symmetry; apply Nat.eqb_eq; lia). reflexivity.
    - replace (i =? ne) with false by (symmetry; apply Nat.eqb_neq; lia).
      rewrite (joint_row_loop f ne i nec mat idx Hnec nec (S nec) 0 val inv it) by lia.
      unfold FuzzyDefs.bind at 1.
      destruct (joint_row O f ne i nec 0 mat ({| sidx := idx; sval := val |}, inv, it) nec) as [[[c1 inv1] it1]|] eqn:Er; [|reflexivity].
      pose proof (joint_row_sidx O f ne i nec mat _ _ _ _ _ _ _ _ Er) as Hs. cbn [sidx] in Hs.
      destruct c1 as [idx1 val1]. cbn [sidx sval] in *. subst idx1.
      unfold FuzzyDefs.bind, rd_idx, wr_idx, of_opt, option_map, rd. cbn [sidx sval].
      destruct (nth_error idx i) as [v|] eqn:Ev; [|reflexivity].
      assert (Hv : v < nr) by (apply (Hb i v); [lia|exact Ev]).
      rewrite fits32 by (apply in32_le with (nr * nr); [apply Nat.mul_le_mono_r; lia|exact Hnr]).
      rewrite upd_eq. destruct (FuzzyDefs.upd i (v * nr) idx) as [idx2|] eqn:Eu; [|reflexivity].
      rewrite fits32 by (apply in32_le with ne; [lia|exact Hne]).
      rewrite Nat.add_1_r. apply IH; [lia|lia|].
      intros j w Hj Hw. apply (Hb j w); [lia|]. rewrite <- Hw. symmetry. apply (upd_nth_other _ _ _ _ j Eu). lia.
  Qed.

  (* ---------------------------------------------------------------- mean-of-centres defuzzifier: the same two loops for mkp, mki, mkd *)
  Ltac drow_proof loop :=
    let r := fresh "r" in let IH := fresh "IH" in
    intros r; induction r as [|r IH]; intros fuel ii k it Hi Hf; (destruct fuel as [|fu]; [lia|]);
      cbn [loop defuzz_row Nat.add];
    [ replace (ii =? _) with true by (symmetry; apply Nat.eqb_eq; lia); f_equal; f_equal; f_equal; lia
    | replace (ii =? _) with false by (symmetry; apply Nat.eqb_neq; lia);
      unfold FuzzyDefs.bind, rd_val, rd_idx, of_opt, rd; cbn [sidx sval];
      match goal with |- context [nth_error ?l (?m + it)] => destruct (nth_error l (m + it)); [|reflexivity] end;
      match goal with |- context [nth_error ?l (?m + ii)] => destruct (nth_error l (m + ii)); [|reflexivity] end;
      match goal with |- match nth_error ?l ?j with _ => _ end = _ => destruct (nth_error l j); [|reflexivity] end;
      rewrite fits32 by (match goal with H : in32 ?b |- _ => apply in32_le with b; [lia|exact H] end);
      rewrite !Nat.add_1_r; match goal with |- context [S (?m + it)] => replace (S (m + it)) with (m + S it) by lia end;
      apply IH; lia ].

  Lemma drow_kp (m : list T) (idx : list nat) (val : list T) (ne nec mat row : nat) (Hnec : in32 nec) :   (* for tie_a_pid_fuzzy_out_ *)
    forall r fuel ii k it, ii + r = nec -> r < fuel ->
      gen_a_pid_fuzzy_out__loop4 O fuel nec row ne idx val m ii k (mat + it) =
      match defuzz_row O m {| sidx := idx; sval := val |} ne nec ii mat row (k, it) r with
      | Ok (k', it') => Some (nec, k', mat + it') | Fail _ => None end.
  Proof. drow_proof (@gen_a_pid_fuzzy_out__loop4). Qed.
  Lemma drow_ki (m : list T) (idx : list nat) (val : list T) (ne nec mat row : nat) (Hnec : in32 nec) :   (* for tie_a_pid_fuzzy_out_ *)
    forall r fuel ii k it, ii + r = nec -> r < fuel ->
      gen_a_pid_fuzzy_out__loop6 O fuel nec row ne idx val m ii k (mat + it) =
      match defuzz_row O m {| sidx := idx; sval := val |} ne nec ii mat row (k, it) r with
      | Ok (k', it') => Some (nec, k', mat + it') | Fail _ => None end.
  Proof. drow_proof (@gen_a_pid_fuzzy_out__loop6). Qed.
  Lemma drow_kd (m : list T) (idx : list nat) (val : list T) (ne nec mat row : nat) (Hnec : in32 nec) :   (* for tie_a_pid_fuzzy_out_ *)
    forall r fuel ii k it, ii + r = nec -> r < fuel ->
      gen_a_pid_fuzzy_out__loop8 O fuel nec row ne idx val m ii k (mat + it) =
      match defuzz_row O m {| sidx := idx; sval := val |} ne nec ii mat row (k, it) r with
      | Ok (k', it') => Some (nec, k', mat + it') | Fail _ => None end.
  Proof. drow_proof (@gen_a_pid_fuzzy_out__loop8). Qed.

  Ltac drows_proof loop inner rowlemma :=
    let r := fresh "r" in let IH := fresh "IH" in
    intros r; induction r as [|r IH]; intros fuel i k it Hi Hf; (destruct fuel as [|fu]; [lia|]);
      cbn [loop defuzz_rows Nat.add];
    [ replace (i =? _) with true by (symmetry; apply Nat.eqb_eq; lia); reflexivity
    | replace (i =? _) with false by (symmetry; apply Nat.eqb_neq; lia);
      unfold FuzzyDefs.bind at 1; unfold rd_idx, of_opt, rd; cbn [sidx sval];
      match goal with |- context [nth_error ?l i] => destruct (nth_error l i) as [row|]; [|reflexivity] end;
      match goal with |- context [inner O (S ?nec') ?nec' ?row' ?ne' ?idx' ?val' ?m' 0 ?k' (?mat' + ?it')] =>
        rewrite (rowlemma m' idx' val' ne' nec' mat' row' ltac:(assumption) nec' (S nec') 0 k' it') by lia end;
      unfold FuzzyDefs.bind at 1;
      match goal with |- context [defuzz_row ?a ?b ?c ?d ?e ?f ?g ?h ?st ?fu] =>
        destruct (defuzz_row a b c d e f g h st fu) as [[k1 it1]|]; [|reflexivity] end;
      rewrite fits32 by (match goal with H : in32 ?b |- _ => apply in32_le with b; [lia|exact H] end);
      rewrite Nat.add_1_r; apply IH; lia ].

  Lemma drows_kp (m : list T) (idx : list nat) (val : list T) (ne nec mat : nat) (Hne : in32 ne) (Hnec : in32 nec) :   (* for tie_a_pid_fuzzy_out_ *)
    forall r fuel i k it, i + r = ne -> r < fuel ->
      gen_a_pid_fuzzy_out__loop3 O fuel ne nec ne 0 0 idx val m i k (mat + it) =
      match defuzz_rows O m {| sidx := idx; sval := val |} ne nec i mat (k, it) r with Ok (k', _) => Some k' | Fail _ => None end.
  Proof. drows_proof (@gen_a_pid_fuzzy_out__loop3) (@gen_a_pid_fuzzy_out__loop4 T) drow_kp. Qed.
  Lemma drows_ki (m : list T) (idx : list nat) (val : list T) (ne nec mat : nat) (Hne : in32 ne) (Hnec : in32 nec) :   (* for tie_a_pid_fuzzy_out_ *)
    forall r fuel i k it, i + r = ne -> r < fuel ->
      gen_a_pid_fuzzy_out__loop5 O fuel ne nec ne 0 0 idx val m i k (mat + it) =
      match defuzz_rows O m {| sidx := idx; sval := val |} ne nec i mat (k, it) r with Ok (k', _) => Some k' | Fail _ => None end.
  Proof. drows_proof (@gen_a_pid_fuzzy_out__loop5) (@gen_a_pid_fuzzy_out__loop6 T) drow_ki. Qed.
  Lemma drows_kd (m : list T) (idx : list nat) (val : list T) (ne nec mat : nat) (Hne : in32 ne) (Hnec : in32 nec) :   (* for tie_a_pid_fuzzy_out_ *)
    forall r fuel i k it, i + r = ne -> r < fuel ->
      gen_a_pid_fuzzy_out__loop7 O fuel ne nec ne 0 0 idx val m i k (mat + it) =
      match defuzz_rows O m {| sidx := idx; sval := val |} ne nec i mat (k, it) r with Ok (k', _) => Some k' | Fail _ => None end.
  Proof. drows_proof (@gen_a_pid_fuzzy_out__loop7) (@gen_a_pid_fuzzy_out__loop8 T) drow_kd. Qed.

  (* ---------------------------------------------------------------- a_pid_fuzzy_out_ *)
  Definition olist {A} (m : option (list A)) : list A := match m with Some l => l | None => [] end.
  Definition onull {A} (m : option A) : bool := match m with None => true | Some _ => false end.
  Definition out5 (r : res (fuzzy (T := T))) : option (list nat * list T * T * T * T) :=
    match r with
    | Ok s' => Some (sidx (sc s'), sval (sc s'), kp (fpid s'), ki (fpid s'), kd (fpid s'))
    | Fail _ => None
    end.

  Definition ores {A} (r : res A) : option A := match r with Ok a => Some a | Fail _ => None end.

  Ltac gain_proof rows :=
    intros m idx val ne nec inv Hne Hnec; destruct m as [l|]; cbn [onull olist defuzz ores]; [|reflexivity];
    pose proof (rows l idx val ne nec (ne + nec) Hne Hnec ne (S ne) 0 (ofZ O 0) 0 (eq_refl _) (Nat.lt_succ_diag_r _)) as HR;
    rewrite Nat.add_0_r in HR; rewrite HR; clear HR; unfold FuzzyDefs.bind;
    match goal with |- context [defuzz_rows ?a ?b ?c ?d ?e ?f ?g ?h ?i] => destruct (defuzz_rows a b c d e f g h i) as [[k1 it1]|] end; reflexivity.

  Lemma gain_kp : forall (m : option (list T)) idx val ne nec inv, in32 ne -> in32 nec ->   (* for tie_a_pid_fuzzy_out_ *)
    (if onull m then Some (ofZ O 0) else
     match gen_a_pid_fuzzy_out__loop3 O (S ne) ne nec ne 0 0 idx val (olist m) 0 (ofZ O 0) (ne + nec) with
     | Some k => Some (mul O k inv) | None => None end) =
    ores (defuzz O m {| sidx := idx; sval := val |} ne nec (ne + nec) inv).
  Proof. gain_proof drows_kp. Qed.
  Lemma gain_ki : forall (m : option (list T)) idx val ne nec inv, in32 ne -> in32 nec ->   (* for tie_a_pid_fuzzy_out_ *)
    (if onull m then Some (ofZ O 0) else
     match gen_a_pid_fuzzy_out__loop5 O (S ne) ne nec ne 0 0 idx val (olist m) 0 (ofZ O 0) (ne + nec) with
     | Some k => Some (mul O k inv) | None => None end) =
    ores (defuzz O m {| sidx := idx; sval := val |} ne nec (ne + nec) inv).
  Proof. gain_proof drows_ki. Qed.
  Lemma gain_kd : forall (m : option (list T)) idx val ne nec inv, in32 ne -> in32 nec ->   (* for tie_a_pid_fuzzy_out_ *)
    (if onull m then Some (ofZ O 0) else
     match gen_a_pid_fuzzy_out__loop7 O (S ne) ne nec ne 0 0 idx val (olist m) 0 (ofZ O 0) (ne + nec) with
     | Some k => Some (mul O k inv) | None => None end) =
    ores (defuzz O m {| sidx := idx; sval := val |} ne nec (ne + nec) inv).
  Proof. gain_proof drows_kd. Qed.

  Theorem tie_a_pid_fuzzy_out_ : forall (s : fuzzy) (ec e : T), in32 (nrule s * nrule s) ->
    gen_a_pid_fuzzy_out_ O (sidx (sc s)) 0 (sval (sc s)) 0 (nrule s) (me s) 0 (bkp s) (bki s) (bkd s) (mec s) 0
      (fuzzy_opr O (opr s)) (onull (mkp s)) (olist (mkp s)) 0 (onull (mki s)) (olist (mki s)) 0 (onull (mkd s)) (olist (mkd s)) 0 ec e =
    out5 (fuzzy_out_ O s ec e).
  Proof.
    intros s ec e Hsq.
    assert (Hnr : in32 (nrule s)).
    { destruct (nrule s) as [|q] eqn:Eq; [vm_compute; reflexivity|]. apply in32_le with (S q * S q); [lia|exact Hsq]. }
    unfold gen_a_pid_fuzzy_out_, fuzzy_out_, fuzzy_out_gen. cbn [Nat.add]. cbv zeta.
    rewrite (tie_a_pid_fuzzy_mf O e (nrule s) (me s) (sc s) 0 Hnr).
    destruct (mf_walk O (nrule s) 0 e (me s) 0 (sc s) 0) as [[c1 ne]|] eqn:W1; cbn [out3 FuzzyDefs.bind]; [|reflexivity].
    destruct (ne =? 0) eqn:Ene; [reflexivity|].
    rewrite (tie_a_pid_fuzzy_mf O ec (nrule s) (mec s) c1 ne Hnr).
    destruct (mf_walk O (nrule s) 0 ec (mec s) ne c1 0) as [[c2 nec]|] eqn:W2; cbn [out3 FuzzyDefs.bind]; [|reflexivity].
    destruct (nec =? 0) eqn:Enec; [reflexivity|].
    pose proof (walk_count O _ _ _ _ _ _ _ _ _ W1) as C1. pose proof (walk_count O _ _ _ _ _ _ _ _ _ W2) as C2.
    assert (Hne : in32 ne) by (apply in32_le with (nrule s); [lia|exact Hnr]).
    assert (Hnec : in32 nec) by (apply in32_le with (nrule s); [lia|exact Hnr]).
    destruct (walk_frame O _ _ _ _ _ _ _ _ _ W1) as (_ & _ & In1). destruct (walk_frame O _ _ _ _ _ _ _ _ _ W2) as (_ & Out2 & _).
    assert (Hb : forall j v, 0 <= j < ne -> nth_error (sidx c2) j = Some v -> v < nrule s).
    { intros j v Hj Hv. rewrite Out2 in Hv by lia. assert (R : 0 <= v < 0 + nrule s) by (apply (In1 j v); [lia|exact Hv]). lia. }
    pose proof (joint_rows_loop (fuzzy_opr O (opr s)) (nrule s) ne nec (ne + nec) Hne Hnec Hsq ne (S ne) 0 (sidx c2) (sval c2) (ofZ O 0) 0
                  (eq_refl _) (Nat.lt_succ_diag_r _) Hb) as HJ.
    rewrite Nat.add_0_r in HJ. rewrite HJ. clear HJ. destruct c2 as [idx2 val2]. cbn [sidx sval].
    destruct (joint_rows O (fuzzy_opr O (opr s)) (nrule s) ne nec 0 (ne + nec) ({| sidx := idx2; sval := val2 |}, ofZ O 0, 0) ne)
      as [[[c3 sum] it3]|]; [|reflexivity].
    cbn [FuzzyDefs.bind andb]. unfold gtb. destruct c3 as [idx3 val3]. cbn [sidx sval].
    destruct (ltb O (ofZ O 0) sum); cbn [negb]; [|reflexivity].
    rewrite (gain_kp (mkp s) idx3 val3 ne nec _ Hne Hnec), (gain_ki (mki s) idx3 val3 ne nec _ Hne Hnec), (gain_kd (mkd s) idx3 val3 ne nec _ Hne Hnec).
    destruct (defuzz O (mkp s) {| sidx := idx3; sval := val3 |} ne nec (ne + nec) (div O (ofZ O 1) sum)) as [gp|]; cbn [ores FuzzyDefs.bind]; [|reflexivity].
    destruct (defuzz O (mki s) {| sidx := idx3; sval := val3 |} ne nec (ne + nec) (div O (ofZ O 1) sum)) as [gi|]; cbn [ores FuzzyDefs.bind]; [|reflexivity].
    destruct (defuzz O (mkd s) {| sidx := idx3; sval := val3 |} ne nec (ne + nec) (div O (ofZ O 1) sum)) as [gd|]; cbn [ores FuzzyDefs.bind]; [|reflexivity].
    reflexivity.
  Qed.

  (* ---------------------------------------------------------------- operator selection, zero *)
  Theorem tie_a_pid_fuzzy_opr : forall k : nat, gen_a_pid_fuzzy_opr O k = Some (fuzzy_opr O k).
  Proof. intros k. destruct k as [|[|[|[|[|[|[|k]]]]]]]; reflexivity. Qed.
  Theorem tie_a_pid_fuzzy_set_opr : forall k : nat, gen_a_pid_fuzzy_set_opr O k = Some (fuzzy_opr O k).
  Proof. intros k. apply tie_a_pid_fuzzy_opr. Qed.
  (* a_pid_fuzzy_zero = a_pid_zero on the embedded controller: the five members written, in declaration order *)
  Theorem tie_a_pid_fuzzy_zero : forall s : fuzzy,
    gen_a_pid_fuzzy_zero O =
    (let p := fpid (fuzzy_zero O s) in Some (PidDefs.sum p, PidDefs.out p, PidDefs.var p, PidDefs.fdb p, PidDefs.err p)).
  Proof. intros s. reflexivity. Qed.
End Out.
