(* All-lengths translator tie of C13 / C12, part 1: the membership-table walker a_pid_fuzzy_mf of src/pid_fuzzy.c.
   Module Gen.GenLoop is regenerated on every run by tools/c2arr.py from the CURRENT source: the `for (i = 0; i != n; ++i)` loop is
   a Fixpoint on fuel, the table `a`, the index block `idx` (a `list nat`) and the value block `val` are arrays with checked access,
   `switch ((int)*a++)` is a chain of tests k <= v < k + 1, largest label first (what the conversion to int distinguishes for the
   labels of the switch; everything else - A_MF_NUL, negative, >= 14, NaN - takes the `default: goto exit` arm), `goto exit`
   leaves the loop, the calls a_mf_gauss(x, a[0], a[1]) ... are rendered as the model functions mf_gauss ... of C13/MfDefs.v
   (tied to src/mf.c by harness/C13/TieMf.v on the same run), `++i` and `++counter` are checked to fit 32 bits.
   For EVERY NumOps instance, every number of sets n < 2^32, every table (too short: both sides stop), every scratch block
   (too small: both sides stop) and every start cell p of the two blocks:
     tie_a_pid_fuzzy_mf   generated = (idx block, val block, count) of the hand model mf_walk of C13/FuzzyDefs.v. *)
From Coq Require Import ZArith NArith List Bool Arith Lia.
From LibaV Require Import Common.NumOps C11.LoopTieLemmas C12.PidDefs C13.MfDefs C13.FuzzyDefs.
From Gen Require Import GenLoop.
Import ListNotations.

Lemma fits32 (x : nat) : in32 x -> fits 32 x = true.
Proof. unfold in32, fits. intros H. apply N.ltb_lt. exact H. Qed.

Lemma skipn_nth0 {A} (l : list A) : forall i a, nth_error l i = Some a -> skipn i l = a :: skipn (i + 1) l.
Proof.
  induction l as [|h t IH]; intros [|i] a E; try discriminate E.
  - injection E as ->. reflexivity.
  - cbn [nth_error] in E. cbn [skipn Nat.add]. rewrite (IH i a E). reflexivity.
Qed.
Lemma skipn_none {A} (l : list A) i : nth_error l i = None -> skipn i l = [].
Proof. intros E. apply skipn_all2. apply nth_error_None. exact E. Qed.

Section Walk.
  Context {T : Type} (O : NumOps T).

  Definition out3 (r : res (scratch (T := T) * nat)) : option (list nat * list T * nat) :=
    match r with Ok (sc', c) => Some (sidx sc', sval sc', c) | Fail _ => None end.

  Lemma tag_of_chain (v : T) : tag_of O v =
    if andb (leb O (ofZ O 13) v) (ltb O v (ofZ O 14)) then 13 else
    if andb (leb O (ofZ O 12) v) (ltb O v (ofZ O 13)) then 12 else
    if andb (leb O (ofZ O 11) v) (ltb O v (ofZ O 12)) then 11 else
    if andb (leb O (ofZ O 10) v) (ltb O v (ofZ O 11)) then 10 else
    if andb (leb O (ofZ O 9) v) (ltb O v (ofZ O 10)) then 9 else
    if andb (leb O (ofZ O 8) v) (ltb O v (ofZ O 9)) then 8 else
    if andb (leb O (ofZ O 7) v) (ltb O v (ofZ O 8)) then 7 else
    if andb (leb O (ofZ O 6) v) (ltb O v (ofZ O 7)) then 6 else
    if andb (leb O (ofZ O 5) v) (ltb O v (ofZ O 6)) then 5 else
    if andb (leb O (ofZ O 4) v) (ltb O v (ofZ O 5)) then 4 else
    if andb (leb O (ofZ O 3) v) (ltb O v (ofZ O 4)) then 3 else
    if andb (leb O (ofZ O 2) v) (ltb O v (ofZ O 3)) then 2 else
    if andb (leb O (ofZ O 1) v) (ltb O v (ofZ O 2)) then 1 else 0.
  Proof. reflexivity. Qed.

  Lemma upd_eq {A} (m : list A) i v : GenLoop.upd m i v = FuzzyDefs.upd i v m.
  Proof. reflexivity. Qed.

  Ltac norm_off := rewrite <- ?Nat.add_assoc; cbn [Nat.add].
  (* one parameter of the membership function: read by the code, taken off the table by the model *)
  Ltac param a :=
    match goal with
    | |- match nth_error a ?j with Some _ => _ | None => _ end = _ =>
        let E := fresh "E" in
        destruct (nth_error a j) eqn:E;
        [ rewrite (skipn_nth0 _ _ _ E); norm_off
        | rewrite (skipn_none _ _ E); reflexivity ]
    end.

  Lemma walk_loop (x : T) (a : list T) (n p : nat) (Hn : in32 n) :   (* for tie_a_pid_fuzzy_mf *)
    forall k fuel i a_off idx val counter, i + k = n -> k < fuel -> counter <= i ->
      gen_a_pid_fuzzy_mf_loop1 O fuel n x a idx val i a_off (p + counter) (p + counter) counter =
      out3 (mf_walk O k i x (skipn a_off a) p {| sidx := idx; sval := val |} counter).
  Proof.
    induction k as [|k IH]; intros fuel i a_off idx val counter Hi Hf Hc; (destruct fuel as [|f]; [lia|]);
      cbn [gen_a_pid_fuzzy_mf_loop1 mf_walk].
    - replace (i =? n) with true by (symmetry; apply Nat.eqb_eq; lia). reflexivity.
    - replace (i =? n) with false by (symmetry; apply Nat.eqb_neq; lia).
      destruct (nth_error a a_off) as [v|] eqn:Ev; [|rewrite (skipn_none _ _ Ev); reflexivity].
      rewrite (skipn_nth0 _ _ _ Ev). rewrite tag_of_chain.
      assert (F1 : fits 32 (i + 1) = true) by (apply fits32; apply in32_le with n; [lia|exact Hn]).
      assert (F2 : fits 32 (counter + 1) = true) by (apply fits32; apply in32_le with n; [lia|exact Hn]).
      repeat (match goal with |- context [if andb (leb O (ofZ O ?c) v) (ltb O v (ofZ O ?d)) then _ else _] =>
                destruct (andb (leb O (ofZ O c) v) (ltb O v (ofZ O d))) end;
              [ cbn [Nat.eqb mf_arity]; norm_off; repeat param a;
                cbn [take length Nat.ltb Nat.leb firstn skipn mf]; unfold gtb, eps;
                match goal with |- context [if ltb O (ofD O 1 (-52)) ?y then _ else _] => destruct (ltb O (ofD O 1 (-52)) y) end;
                [ unfold wr_idx, wr_val, of_opt, option_map, FuzzyDefs.bind; cbn [sidx sval]; rewrite !upd_eq;
                  match goal with |- context [FuzzyDefs.upd ?j i idx] => destruct (FuzzyDefs.upd j i idx) end; [cbn [sidx sval]|reflexivity];
                  match goal with |- context [FuzzyDefs.upd ?j ?y val] => destruct (FuzzyDefs.upd j y val) end; [cbn [sidx sval]|reflexivity];
                  rewrite F2, F1, !Nat.add_1_r; apply IH; lia
                | rewrite F1, !Nat.add_1_r; apply IH; lia ]
              | ]).
      reflexivity.
  Qed.

  Theorem tie_a_pid_fuzzy_mf : forall (x : T) (n : nat) (a : list T) (sc : scratch) (p : nat), in32 n ->
    gen_a_pid_fuzzy_mf O x n a 0 (sidx sc) p (sval sc) p = out3 (mf_walk O n 0 x a p sc 0).
  Proof.
    intros x n a sc p Hn. unfold gen_a_pid_fuzzy_mf. destruct sc as [si sv]. cbn [sidx sval].
    pose proof (walk_loop x a n p Hn n (S n) 0 0 si sv 0 (eq_refl _)) as H. rewrite Nat.add_0_r in H.
    apply H; lia.
  Qed.
End Walk.
