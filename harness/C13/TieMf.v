(* Tie between the model REGENERATED from src/mf.c, src/fuzzy.c and include/a/fuzzy.h by tools/c2coq.py (module Gen.GenMf,
   rewritten on every run) and the hand-written model C13/MfDefs.v about which the theorems of Properties_C13.v are proved:
   the 13 membership functions, the dispatcher a_mf specialised to every tag 0..13 and to an unknown tag (the switch is
   resolved at translation time: `a_mf@e=k`), and the nine fuzzy operators.  Each statement holds for EVERY NumOps instance
   satisfying ofZ (-1) = - ofZ 1 (proved for R_ops and F64_ops at the end). *)
From Coq Require Import ZArith Bool List.
From LibaV Require Import Common.NumOps Common.ROps Common.FloatOps C13.MfDefs.
From Gen Require Import GenMf.
Import ListNotations.

Section Tie.
  Context {T : Type} (O : NumOps T).
  Hypothesis ofZ_m1 : ofZ O (-1) = opp O (ofZ O 1).

  Ltac tie := intros; cbv delta -[add sub mul div opp abs sqrt ltb leb eqb ofZ ofD fn1 fn2 negb andb orb] beta iota zeta; rewrite ?ofZ_m1;
              repeat (match goal with |- context [if ?c then _ else _] =>
                        lazymatch c with context [if _ then _ else _] => fail | _ => destruct c end end; cbn [negb andb orb fst snd]);
              reflexivity.

  Theorem tie_a_mf_gauss : forall x s c, gen_a_mf_gauss O x s c = mf_gauss O x s c.  Proof. tie. Qed.
  Theorem tie_a_mf_gauss2 : forall x s1 c1 s2 c2, gen_a_mf_gauss2 O x s1 c1 s2 c2 = mf_gauss2 O x s1 c1 s2 c2.  Proof. tie. Qed.
  Theorem tie_a_mf_gbell : forall x a b c, gen_a_mf_gbell O x a b c = mf_gbell O x a b c.  Proof. tie. Qed.
  Theorem tie_a_mf_sig : forall x a c, gen_a_mf_sig O x a c = mf_sig O x a c.  Proof. tie. Qed.
  Theorem tie_a_mf_dsig : forall x a1 c1 a2 c2, gen_a_mf_dsig O x a1 c1 a2 c2 = mf_dsig O x a1 c1 a2 c2.  Proof. tie. Qed.
  Theorem tie_a_mf_psig : forall x a1 c1 a2 c2, gen_a_mf_psig O x a1 c1 a2 c2 = mf_psig O x a1 c1 a2 c2.  Proof. tie. Qed.
  Theorem tie_a_mf_trap : forall x a b c d, gen_a_mf_trap O x a b c d = mf_trap O x a b c d.  Proof. tie. Qed.
  Theorem tie_a_mf_tri : forall x a b c, gen_a_mf_tri O x a b c = mf_tri O x a b c.  Proof. tie. Qed.
  Theorem tie_a_mf_lins : forall x a b, gen_a_mf_lins O x a b = mf_lins O x a b.  Proof. tie. Qed.
  Theorem tie_a_mf_linz : forall x a b, gen_a_mf_linz O x a b = mf_linz O x a b.  Proof. tie. Qed.
  Theorem tie_a_mf_s : forall x a b, gen_a_mf_s O x a b = mf_s O x a b.  Proof. tie. Qed.
  Theorem tie_a_mf_z : forall x a b, gen_a_mf_z O x a b = mf_z O x a b.  Proof. tie. Qed.
  Theorem tie_a_mf_pi : forall x a b c d, gen_a_mf_pi O x a b c d = mf_pi O x a b c d.  Proof. tie. Qed.

  (* the dispatcher, tag by tag: exactly the parameters a[0..arity-1] are read, in order; unknown tags give 0 *)
  Theorem tie_a_mf_e0 : forall x  rest, mf O 0 x (rest) = Some (gen_a_mf_e0 O x ).  Proof. tie. Qed.
  Theorem tie_a_mf_e1 : forall x a0 a1 rest, mf O 1 x ([a0; a1] ++ rest) = Some (gen_a_mf_e1 O x a0 a1).  Proof. tie. Qed.
  Theorem tie_a_mf_e2 : forall x a0 a1 a2 a3 rest, mf O 2 x ([a0; a1; a2; a3] ++ rest) = Some (gen_a_mf_e2 O x a0 a1 a2 a3).  Proof. tie. Qed.
  Theorem tie_a_mf_e3 : forall x a0 a1 a2 rest, mf O 3 x ([a0; a1; a2] ++ rest) = Some (gen_a_mf_e3 O x a0 a1 a2).  Proof. tie. Qed.
  Theorem tie_a_mf_e4 : forall x a0 a1 rest, mf O 4 x ([a0; a1] ++ rest) = Some (gen_a_mf_e4 O x a0 a1).  Proof. tie. Qed.
  Theorem tie_a_mf_e5 : forall x a0 a1 a2 a3 rest, mf O 5 x ([a0; a1; a2; a3] ++ rest) = Some (gen_a_mf_e5 O x a0 a1 a2 a3).  Proof. tie. Qed.
  Theorem tie_a_mf_e6 : forall x a0 a1 a2 a3 rest, mf O 6 x ([a0; a1; a2; a3] ++ rest) = Some (gen_a_mf_e6 O x a0 a1 a2 a3).  Proof. tie. Qed.
  Theorem tie_a_mf_e7 : forall x a0 a1 a2 a3 rest, mf O 7 x ([a0; a1; a2; a3] ++ rest) = Some (gen_a_mf_e7 O x a0 a1 a2 a3).  Proof. tie. Qed.
  Theorem tie_a_mf_e8 : forall x a0 a1 a2 rest, mf O 8 x ([a0; a1; a2] ++ rest) = Some (gen_a_mf_e8 O x a0 a1 a2).  Proof. tie. Qed.
  Theorem tie_a_mf_e9 : forall x a0 a1 rest, mf O 9 x ([a0; a1] ++ rest) = Some (gen_a_mf_e9 O x a0 a1).  Proof. tie. Qed.
  Theorem tie_a_mf_e10 : forall x a0 a1 rest, mf O 10 x ([a0; a1] ++ rest) = Some (gen_a_mf_e10 O x a0 a1).  Proof. tie. Qed.
  Theorem tie_a_mf_e11 : forall x a0 a1 rest, mf O 11 x ([a0; a1] ++ rest) = Some (gen_a_mf_e11 O x a0 a1).  Proof. tie. Qed.
  Theorem tie_a_mf_e12 : forall x a0 a1 rest, mf O 12 x ([a0; a1] ++ rest) = Some (gen_a_mf_e12 O x a0 a1).  Proof. tie. Qed.
  Theorem tie_a_mf_e13 : forall x a0 a1 a2 a3 rest, mf O 13 x ([a0; a1; a2; a3] ++ rest) = Some (gen_a_mf_e13 O x a0 a1 a2 a3).  Proof. tie. Qed.
  Theorem tie_a_mf_e14 : forall x  rest, mf O 14 x (rest) = Some (gen_a_mf_e14 O x ).  Proof. tie. Qed.

  Theorem tie_a_fuzzy_not : forall x, gen_a_fuzzy_not O x = fuzzy_not O x.  Proof. tie. Qed.
  Theorem tie_a_fuzzy_cap : forall a b, gen_a_fuzzy_cap O a b = fuzzy_cap O a b.  Proof. tie. Qed.
  Theorem tie_a_fuzzy_cap_algebra : forall a b, gen_a_fuzzy_cap_algebra O a b = fuzzy_cap_algebra O a b.  Proof. tie. Qed.
  Theorem tie_a_fuzzy_cap_bounded : forall a b, gen_a_fuzzy_cap_bounded O a b = fuzzy_cap_bounded O a b.  Proof. tie. Qed.
  Theorem tie_a_fuzzy_cup : forall a b, gen_a_fuzzy_cup O a b = fuzzy_cup O a b.  Proof. tie. Qed.
  Theorem tie_a_fuzzy_cup_algebra : forall a b, gen_a_fuzzy_cup_algebra O a b = fuzzy_cup_algebra O a b.  Proof. tie. Qed.
  Theorem tie_a_fuzzy_cup_bounded : forall a b, gen_a_fuzzy_cup_bounded O a b = fuzzy_cup_bounded O a b.  Proof. tie. Qed.
  Theorem tie_a_fuzzy_equ : forall a b, gen_a_fuzzy_equ O a b = fuzzy_equ O a b.  Proof. tie. Qed.
  Theorem tie_a_fuzzy_equ_ : forall g a b, gen_a_fuzzy_equ_ O g a b = fuzzy_equ_ O g a b.  Proof. tie. Qed.
End Tie.

Theorem tie_law_m1_R : ofZ R_ops (-1) = opp R_ops (ofZ R_ops 1).  Proof. reflexivity. Qed.
Theorem tie_law_m1_F64 : ofZ F64_ops (-1) = opp F64_ops (ofZ F64_ops 1).  Proof. vm_compute. reflexivity. Qed.
