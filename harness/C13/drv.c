/* C13 harness: membership functions, fuzzy operators, the membership-table walk and the fuzzy-tuned PID controller,
   compiled against the CURRENT $VERIF_REPO/src/{mf,fuzzy,pid_fuzzy,pid}.c.  Doubles travel as bit patterns
   (common/fharness.h); libm's exp/pow are replaced at link time by the fixed substitutes of common/libm_subst.c
   (-Wl,--wrap), the twins of sub1/sub2 in coq/Common/FloatOps.v, so the code AROUND the libm calls is compared bit for bit.

   One case per input line, one output line per case:
     mf  <tag> x p0 p1 p2 p3      -> specific function (tags 1..13) then a_mf(tag, x, p)
     op  a b gamma                -> not(a) cap cap_algebra cap_bounded cup cup_algebra cup_bounded equ equ_(gamma)
                                     then a_pid_fuzzy_opr(k)(a,b) for k = 0..7
     wk  <n> x t0 t1 ...          -> a_pid_fuzzy_mf(x, n, table, idx, val): counter, idx[0..counter), val[0..counter)
                                     (table malloc'ed exactly, idx/val 16 cells; forked: a read past the table is
                                     an ASan report -> marker, the model's ErrTable)
     fz / fzs  <nrule> <nfuzz> <opr> <mask> <lme> <lmec> <nops>  kp ki kd summax summin outmax outmin
               me[lme] mec[lmec] mkp[n*n] mki[n*n] mkd[n*n]  (<kind> set fdb)*nops
                                  -> layout line items (val offset in bytes, A_PID_FUZZY_BFUZZ(nfuzz)) then after every step:
                                     out kp ki kd sum var fdb err idx[2*nfuzz] val[nfuzz*(2+nfuzz)]
        fz : one block of A_PID_FUZZY_BFUZZ(nfuzz) bytes handed to a_pid_fuzzy_set_bfuzz (the documented API);
        fzs: the same two regions as two separate exact-size heap blocks (ctx.idx / ctx.val set directly), so that
             AddressSanitizer sees a write past either region.
        Both run in a forked child; if the child dies (ASan report) the parent appends the marker fff0000000000000. */
#define _POSIX_C_SOURCE 200809L
#include "a/mf.h"
#include "a/fuzzy.h"
#include "a/pid_fuzzy.h"
#include "common/fharness.h"
#include <unistd.h>
#include <sys/wait.h>

unsigned int a_pid_fuzzy_mf(a_real x, unsigned int n, a_real const *a, unsigned int *idx, a_real *val);

static double *dup_exact(double const *src, int n)
{
    double *p = (double *)malloc(sizeof(double) * (size_t)(n ? n : 1));
    int i;
    for (i = 0; i < n; ++i) { p[i] = src[i]; }
    return p;
}

static void run_fuzzy(int split)
{
    double *a = f_arg;
    unsigned nrule = (unsigned)f_raw[0], nfuzz = (unsigned)f_raw[1], opr = (unsigned)f_raw[2], mask = (unsigned)f_raw[3];
    int lme = (int)f_raw[4], lmec = (int)f_raw[5], nops = (int)f_raw[6];
    int nn = (int)(nrule * nrule), k = 7, i, s;
    unsigned nidx = 2 * nfuzz, nval = nfuzz * (2 + nfuzz);
    a_pid_fuzzy c;
    double kp = a[k], ki = a[k + 1], kd = a[k + 2];
    double *me, *mec, *mkp, *mki, *mkd;
    void *blk = 0;
    memset(&c, 0, sizeof(c));
    c.pid.summax = a[k + 3]; c.pid.summin = a[k + 4]; c.pid.outmax = a[k + 5]; c.pid.outmin = a[k + 6];
    k += 7;
    me = dup_exact(a + k, lme); k += lme;
    mec = dup_exact(a + k, lmec); k += lmec;
    mkp = dup_exact(a + k, nn); k += nn;
    mki = dup_exact(a + k, nn); k += nn;
    mkd = dup_exact(a + k, nn); k += nn;
    a_pid_fuzzy_init(&c);
    a_pid_fuzzy_set_rule(&c, nrule, me, mec, (mask & 1) ? mkp : 0, (mask & 2) ? mki : 0, (mask & 4) ? mkd : 0);
    a_pid_fuzzy_set_kpid(&c, kp, ki, kd);
    a_pid_fuzzy_set_opr(&c, opr);
    if (!split)
    {
        size_t sz = A_PID_FUZZY_BFUZZ(nfuzz);
        blk = malloc(sz ? sz : 1);
        a_pid_fuzzy_set_bfuzz(&c, blk, nfuzz);
    }
    else
    {
        a_pid_fuzzy_set_bfuzz(&c, 0, nfuzz);
        c.idx = (unsigned int *)malloc(sizeof(unsigned int) * (nidx ? nidx : 1));
        c.val = (a_real *)malloc(sizeof(a_real) * (nval ? nval : 1));
        if (!nidx) { free(c.idx); c.idx = (unsigned int *)malloc(1); }
    }
    for (i = 0; i < (int)nidx; ++i) { c.idx[i] = 99; }
    for (i = 0; i < (int)nval; ++i) { c.val[i] = 777; }
    /* layout */
    if (!split)
    {
        put((double)((char *)c.val - (char *)c.idx));
        put((double)A_PID_FUZZY_BFUZZ(nfuzz));
        put((double)((char *)a_pid_fuzzy_bfuzz(&c) - (char *)blk));
        put((double)c.nfuzz);
    }
    fflush(stdout);
    for (s = 0; s < nops; ++s)
    {
        unsigned kind = (unsigned)f_raw[k + 3 * s];
        double set = a[k + 3 * s + 1], fdb = a[k + 3 * s + 2], out = 0;
        switch (kind)
        {
        case 0: out = a_pid_fuzzy_run(&c, set, fdb); break;
        case 1: out = a_pid_fuzzy_pos(&c, set, fdb); break;
        case 2: out = a_pid_fuzzy_inc(&c, set, fdb); break;
        default: a_pid_fuzzy_zero(&c); out = c.pid.out; break;
        }
        put(out);
        put(c.pid.kp); put(c.pid.ki); put(c.pid.kd); put(c.pid.sum); put(c.pid.out);
        put(c.pid.var); put(c.pid.fdb); put(c.pid.err);
        for (i = 0; i < (int)nidx; ++i) { put((double)c.idx[i]); }
        for (i = 0; i < (int)nval; ++i) { put(c.val[i]); }
        fflush(stdout);
    }
}

static void run_walk(void)
{
    double *a = f_arg;
    int i;
    unsigned n = (unsigned)f_raw[0], cnt, idx[16];
    double val[16], *tab = dup_exact(a + 2, f_n - 2);
    cnt = a_pid_fuzzy_mf(a[1], n, tab, idx, val);
    put((double)cnt);
    for (i = 0; i < (int)cnt; ++i) { put((double)idx[i]); }
    for (i = 0; i < (int)cnt; ++i) { put(val[i]); }
    free(tab);
}

int main(void)
{
    static char line[1 << 16];
    setvbuf(stdout, 0, _IOFBF, 1 << 16);
    while (fgets(line, sizeof(line), stdin))
    {
        int i;
        if (!f_read(line)) { continue; }
        double *a = f_arg;
        if (!strcmp(f_fn, "mf"))
        {
            unsigned e = (unsigned)f_raw[0];
            double x = a[1], *p = a + 2;
            switch (e)
            {
            case A_MF_GAUSS: put(a_mf_gauss(x, p[0], p[1])); break;
            case A_MF_GAUSS2: put(a_mf_gauss2(x, p[0], p[1], p[2], p[3])); break;
            case A_MF_GBELL: put(a_mf_gbell(x, p[0], p[1], p[2])); break;
            case A_MF_SIG: put(a_mf_sig(x, p[0], p[1])); break;
            case A_MF_DSIG: put(a_mf_dsig(x, p[0], p[1], p[2], p[3])); break;
            case A_MF_PSIG: put(a_mf_psig(x, p[0], p[1], p[2], p[3])); break;
            case A_MF_TRAP: put(a_mf_trap(x, p[0], p[1], p[2], p[3])); break;
            case A_MF_TRI: put(a_mf_tri(x, p[0], p[1], p[2])); break;
            case A_MF_LINS: put(a_mf_lins(x, p[0], p[1])); break;
            case A_MF_LINZ: put(a_mf_linz(x, p[0], p[1])); break;
            case A_MF_S: put(a_mf_s(x, p[0], p[1])); break;
            case A_MF_Z: put(a_mf_z(x, p[0], p[1])); break;
            case A_MF_PI: put(a_mf_pi(x, p[0], p[1], p[2], p[3])); break;
            default: break;
            }
            put(a_mf(e, x, p));
        }
        else if (!strcmp(f_fn, "op"))
        {
            unsigned k;
            put(a_fuzzy_not(a[0]));
            put(a_fuzzy_cap(a[0], a[1])); put(a_fuzzy_cap_algebra(a[0], a[1])); put(a_fuzzy_cap_bounded(a[0], a[1]));
            put(a_fuzzy_cup(a[0], a[1])); put(a_fuzzy_cup_algebra(a[0], a[1])); put(a_fuzzy_cup_bounded(a[0], a[1]));
            put(a_fuzzy_equ(a[0], a[1])); put(a_fuzzy_equ_(a[2], a[0], a[1]));
            for (k = 0; k < 8; ++k) { put(a_pid_fuzzy_opr(k)(a[0], a[1])); }
        }
        else if (!strcmp(f_fn, "wk") || !strcmp(f_fn, "fz") || !strcmp(f_fn, "fzs"))
        {
            pid_t pid;
            int st = 0;
            fflush(stdout);
            pid = fork();
            if (pid == 0)
            {
                if (f_fn[0] == 'w') { run_walk(); }
                else { run_fuzzy(f_fn[2] == 's'); }
                fflush(stdout);
                _exit(0);
            }
            waitpid(pid, &st, 0);
            if (!(WIFEXITED(st) && WEXITSTATUS(st) == 0)) { printf(" fff0000000000000"); }
        }
        printf("\n");
    }
    return 0;
}
