/* C01 correspondence driver: runs histories on the real a_avl_* code (compiled from $VERIF_REPO/src/avl.c)
   and prints one canonical line per operation.

   Case file (stdin):
       H <name>            start a new history on an empty tree (all nodes of the previous one are freed)
       I <id> <key>        allocate node <id> (fresh within the history) with <key>; a_avl_insert
       J <id> <key>        a_avl_insert of the RESIDENT node object <id> itself (its key is <key>) a second time
       R <key>             n = a_avl_search(key); if (n) a_avl_remove(n); free(n)
       S <key>             a_avl_search(key)
   Output:
       H <name>
       i|r|s <ret> root=<id> n=<nodes> | <id>:<key>,<left>,<right>,<parent>,<factor> ...
   <ret> is the id of the returned node (0 = NULL); for R the id of the removed node.  The records
   are those of the nodes the DRIVER knows to be in the tree (inserted with a NULL return and not yet
   removed), in ascending id order -- the tree is never traversed for the dump, so an unreachable or
   mislinked node still shows its fields.  In the default (delta) mode only records that differ from
   the previous line's state are printed; "full" as argv[1] prints every record on every line.
   Pointers are printed as ids, never as addresses.  Every node is a separate malloc block and is
   freed as soon as it leaves the tree, so that ASan reports any later access through a stale link. */
#define _POSIX_C_SOURCE 200809L /* alarm(): a library loop that does not terminate must end the run, not hang the check */
#include "a/avl.h"
#include <stdio.h>
#include <stdlib.h>
#include <string.h>
#include <unistd.h>

typedef struct
{
    a_avl_node node;
    long key;
    long id;
} item;

typedef struct
{
    long key, l, r, p, f;
    int valid;
} rec;

static item **pool;   /* pool[id] != NULL  <=>  node id is in the tree (driver's bookkeeping) */
static rec *last;     /* last printed record per id */
static long cap, maxid, count;
static a_avl root;
static int full;

static item *entry(void const *n) { return (item *)((char *)(a_uptr)n - offsetof(item, node)); }
static long id_of(a_avl_node const *n) { return n ? entry(n)->id : 0; }

/* stored balance factor: the low two bits of parent_ minus one in the packed layout (A_SIZE_POINTER > 3),
   the separate field `factor` in the unpacked layout (the #else arms of avl.h / avl.c, built by the check
   with A_SIZE_POINTER 1).  The parent always comes from the public accessor a_avl_parent, so both layouts
   print the same lines. */
static long factor_of(a_avl_node const *n)
{
#if defined(A_SIZE_POINTER) && (A_SIZE_POINTER + 0 > 3)
    return (long)(n->parent_ & 3) - 1;
#else /* !A_SIZE_POINTER */
    return (long)n->factor;
#endif /* A_SIZE_POINTER */
}

static int cmp(void const *lhs, void const *rhs)
{
    /* the documented contract is <0 / ==0 / >0, not -1 / 0 / +1: the magnitude varies with the keys (seeded change C01-18) */
    long a = entry(lhs)->key, b = entry(rhs)->key;
    int const mag = 1 + (int)(((unsigned long)a * 7u + (unsigned long)b * 13u) % 1000u);
    return a > b ? mag : a < b ? -mag : 0;
}

static void need(long id)
{
    if (id >= cap)
    {
        long ncap = cap ? cap : 1024;
        while (ncap <= id) { ncap *= 2; }
        pool = (item **)realloc(pool, sizeof(item *) * (size_t)ncap);
        last = (rec *)realloc(last, sizeof(rec) * (size_t)ncap);
        memset(pool + cap, 0, sizeof(item *) * (size_t)(ncap - cap));
        memset(last + cap, 0, sizeof(rec) * (size_t)(ncap - cap));
        cap = ncap;
    }
    if (id > maxid) { maxid = id; }
}

static void reset(void)
{
    long i;
    for (i = 1; i <= maxid; ++i)
    {
        if (pool[i]) { free(pool[i]); pool[i] = 0; }
        last[i].valid = 0;
    }
    maxid = 0;
    count = 0;
    a_avl_root(&root);
}

static void dump(char tag, long ret)
{
    long i;
    printf("%c %ld root=%ld n=%ld |", tag, ret, id_of(root.node), count);
    for (i = 1; i <= maxid; ++i)
    {
        item *it = pool[i];
        rec cur;
        if (!it) { last[i].valid = 0; continue; }
        cur.key = it->key;
        cur.l = id_of(it->node.left);
        cur.r = id_of(it->node.right);
        cur.p = id_of(a_avl_parent(&it->node));
        cur.f = factor_of(&it->node);
        cur.valid = 1;
        if (full || !last[i].valid || last[i].key != cur.key || last[i].l != cur.l || last[i].r != cur.r ||
            last[i].p != cur.p || last[i].f != cur.f)
        {
            printf(" %ld:%ld,%ld,%ld,%ld,%ld", i, cur.key, cur.l, cur.r, cur.p, cur.f);
        }
        last[i] = cur;
    }
    putchar('\n');
}

int main(int argc, char **argv)
{
    char line[256];
    full = argc > 1 && strcmp(argv[1], "full") == 0;
    a_avl_root(&root);
    /* every line reaches the pipe before the next library call: a sanitizer abort (ASan or UBSan --
       the latter does not run ASan's death callback) then loses nothing, and the check can tell
       exactly which operation died */
    setvbuf(stdout, A_NULL, _IOLBF, 0);
    while (fgets(line, sizeof(line), stdin))
    {
        alarm(10); /* watchdog per input line: SIGALRM ends the process, the check restarts after the case */
        long a = 0, b = 0;
        char c = line[0];
        if (c == 'H')
        {
            reset();
            fputs(line, stdout);
            if (!strchr(line, '\n')) { putchar('\n'); }
        }
        else if (c == 'I' && sscanf(line + 1, "%ld %ld", &a, &b) == 2 && a > 0)
        {
            item *it;
            a_avl_node *res;
            need(a);
            if (pool[a]) { printf("E id %ld already in tree\n", a); continue; }
            it = (item *)malloc(sizeof(item));
            memset(it, 0x5a, sizeof(item));
            it->key = b;
            it->id = a;
            res = a_avl_insert(&root, &it->node, cmp);
            if (res)
            {
                long rid = id_of(res);
                free(it);
                dump('i', rid);
            }
            else
            {
                pool[a] = it;
                ++count;
                dump('i', 0);
            }
        }
        else if (c == 'J' && sscanf(line + 1, "%ld %ld", &a, &b) == 2 && a > 0)
        {
            a_avl_node *res;
            need(a);
            if (!pool[a] || pool[a]->key != b) { printf("E id %ld is not resident with key %ld\n", a, b); continue; }
            res = a_avl_insert(&root, &pool[a]->node, cmp);
            dump('i', res ? id_of(res) : 0);
        }
        else if ((c == 'R' || c == 'S') && sscanf(line + 1, "%ld", &a) == 1)
        {
            item probe;
            a_avl_node *res;
            memset(&probe, 0, sizeof(probe));
            probe.key = a;
            res = a_avl_search(&root, &probe.node, cmp);
            if (c == 'S') { dump('s', id_of(res)); }
            else if (!res) { dump('r', 0); }
            else
            {
                long rid = id_of(res);
                a_avl_remove(&root, res);
                if (rid > 0 && rid <= maxid && pool[rid] == entry(res))
                {
                    pool[rid] = 0;
                    --count;
                }
                free(entry(res));
                dump('r', rid);
            }
        }
        else if (c != '\n' && c != '#') { printf("E bad line\n"); }
    }
    reset();
    free(pool);
    free(last);
    return 0;
}
