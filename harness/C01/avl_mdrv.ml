(* C01 model driver: runs the EXTRACTED Gallina model (Avl_model.step / heap_of / root_id) on the same
   case file as harness/C01/avl_drv.c and prints the same canonical lines.  Hand-written glue only:
   parsing, int <-> extracted Z conversion, printing, delta bookkeeping, tag counting (stderr). *)
open Avl_model

let rec pos_of_int n = if n = 1 then XH else if n land 1 = 0 then XO (pos_of_int (n lsr 1)) else XI (pos_of_int (n lsr 1))
let z_of_int n = if n = 0 then Z0 else if n > 0 then Zpos (pos_of_int n) else Zneg (pos_of_int (- n))
let rec int_of_pos = function XH -> 1 | XO p -> 2 * int_of_pos p | XI p -> 2 * int_of_pos p + 1
let int_of_z = function Z0 -> 0 | Zpos p -> int_of_pos p | Zneg p -> - (int_of_pos p)
let int_of_ptr = function None -> 0 | Some z -> int_of_z z

let tag_name = function
  | TLinkRoot -> "LinkRoot"
  | TLinkStop s -> Printf.sprintf "LinkStop(%d)" (int_of_z s)
  | TLinkGrow s -> Printf.sprintf "LinkGrow(%d)" (int_of_z s)
  | TG0 s -> Printf.sprintf "G0(%d)" (int_of_z s)
  | TGstop s -> Printf.sprintf "Gstop(%d)" (int_of_z s)
  | TGrot1 s -> Printf.sprintf "Grot1(%d)" (int_of_z s)
  | TGrot2 (s, e) -> Printf.sprintf "Grot2(%d,%d)" (int_of_z s) (int_of_z e)
  | TDup -> "Dup"
  | TS0 s -> Printf.sprintf "S0(%d)" (int_of_z s)
  | TSdec s -> Printf.sprintf "Sdec(%d)" (int_of_z s)
  | TSrot1bal s -> Printf.sprintf "Srot1bal(%d)" (int_of_z s)
  | TSrot1 s -> Printf.sprintf "Srot1(%d)" (int_of_z s)
  | TSrot2 (s, e) -> Printf.sprintf "Srot2(%d,%d)" (int_of_z s) (int_of_z e)
  | TUnlink c -> Printf.sprintf "Unlink(%d)" (int_of_z c)
  | TSpliceChild -> "SpliceChild"
  | TSpliceDeep -> "SpliceDeep"
  | TAbsent -> "Absent"

let tags : (string, int) Hashtbl.t = Hashtbl.create 64
let bump name = Hashtbl.replace tags name (1 + (try Hashtbl.find tags name with Not_found -> 0))

let full = Array.length Sys.argv > 1 && Sys.argv.(1) = "full"
let last : (int, int * int * int * int * int) Hashtbl.t = Hashtbl.create 4096
let tree = ref E
let buf = Buffer.create 65536

let dump tagc ret =
  let h = heap_of None !tree in
  let recs = List.rev_map (fun (i, c) ->
      (int_of_z i, (int_of_z c.c_key, int_of_ptr c.c_left, int_of_ptr c.c_right, int_of_ptr c.c_parent, int_of_z c.c_factor))) h in
  let recs = List.sort (fun (a, _) (b, _) -> compare a b) recs in
  Buffer.add_string buf (Printf.sprintf "%c %d root=%d n=%d |" tagc ret (int_of_ptr (root_id !tree)) (List.length recs));
  List.iter (fun (i, ((k, l, r, p, f) as cur)) ->
      let same = (not full) && (try Hashtbl.find last i = cur with Not_found -> false) in
      if not same then Buffer.add_string buf (Printf.sprintf " %d:%d,%d,%d,%d,%d" i k l r p f);
      Hashtbl.replace last i cur) recs;
  Buffer.add_char buf '\n';
  if Buffer.length buf > 60000 then (print_string (Buffer.contents buf); Buffer.clear buf)

(* coverage: distinct (pre-state shape with stored factors, op kind, rank of the key) triples *)
let seen : (string, unit) Hashtbl.t = Hashtbl.create 65536
let n_distinct = ref 0
let n_nontrivial = ref 0
let trivial_tag = function TLinkRoot | TLinkStop _ | TDup | TAbsent -> true | _ -> false
let state_key t kind key =
  let b = Buffer.create 256 in
  let rank = ref 0 in
  let rec go = function
    | E -> Buffer.add_char b '.'
    | T (l, k, _, f, r) ->
      Buffer.add_char b (match int_of_z f with -1 -> '-' | 0 -> '0' | 1 -> '+' | _ -> '?');
      if int_of_z k < key then incr rank;
      go l; go r in
  go t;
  Digest.string (Printf.sprintf "%c%d/%s" kind !rank (Buffer.contents b))

let apply o tagc =
  let key = (match o with Ins (k, _) -> int_of_z k | Rem k -> int_of_z k | Find k -> int_of_z k) in
  let sk = state_key !tree tagc key in
  match step !tree o with
  | None -> Buffer.add_string buf "E model error\n"
  | Some ((t', ret), tr) ->
    tree := t';
    List.iter (fun tg -> bump (tag_name tg)) tr;
    if not (Hashtbl.mem seen sk) then begin
      Hashtbl.add seen sk (); incr n_distinct;
      if List.exists (fun tg -> not (trivial_tag tg)) tr then incr n_nontrivial
    end;
    let r = int_of_ptr ret in
    (match o with Rem _ when r <> 0 -> Hashtbl.remove last r | _ -> ());
    dump tagc r

let () =
  (try
     while true do
       let line = input_line stdin in
       if String.length line > 0 then
         match line.[0] with
         | 'H' -> tree := E; Hashtbl.reset last; Buffer.add_string buf line; Buffer.add_char buf '\n'
         | 'I' -> Scanf.sscanf (String.sub line 1 (String.length line - 1)) " %d %d" (fun a b -> apply (Ins (z_of_int b, z_of_int a)) 'i')
         | 'J' -> (* the resident node object offered again: for the model an insert of a present key *)
           Scanf.sscanf (String.sub line 1 (String.length line - 1)) " %d %d" (fun a b -> apply (Ins (z_of_int b, z_of_int a)) 'i')
         | 'R' -> Scanf.sscanf (String.sub line 1 (String.length line - 1)) " %d" (fun a -> apply (Rem (z_of_int a)) 'r')
         | 'S' -> Scanf.sscanf (String.sub line 1 (String.length line - 1)) " %d" (fun a -> apply (Find (z_of_int a)) 's')
         | '#' -> ()
         | _ -> Buffer.add_string buf "E bad line\n"
     done
   with End_of_file -> ());
  print_string (Buffer.contents buf);
  let l = Hashtbl.fold (fun k v acc -> (k, v) :: acc) tags [] in
  List.iter (fun (k, v) -> Printf.eprintf "TAG %s %d\n" k v) (List.sort compare l);
  Printf.eprintf "DISTINCT %d %d\n" !n_distinct !n_nontrivial
