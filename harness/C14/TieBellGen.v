(* Tie between the regenerated a_trajbell_gen (module Gen.GenTraj: `gen_a_trajbell_gen` and the Fixpoint on fuel
   `gen_a_trajbell_gen_loop1` that tools/c2coq.py makes of the do { } while (ac > A_REAL_EPSILON) bisection) and the hand model
   bell_gen_b of C14/BellDefs.v, for EVERY NumOps instance, EVERY fuel and every input.

   The regenerated function returns `option`: None = the loop ran out of fuel, Some (14 context fields, return value) = a run of
   the C function.  The hand model returns (context, value, exit tag, passes); `projB` forgets the two bookkeeping components
   the C does not have but keeps the out-of-fuel distinction (tag BX_out_of_fuel <-> None).

   Proof: `tie_bell_loop` by induction on the fuel - one pass of the regenerated Fixpoint against `bell_step` followed by the
   loop test, by cases on the conditions in the order of the control flow (innermost first), the induction hypothesis at the
   four `continue`/fall-through re-entries; then `tie_a_trajbell_gen` follows the prologue (absolute values, zero limits,
   clamps, reversal, the two limit tests, the cruise test) to the loop.  Fuel SUFFICIENCY (that 1076 passes are enough in
   binary64) is not proved here nor anywhere: the statement is about equal behaviour at equal fuel. *)
From Coq Require Import ZArith Bool.
From LibaV Require Import Common.NumOps C14.TrapDefs C14.BellDefs.
From Gen Require Import GenTraj.
Section Tie.
  Context {T : Type} (O : NumOps T).

  Definition tupb (c : bell T) :=
    (b_t c, b_tv c, b_ta c, b_td c, b_taj c, b_tdj c, b_p0 c, b_p1 c, b_v0 c, b_v1 c, b_vm c, b_jm c, b_am c, b_dm c).

  (* what the C leaves: context and return value; None when (and only when) the model ran out of fuel *)
  Definition projB (x : bell T * T * bell_exit * nat) :=
    match snd (fst x) with
    | BX_out_of_fuel => None
    | _ => Some (tupb (fst (fst (fst x))), snd (fst (fst x)))
    end.

  (* the same for the result of the loop, with the two tails of the function (labels `exit:` and `fail:`) applied *)
  Definition projL (x : @loop_res T) :=
    match x with
    | LExit c k n => let c := b_set_t (add O (add O (b_ta c) (b_tv c)) (b_td c)) c in projB (c, b_t c, k, n)
    | LFail c k n => let c := b_set_t (ofZ O 0) c in projB (c, ofZ O 0, k, n)
    end.

  Ltac unfold_model :=
    cbv delta [bell_step b_set_t b_set_tv b_set_ta b_set_td b_set_taj b_set_tdj b_set_p0 b_set_p1 b_set_v0 b_set_v1 b_set_vm
               b_set_jm b_set_am b_set_dm b_t b_tv b_ta b_td b_taj b_tdj b_p0 b_p1 b_v0 b_v1 b_vm b_jm b_am b_dm
               half sixteenth epsilon sat gtb geb] beta iota zeta.
  Ltac finish_leaf := cbv delta [projL projB tupb b_set_t b_t b_tv b_ta b_td b_taj b_tdj b_p0 b_p1 b_v0 b_v1 b_vm b_jm b_am b_dm
                                  fst snd] beta iota zeta; reflexivity.
  (* one condition without a nested condition, anywhere in the goal *)
  Ltac split_innermost :=
    match goal with |- context [if ?c then _ else _] =>
      lazymatch c with context [if _ then _ else _] => fail | _ => destruct c end end; cbv beta iota.

  Theorem tie_bell_loop : forall fuel n t tv ta td taj tdj p0 p1 w0 w1 vm cjm cam cdm jm am v0 v1 p ac,
    gen_a_trajbell_gen_loop1 O fuel tv td p0 p1 w0 w1 vm cjm cam cdm jm am v0 v1 p ac
      (mul O (ofZ O 2) v0) (mul O (ofZ O 2) v1) (add O v0 v1) (mul O (ofZ O 2) (add O (mul O v0 v0) (mul O v1 v1))) =
    projL (bell_loop O fuel n jm p v0 v1 (mk_bell t tv ta td taj tdj p0 p1 w0 w1 vm cjm cam cdm) am ac).
  Proof.
    induction fuel as [|fuel IH]; intros.
    - reflexivity.
    - cbn [gen_a_trajbell_gen_loop1 bell_loop].
      unfold_model.
      repeat first [ apply IH | finish_leaf | timeout 20 split_innermost ].
  Qed.

  (* The prologue.  Unfolding both sides completely makes the model side explode (the context record is threaded through two
     conditionals), so the model side is executed one `let` at a time, with the regenerated side (flat, scalars only) fully
     unfolded next to it:
     - a real-valued conditional bound by a let of the model (absolute value, clamp, reversal) is the same term on the
       regenerated side: it is replaced by a variable on both sides;
     - a conditional on a record (the two limit tests) or at the head of the model (zero limits, cruise test) is decided by
       cases on its comparisons, which decides the corresponding conditionals of the regenerated side;
     - any other let is substituted after normalising its value (setters and getters of the context record);
     - the walk ends at a result tuple (compared by conversion) or at the loop (tie_bell_loop). *)
  Ltac norm t := eval cbv delta [bell_step b_set_t b_set_tv b_set_ta b_set_td b_set_taj b_set_tdj b_set_p0 b_set_p1 b_set_v0 b_set_v1
                                 b_set_vm b_set_jm b_set_am b_set_dm b_t b_tv b_ta b_td b_taj b_tdj b_p0 b_p1 b_v0 b_v1 b_vm b_jm
                                 b_am b_dm half sixteenth epsilon sat gtb geb] beta iota zeta in t.
  Ltac split_cond c :=
    first [ match c with context [ltb O ?x ?y] => destruct (ltb O x y) end
          | match c with context [leb O ?x ?y] => destruct (leb O x y) end
          | match c with context [eqb O ?x ?y] => destruct (eqb O x y) end ];
    cbn beta iota delta [orb andb negb].
  Ltac loop_leaf :=
    lazymatch goal with |- _ = projB (match bell_loop O ?fuel ?n ?jm ?p ?v0 ?v1 ?c ?am ?ac with LExit _ _ _ => _ | LFail _ _ _ => _ end) =>
      let c' := norm c in
      lazymatch c' with mk_bell ?t ?tv ?ta ?td ?taj ?tdj ?p0 ?p1 ?w0 ?w1 ?vm ?cjm ?cam ?cdm =>
        change c with c';
        rewrite (tie_bell_loop fuel n t tv ta td taj tdj p0 p1 w0 w1 vm cjm cam cdm jm am v0 v1 p ac);
        destruct (bell_loop O fuel n jm p v0 v1 c' am ac); reflexivity
      end
    end.
  Ltac step :=
    lazymatch goal with
    | |- ?L = projB (let x := ?v in @?B x) =>
        let v' := norm v in
        let ty := type of v in
        lazymatch v' with
        | (if ?c then _ else _) =>
            first [ constr_eq ty T; change (L = projB (B v')); let y := fresh "y" in (generalize v'; intro y; cbv beta)
                  | change (L = projB (let x := v' in B x)); split_cond c ]
        | _ => change (L = projB (B v')); cbv beta
        end
    | |- ?L = projB (if ?c then ?a else ?b) =>
        let c' := norm c in change (L = projB (if c' then a else b)); split_cond c'
    | |- _ = projB (match bell_loop _ _ _ _ _ _ _ _ _ _ with LExit _ _ _ => _ | LFail _ _ _ => _ end) => loop_leaf
    | |- _ = projB (_, _, _, _) => reflexivity
    end.

  Theorem tie_a_trajbell_gen : forall fuel t tv ta td taj tdj p0 p1 w0 w1 vm cjm cam cdm jm am vm' q0 q1 v0 v1,
    gen_a_trajbell_gen O fuel t tv ta td taj tdj p0 p1 w0 w1 vm cjm cam cdm jm am vm' q0 q1 v0 v1 =
    projB (bell_gen_b O fuel (mk_bell t tv ta td taj tdj p0 p1 w0 w1 vm cjm cam cdm) jm am vm' q0 q1 v0 v1).
  Proof.
    intros.
    lazymatch goal with |- ?L = ?R =>
      let L' := eval cbv delta [gen_a_trajbell_gen] beta iota zeta in L in change (L' = R) end.
    cbv delta [bell_gen_b] beta.
    repeat (timeout 60 step).
  Qed.

  (* the same statement read from the regenerated side: a result of the regenerated function is the model's context and
     value, not out of fuel; no result is the model out of fuel *)
  Theorem tie_a_trajbell_gen_inv : forall fuel t tv ta td taj tdj p0 p1 w0 w1 vm cjm cam cdm jm am vm' q0 q1 v0 v1,
    let m := bell_gen_b O fuel (mk_bell t tv ta td taj tdj p0 p1 w0 w1 vm cjm cam cdm) jm am vm' q0 q1 v0 v1 in
    match gen_a_trajbell_gen O fuel t tv ta td taj tdj p0 p1 w0 w1 vm cjm cam cdm jm am vm' q0 q1 v0 v1 with
    | Some r => snd (fst m) <> BX_out_of_fuel /\ r = (tupb (fst (fst (fst m))), snd (fst (fst m)))
    | None => snd (fst m) = BX_out_of_fuel
    end.
  Proof.
    intros. rewrite tie_a_trajbell_gen. fold m. unfold projB.
    destruct (snd (fst m)); first [ reflexivity | split; [ discriminate | reflexivity ] ].
  Qed.
End Tie.
