(* Tie between the regenerated a_trajtrap_gen (module Gen.GenTraj) and the hand model trap_gen_b of C14/TrapDefs.v: all twelve
   context fields and the returned duration, for EVERY NumOps instance.  The proof follows the control flow of the planner (the
   early exits and the four planning branches) and only then splits on the conditions of the clamps (A_SAT) and of `reversed`,
   which both sides evaluate on the same terms. *)
From Coq Require Import ZArith Bool.
From LibaV Require Import Common.NumOps C14.TrapDefs.
From Gen Require Import GenTraj.
Section Tie.
  Context {T : Type} (O : NumOps T).
  Definition tupt (c : trap T) := (t_t c, t_p0 c, t_p1 c, t_v0 c, t_v1 c, t_vc c, t_ta c, t_td c, t_pa c, t_pd c, t_ac c, t_de c).
  Definition proj3 (x : trap T * T * trap_branch) := (tupt (fst (fst x)), snd (fst x)).
  Lemma proj3_if (c : bool) a b : proj3 (if c then a else b) = if c then proj3 a else proj3 b.
  Proof. destruct c; reflexivity. Qed.
  Theorem tie_a_trajtrap_gen : forall t p0 p1 v0 v1 vc ta td pa pd ac de vm ac' de' q0 q1 w0 w1,
    gen_a_trajtrap_gen O t p0 p1 v0 v1 vc ta td pa pd ac de vm ac' de' q0 q1 w0 w1 =
    proj3 (trap_gen_b O (mk_trap t p0 p1 v0 v1 vc ta td pa pd ac de) vm ac' de' q0 q1 w0 w1).
  Proof.
    intros.
    cbv delta -[add sub mul div opp abs sqrt ltb leb eqb ofZ ofD fn1 fn2 negb andb orb proj3] beta iota zeta.
    repeat rewrite proj3_if.
    repeat first [ reflexivity
                 | match goal with
                   | |- (if ?c then _ else _) = _ => destruct c
                   | |- _ = (if ?c then _ else _) => destruct c
                   end ].
    all: try reflexivity.
    all: cbv delta [proj3 tupt t_t t_p0 t_p1 t_v0 t_v1 t_vc t_ta t_td t_pa t_pd t_ac t_de fst snd] beta iota; try reflexivity.
    all: repeat (match goal with |- context [if ?c then _ else _] =>
                   lazymatch c with context [if _ then _ else _] => fail | _ => destruct c end end);
         reflexivity.
  Qed.
End Tie.
