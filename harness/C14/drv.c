/* C14 harness: trapezoidal and bell-shaped (double-S) velocity-profile trajectories.
   Doubles travel as 16 hex digits of their bit pattern (common/fharness.h).  One output line per input line.
     tgen c0[12] vm ac de p0 p1 v0 v1   -> ret, then the 12 fields of a_trajtrap after the call (struct order)
     tev  c[12]  x...                   -> pos vel acc for every x
     bgen c0[14] jm am vm p0 p1 v0 v1   -> ret, then the 14 fields of a_trajbell after the call (struct order)
     bev  c[14]  x...                   -> pos vel acc jer for every x
   c0 is the content of the context before the call (the generators leave some fields untouched on failure paths). */
#include "a/trajtrap.h"
#include "a/trajbell.h"
#include "common/fharness.h"

static void load_trap(a_trajtrap *t, double const *a)
{
    t->t = a[0]; t->p0 = a[1]; t->p1 = a[2]; t->v0 = a[3]; t->v1 = a[4]; t->vc = a[5];
    t->ta = a[6]; t->td = a[7]; t->pa = a[8]; t->pd = a[9]; t->ac = a[10]; t->de = a[11];
}
static void dump_trap(a_trajtrap const *t)
{
    put(t->t); put(t->p0); put(t->p1); put(t->v0); put(t->v1); put(t->vc);
    put(t->ta); put(t->td); put(t->pa); put(t->pd); put(t->ac); put(t->de);
}
static void load_bell(a_trajbell *t, double const *a)
{
    t->t = a[0]; t->tv = a[1]; t->ta = a[2]; t->td = a[3]; t->taj = a[4]; t->tdj = a[5];
    t->p0 = a[6]; t->p1 = a[7]; t->v0 = a[8]; t->v1 = a[9]; t->vm = a[10]; t->jm = a[11];
    t->am = a[12]; t->dm = a[13];
}
static void dump_bell(a_trajbell const *t)
{
    put(t->t); put(t->tv); put(t->ta); put(t->td); put(t->taj); put(t->tdj);
    put(t->p0); put(t->p1); put(t->v0); put(t->v1); put(t->vm); put(t->jm);
    put(t->am); put(t->dm);
}

int main(void)
{
    static char line[65536];
    while (fgets(line, sizeof(line), stdin))
    {
        int i;
        double *a = f_arg;
        if (!f_read(line)) { continue; }
        if (!strcmp(f_fn, "tgen") && f_n == 19)
        {
            a_trajtrap t; double r;
            load_trap(&t, a);
            r = a_trajtrap_gen(&t, a[12], a[13], a[14], a[15], a[16], a[17], a[18]);
            put(r); dump_trap(&t);
        }
        else if (!strcmp(f_fn, "tev") && f_n >= 12)
        {
            a_trajtrap t;
            load_trap(&t, a);
            for (i = 12; i < f_n; ++i)
            {
                put(a_trajtrap_pos(&t, a[i])); put(a_trajtrap_vel(&t, a[i])); put(a_trajtrap_acc(&t, a[i]));
            }
        }
        else if (!strcmp(f_fn, "bgen") && f_n == 21)
        {
            a_trajbell t; double r;
            load_bell(&t, a);
            r = a_trajbell_gen(&t, a[14], a[15], a[16], a[17], a[18], a[19], a[20]);
            put(r); dump_bell(&t);
        }
        else if (!strcmp(f_fn, "bev") && f_n >= 14)
        {
            a_trajbell t;
            load_bell(&t, a);
            for (i = 14; i < f_n; ++i)
            {
                put(a_trajbell_pos(&t, a[i])); put(a_trajbell_vel(&t, a[i]));
                put(a_trajbell_acc(&t, a[i])); put(a_trajbell_jer(&t, a[i]));
            }
        }
        else { printf(" bad-line"); }
        printf("\n");
    }
    return 0;
}
