(* Tie between the model REGENERATED from src/trajtrap.c and src/trajbell.c by tools/c2coq.py (module Gen.GenTraj, rewritten on
   every run) and the hand-written models C14/TrapDefs.v, C14/BellDefs.v about which the theorems of Properties_C14.v are
   proved: the seven evaluation functions (position / velocity / acceleration / jerk of a planned context).  Each statement
   holds for EVERY NumOps instance.  a_trajtrap_gen is tied in TieTrapGen.v; a_trajbell_gen (data-dependent loop, translated to a
   Fixpoint on fuel) in TieBellGen.v. *)
From Coq Require Import ZArith Bool.
From LibaV Require Import Common.NumOps C14.TrapDefs C14.BellDefs.
From Gen Require Import GenTraj.

Section Tie.
  Context {T : Type} (O : NumOps T).

  Ltac tie := intros; cbv delta -[add sub mul div opp abs sqrt ltb leb eqb ofZ ofD fn1 fn2 negb andb orb] beta iota zeta;
              repeat (match goal with |- context [if ?c then _ else _] =>
                        lazymatch c with context [if _ then _ else _] => fail | _ => destruct c end end; cbn [negb andb orb fst snd]);
              reflexivity.

  Theorem tie_a_trajtrap_pos : forall t p0 p1 v0 v1 vc ta td pa pd ac de x,
    gen_a_trajtrap_pos O t p0 p1 v0 v1 vc ta td pa pd ac de x = trap_pos O (mk_trap t p0 p1 v0 v1 vc ta td pa pd ac de) x.
  Proof. tie. Qed.
  Theorem tie_a_trajtrap_vel : forall t p0 p1 v0 v1 vc ta td pa pd ac de x,
    gen_a_trajtrap_vel O t p0 p1 v0 v1 vc ta td pa pd ac de x = trap_vel O (mk_trap t p0 p1 v0 v1 vc ta td pa pd ac de) x.
  Proof. tie. Qed.
  Theorem tie_a_trajtrap_acc : forall t p0 p1 v0 v1 vc ta td pa pd ac de x,
    gen_a_trajtrap_acc O t p0 p1 v0 v1 vc ta td pa pd ac de x = trap_acc O (mk_trap t p0 p1 v0 v1 vc ta td pa pd ac de) x.
  Proof. tie. Qed.
  Theorem tie_a_trajbell_pos : forall t tv ta td taj tdj p0 p1 v0 v1 vm jm am dm x,
    gen_a_trajbell_pos O t tv ta td taj tdj p0 p1 v0 v1 vm jm am dm x = bell_pos O (mk_bell t tv ta td taj tdj p0 p1 v0 v1 vm jm am dm) x.
  Proof. tie. Qed.
  Theorem tie_a_trajbell_vel : forall t tv ta td taj tdj p0 p1 v0 v1 vm jm am dm x,
    gen_a_trajbell_vel O t tv ta td taj tdj p0 p1 v0 v1 vm jm am dm x = bell_vel O (mk_bell t tv ta td taj tdj p0 p1 v0 v1 vm jm am dm) x.
  Proof. tie. Qed.
  Theorem tie_a_trajbell_acc : forall t tv ta td taj tdj p0 p1 v0 v1 vm jm am dm x,
    gen_a_trajbell_acc O t tv ta td taj tdj p0 p1 v0 v1 vm jm am dm x = bell_acc O (mk_bell t tv ta td taj tdj p0 p1 v0 v1 vm jm am dm) x.
  Proof. tie. Qed.
  Theorem tie_a_trajbell_jer : forall t tv ta td taj tdj p0 p1 v0 v1 vm jm am dm x,
    gen_a_trajbell_jer O t tv ta td taj tdj p0 p1 v0 v1 vm jm am dm x = bell_jer O (mk_bell t tv ta td taj tdj p0 p1 v0 v1 vm jm am dm) x.
  Proof. tie. Qed.
End Tie.
