(* C18 translator tie, part 4: a_utf_length_ (src/utf.c), the non-validating counter.  It reads the bytes through plain `char`:
   on this platform a byte >= 0x80 is a NEGATIVE value, which c2int carries in Z (`sext 8 c`), with the C's `& 0xFE`, `== 0xFC`
   ... as Z.land / Z.eqb on it and the truth value of the char in the loop condition as `sext 8 c <> 0`; the right operand of
   the `&&` (the read) is evaluated only when the left one holds.  The model (UtfDefs.len2_loop) works on the unsigned byte; a
   256-element sweep (C18.TieLemmas.gstep_eq, sext_zero) shows that both readings decide alike.  Fuel num + 1 as in the model. *)
Set Default Timeout 120.
From Coq Require Import NArith ZArith PeanoNat List Bool Lia.
From LibaV Require Import C18.UtfDefs C18.TieLemmas C19.IntDefs.
From LibaV Require C19.TieLemmas.
From Gen Require UtfGen.
Import ListNotations.
Local Open Scope N_scope.
Module T := LibaV.C19.TieLemmas.

Lemma loop2_model ptr num : Forall (fun c => c < 2 ^ 8) ptr -> forall f str len,
  UtfGen.a_utf_length__loop1 f num ptr len str =
  match len2_loop f (skipn (N.to_nat str) ptr) (N.of_nat (length (skipn (N.to_nat str) ptr))) num str len with
  | NRet l (Some p) => Some (l, p)
  | _ => None
  end.
Proof.
  intros Fp. induction f as [|f IH]; intros str len; [reflexivity|].
  cbn [UtfGen.a_utf_length__loop1 len2_loop].
  rewrite rd_load, load_skipn, N2Nat.id, N.add_0_r. change UtfGen.load with T.load. change UtfGen.sext with sext.
  destruct (str <? num); [|reflexivity].
  destruct (T.load ptr str) as [c|] eqn:L; [|reflexivity].
  assert (Hc : c < 256) by (rewrite Forall_forall in Fp; apply Fp; eapply nth_error_In; exact L).
  rewrite (sext_zero c Hc). destruct (c =? 0); [reflexivity|]. cbn [negb]. cbv zeta.
  rewrite <- (gstep_eq c Hc). unfold gstep.
  assert (S : forall k, skipn (N.to_nat k) (skipn (N.to_nat str) ptr) = skipn (N.to_nat (str + k)) ptr)
    by (intros k; rewrite skipn_add, <- N2Nat.inj_add; reflexivity).
  assert (A : forall k, N.of_nat (length (skipn (N.to_nat str) ptr)) - k = N.of_nat (length (skipn (N.to_nat (str + k)) ptr)))
    by (intros k; rewrite !skipn_length; lia).
  repeat (destruct (Z.eqb (Z.land (sext 8 c) _) _); [rewrite S, A; apply IH|]).
  rewrite S, A. apply IH.
Qed.

Lemma len2_loop_stop : forall f s avail num pos len l, len2_loop f s avail num pos len <> NRet l None.
Proof.
  induction f as [|f IH]; intros s avail num pos len l; [discriminate|].
  cbn [len2_loop]. destruct (pos <? num); [|discriminate].
  destruct (rd s avail 0) as [c|]; [|discriminate]. destruct (c =? 0); [discriminate|]. apply IH.
Qed.

(* exactly the bytes of s are available; num is whatever the caller says *)
Theorem tie_a_utf_length__gen : forall s num, Forall (fun c => c < 2 ^ 8) s -> num < 2 ^ 64 ->
  UtfGen.a_utf_length_ s num =
  len2_of (match len2_loop (S (N.to_nat num)) s (N.of_nat (length s)) num 0 0 with
           | NRet l (Some p) => NRet (if num <? p then (l + SZ - 1) mod SZ else l) None
           | r => r
           end).
Proof.
  intros s num Fs _. unfold UtfGen.a_utf_length_. cbv zeta. rewrite (loop2_model s num Fs).
  change (skipn (N.to_nat 0) s) with s.
  destruct (len2_loop (S (N.to_nat num)) s (N.of_nat (length s)) num 0 0) as [| |l [p|]] eqn:E; try reflexivity.
  exfalso. exact (len2_loop_stop _ _ _ _ _ _ _ E).
Qed.

Theorem tie_a_utf_length_ : forall s, Forall (fun c => c < 2 ^ 8) s -> N.of_nat (length s) < 2 ^ 64 ->
  UtfGen.a_utf_length_ s (N.of_nat (length s)) = len2_of (a_utf_length_ s (N.of_nat (length s))).
Proof. intros s Fs H. exact (tie_a_utf_length__gen s _ Fs H). Qed.
