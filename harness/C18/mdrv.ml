(* C18 model driver: the extracted Gallina model (Utf) on the same case file as drv.c,
   printing the same canonical lines.  Only glue: integer/list conversion, parsing, printing. *)
open Utf

let rec pos_of_int i = if i = 1 then XH else if i land 1 = 1 then XI (pos_of_int (i lsr 1)) else XO (pos_of_int (i lsr 1))
let n_of_int i = if i = 0 then N0 else Npos (pos_of_int i)
let rec int_of_pos = function XH -> 1 | XO p -> 2 * int_of_pos p | XI p -> 2 * int_of_pos p + 1
let int_of_n = function N0 -> 0 | Npos p -> int_of_pos p

let rec repeat x k = if k = 0 then [] else x :: repeat x (k - 1)

let unhex h =
  if h = "-" then []
  else begin
    let n = String.length h / 2 in
    let rec go i acc = if i < 0 then acc else go (i - 1) (n_of_int (int_of_string ("0x" ^ String.sub h (2 * i) 2)) :: acc) in
    go (n - 1) []
  end

let hex_cells buf prefill cells =
  if cells = [] then Buffer.add_char buf '-'
  else List.iter (fun c -> Buffer.add_string buf (Printf.sprintf "%02X" (match c with Some v -> int_of_n v | None -> prefill))) cells

let hex_bytes buf l =
  if l = [] then Buffer.add_char buf '-'
  else List.iter (fun v -> Buffer.add_string buf (Printf.sprintf "%02X" (int_of_n v))) l

let pval buf = function None -> Buffer.add_char buf '-' | Some v -> Buffer.add_string buf (string_of_int (int_of_n v))

let rec firstn k l = if k = 0 then [] else match l with [] -> [] | x :: t -> x :: firstn (k - 1) t
let rec skip k l = if k = 0 then l else match l with [] -> [] | _ :: t -> skip (k - 1) t

(* "<ret> <val>" of a decode result *)
let pdres buf = function
  | DOver -> Buffer.add_string buf "OVER -"
  | DFuel -> Buffer.add_string buf "FUEL -"
  | DRet (r, v) -> Buffer.add_string buf (string_of_int (int_of_n r)); Buffer.add_char buf ' '; pval buf v

let pret buf = function
  | DOver -> Buffer.add_string buf "OVER"
  | DFuel -> Buffer.add_string buf "FUEL"
  | DRet (r, _) -> Buffer.add_string buf (string_of_int (int_of_n r))

let do_E buf v =
  let nv = n_of_int v in
  match a_utf_encode nv None with
  | EOver -> Buffer.add_string buf "E OVERWRITE"
  | ERet (n0, _) ->
    let n0i = int_of_n n0 in
    (match a_utf_encode nv (Some (repeat None n0i)) with
     | EOver -> Buffer.add_string buf (Printf.sprintf "E %d OVERWRITE" n0i)
     | ERet (n, None) -> Buffer.add_string buf (Printf.sprintf "E %d %d NOBUF" n0i (int_of_n n))
     | ERet (n, Some cells) ->
       Buffer.add_string buf (Printf.sprintf "E %d %d " n0i (int_of_n n));
       hex_cells buf 0x00 cells; Buffer.add_char buf ' '; hex_cells buf 0xFF cells)

let do_R buf v =
  let nv = n_of_int v in
  match a_utf_encode nv (Some (repeat None 6)) with
  | EOver | ERet (_, None) -> Buffer.add_string buf "R OVERWRITE"
  | ERet (n, Some cells) ->
    let ni = min 6 (int_of_n n) in
    (* the driver memset the scratch buffer to 0 before the call *)
    let enc = List.map (function Some b -> b | None -> N0) (firstn ni cells) in
    Buffer.add_string buf (Printf.sprintf "R %d " ni);
    hex_bytes buf enc;
    Buffer.add_char buf ' ';
    pdres buf (decode enc (n_of_int ni) true);
    Buffer.add_char buf ' ';
    pret buf (decode enc (n_of_int ni) false);
    Buffer.add_string buf " |";
    for k = 0 to ni - 1 do
      Buffer.add_char buf ' ';
      pdres buf (decode (firstn k enc) (n_of_int k) true)
    done;
    Buffer.add_string buf " | ";
    pdres buf (decode (enc @ [n_of_int 0xBF]) (n_of_int (ni + 1)) true)

let do_D buf num h want =
  let s = unhex h in
  Buffer.add_string buf "D ";
  pdres buf (decode s (n_of_int num) (want <> 0))

let do_L buf num h =
  let s = unhex h in
  let nn = n_of_int num in
  let pn = function
    | NOver -> "OVER" | NFuel -> "FUEL"
    | NRet (l, _) -> string_of_int (int_of_n l) in
  let r1 = a_utf_length s nn true in
  (match r1 with
   | NRet (l, Some st) -> Buffer.add_string buf (Printf.sprintf "L %d %d " (int_of_n l) (int_of_n st))
   | NRet (l, None) -> Buffer.add_string buf (Printf.sprintf "L %d NOSTOP " (int_of_n l))
   | r -> Buffer.add_string buf (Printf.sprintf "L %s - " (pn r)));
  Buffer.add_string buf (pn (a_utf_length s nn false));
  Buffer.add_char buf ' ';
  Buffer.add_string buf (pn (a_utf_length_ s nn));
  Buffer.add_string buf " |";
  let rec chain pos s =
    let left = num - pos in
    let r = a_utf_decode s (n_of_int left) (n_of_int left) false in
    Buffer.add_char buf ' ';
    pret buf r;
    match r with
    | DRet (r, _) -> let ri = int_of_n r in if ri = 0 || ri > left then () else chain (pos + ri) (skip ri s)
    | _ -> () in
  chain 0 s

let () =
  let out = Buffer.create 65536 in
  (try
     while true do
       let line = input_line stdin in
       let line = String.trim line in
       if line <> "" then begin
         (match String.split_on_char ' ' line with
          | ["E"; v] -> do_E out (int_of_string v)
          | ["R"; v] -> do_R out (int_of_string v)
          | ["D"; num; h; want] -> do_D out (int_of_string num) h (int_of_string want)
          | ["L"; num; h] -> do_L out (int_of_string num) h
          | _ -> Buffer.add_string out ("? " ^ line));
         Buffer.add_char out '\n';
         if Buffer.length out > 60000 then begin print_string (Buffer.contents out); Buffer.clear out end
       end
     done
   with End_of_file -> ());
  print_string (Buffer.contents out)
