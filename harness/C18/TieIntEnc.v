(* C18 translator tie, part 1: a_utf_encode (src/utf.c).
   Gen.UtfGen is REGENERATED from the current sources by tools/c2int.py on every run: the range ladder as nested lets of
   (mask, offset), the fall-through switch as one arm per case label, every `str[k] = ...` a checked store into the byte
   list.  The model (coq/C18/UtfDefs.v) writes cells `option N`; for a buffer whose cells hold the bytes b the model's result
   is the image (TieLemmas.enc_of) of what the regenerated function returns - for every val and every buffer, too short
   ones included (both sides fail on the same store). *)
Set Default Timeout 120.
From Coq Require Import NArith List Bool Lia.
From LibaV Require Import C18.UtfDefs C18.TieLemmas C19.IntDefs.
From LibaV Require C19.TieLemmas.
From Gen Require UtfGen.
Import ListNotations.
Local Open Scope N_scope.
Module T := LibaV.C19.TieLemmas.

(* one store of the fall-through switch: the model's innermost pending `put` against the generated `store` *)
Ltac one_store :=
  rewrite put_store;
  lazymatch goal with
  | |- context [T.upd ?l ?i ?v] => destruct (T.upd l i v); cbn [option_map]; [|reflexivity]
  end.

Ltac norm :=
  cbv beta iota zeta delta [UtfGen.store]; change UtfGen.upd with T.upd;
  repeat match goal with
  | |- context [N.to_nat ?e] => let v := eval vm_compute in (N.to_nat e) in progress change (N.to_nat e) with v
  end;
  unfold cont_byte, as_byte, UtfGen.wrap; change (2 ^ 8) with 256.

Theorem tie_a_utf_encode : forall val b, val < 2 ^ 32 -> Forall (fun c => c < 2 ^ 8) b ->
  a_utf_encode val (Some (map Some b)) = enc_of (UtfGen.a_utf_encode val false b).
Proof.
  intros val b _ _. unfold a_utf_encode, UtfGen.a_utf_encode, enc_ladder.
  cbv zeta. set (x := N.land val 0x7FFFFFFF).
  destruct (x <? 0x10000); [destruct (x <? 0x800); [destruct (x <? 128); [destruct (0 <? x)|]|]|
                             destruct (x <? 0x200000); [|destruct (x <? 0x4000000)]];
    cbv beta iota; cbn [N.eqb Pos.eqb]; unfold enc_switch, sw6, sw5, sw4, sw3, sw2, sw1; cbv beta iota; norm; repeat one_store; reflexivity.
Qed.

(* buf == NULL: only the length is computed; the (absent) buffer parameter is handed back untouched *)
Theorem tie_a_utf_encode_null : forall val b, val < 2 ^ 32 ->
  a_utf_encode val None = enc_null_of (UtfGen.a_utf_encode val true b) /\
  (forall r, UtfGen.a_utf_encode val true b = Some r -> snd r = b).
Proof.
  intros val b _. unfold a_utf_encode, UtfGen.a_utf_encode, enc_ladder.
  cbv zeta. set (x := N.land val 0x7FFFFFFF).
  destruct (x <? 0x10000); [destruct (x <? 0x800); [destruct (x <? 128); [destruct (0 <? x)|]|]|
                             destruct (x <? 0x200000); [|destruct (x <? 0x4000000)]];
    cbv beta iota; (split; [reflexivity|intros r E; injection E as <-; reflexivity]).
Qed.
