/* C18 search oracle on the C side: the property itself, evaluated on the implementation for every
   code point of a range (no model involved).

     sweep <lo> <hi> <step>

   for v = lo, lo+step, ... < hi (1 <= v < 2^31):
     - a_utf_encode(v, NULL) and a_utf_encode(v, buf) return the table's length,
     - the stored bytes are the table's bytes (independent reference below), nothing behind them is written,
     - a_utf_decode on them returns that length and v (with and without val, and with a trailing byte),
     - a_utf_decode on every proper prefix returns 0.
   All buffers end flush against a PROT_NONE page.  Output: up to 20 lines  FAIL <v> <reason>,
   then  DONE <checked> <failures>;   CRASH <v>  on SIGSEGV.  */
#define _GNU_SOURCE
#include "a/utf.h"
#include <signal.h>
#include <stdio.h>
#include <stdlib.h>
#include <string.h>
#include <sys/mman.h>
#include <unistd.h>

static unsigned char *guard;
static volatile unsigned long cur;

static void on_segv(int sig)
{
    char msg[64];
    int n;
    (void)sig;
    fflush(stdout);
    n = snprintf(msg, sizeof(msg), "CRASH %lu\n", cur);
    if (n > 0) { (void)!write(1, msg, (size_t)n); }
    _exit(3);
}

static unsigned int ref_len(unsigned long v)
{
    if (v < 0x80) { return 1; }
    if (v < 0x800) { return 2; }
    if (v < 0x10000) { return 3; }
    if (v < 0x200000) { return 4; }
    if (v < 0x4000000) { return 5; }
    return 6;
}

static void ref_enc(unsigned long v, unsigned int n, unsigned char *o)
{
    static unsigned char const lead[7] = {0, 0, 0xC0, 0xE0, 0xF0, 0xF8, 0xFC};
    unsigned int i;
    if (n == 1)
    {
        o[0] = (unsigned char)v;
        return;
    }
    for (i = n - 1; i > 0; --i)
    {
        o[i] = (unsigned char)(0x80 + v % 64);
        v /= 64;
    }
    o[0] = (unsigned char)(lead[n] + v);
}

/* byte loops instead of libc mem* : the vectorised routines take slow paths next to a page end */
static void cpy(unsigned char *d, unsigned char const *s, unsigned int n)
{
    unsigned int i;
    for (i = 0; i < n; ++i) { ((volatile unsigned char *)d)[i] = s[i]; }
}
static int differ(unsigned char const *a, unsigned char const *b, unsigned int n)
{
    unsigned int i;
    for (i = 0; i < n; ++i)
    {
        if (a[i] != b[i]) { return 1; }
    }
    return 0;
}

static unsigned long nfail = 0;
static void fail(unsigned long v, char const *why)
{
    if (nfail < 20) { printf("FAIL %lu %s\n", v, why); }
    ++nfail;
}

int main(int argc, char **argv)
{
    unsigned long lo, hi, step, v, checked = 0;
    unsigned char *region;
    struct sigaction sa;
    if (argc < 4) { return 2; }
    lo = strtoul(argv[1], NULL, 10);
    hi = strtoul(argv[2], NULL, 10);
    step = strtoul(argv[3], NULL, 10);
    if (!step) { step = 1; }
    region = (unsigned char *)mmap(NULL, 2 * 4096, PROT_READ | PROT_WRITE, MAP_PRIVATE | MAP_ANONYMOUS, -1, 0);
    if (region == MAP_FAILED) { return 2; }
    guard = region + 4096;
    if (mprotect(guard, 4096, PROT_NONE)) { return 2; }
    memset(&sa, 0, sizeof(sa));
    sa.sa_handler = on_segv;
    sigaction(SIGSEGV, &sa, NULL);
    sigaction(SIGBUS, &sa, NULL);

    for (v = lo; v < hi; v += step)
    {
        unsigned char ref[8], enc[8];
        unsigned int n = ref_len(v), n0, n1, k, r;
        unsigned char *p;
        a_u32 val;
        if (v == 0 || v >= 0x80000000UL) { continue; }
        cur = v;
        ++checked;
        ref_enc(v, n, ref);
        n0 = a_utf_encode((a_u32)v, NULL);
        if (n0 != n)
        {
            fail(v, "encode(NULL) length differs from the table");
            continue;
        }
        /* 16-byte field, sentinel 0xA5 after the n bytes, end flush against the guard */
        p = guard - n;
        for (k = 0; k < 16; ++k) { ((volatile unsigned char *)guard)[-16 + (int)k] = 0xA5; }
        n1 = a_utf_encode((a_u32)v, p);
        if (n1 != n)
        {
            fail(v, "encode length differs from the table");
            continue;
        }
        if (differ(p, ref, n))
        {
            fail(v, "encoded bytes differ from the table");
            continue;
        }
        for (k = 0; k < 16 - n; ++k)
        {
            if (guard[-16 + (int)k] != 0xA5)
            {
                fail(v, "encode wrote before the buffer");
                break;
            }
        }
        cpy(enc, p, n);
        val = 0xFFFFFFFFu;
        r = a_utf_decode(p, n, &val);
        if (r != n || val != v)
        {
            fail(v, "decode(encode(v)) does not return (len, v)");
            continue;
        }
        if (a_utf_decode(p, n, NULL) != n)
        {
            fail(v, "decode(encode(v), NULL) does not return len");
            continue;
        }
        for (k = 0; k < n; ++k)
        {
            unsigned char *q = guard - k;
            cpy(q, enc, k);
            val = 0xFFFFFFFFu;
            if (a_utf_decode(q, k, &val) != 0)
            {
                fail(v, "a proper prefix was decoded");
                break;
            }
        }
        {
            unsigned char *q = guard - (n + 1);
            cpy(q, enc, n);
            q[n] = 0x80;
            val = 0xFFFFFFFFu;
            r = a_utf_decode(q, n + 1, &val);
            if (r != n || val != v) { fail(v, "decode with a trailing byte differs"); }
        }
    }
    printf("DONE %lu %lu\n", checked, nfail);
    return 0;
}
