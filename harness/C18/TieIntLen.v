(* C18 translator tie, part 3: a_utf_length (src/utf.c): one decode, then `for (; offset; offset = a_utf_decode(...))` as a
   Fixpoint with fuel num + 1 (the model's own) calling the regenerated decoder on `skipn str ptr`. *)
Set Default Timeout 120.
From Coq Require Import NArith PeanoNat List Bool Lia.
From LibaV Require Import C18.UtfDefs C18.UtfDecTheorems C18.TieLemmas C19.IntDefs.
From LibaV Require C19.TieLemmas.
From Gen Require UtfGen TieIntDec.
Import ListNotations.
Local Open Scope N_scope.
Module T := LibaV.C19.TieLemmas.

(* with val == NULL the model's decoder never reports a stored value *)
Lemma decode_nowant s avail num r v : a_utf_decode s avail num false = DRet r v -> v = None.
Proof.
  unfold a_utf_decode. destruct (num =? 0); [intros E; injection E as _ <-; reflexivity|].
  destruct (rd s avail 0) as [chr|]; [|discriminate].
  destruct (chr <? 128); [intros E; injection E as _ <-; reflexivity|].
  destruct (dec_loop_nul _ _ _ _ _ _); try discriminate; intros E; injection E as _ <-; reflexivity.
Qed.

(* one decode at str followed by the generated loop, as the C's `offset = a_utf_decode(str, num, NULL); for (; offset; ...)` *)
Definition walk_from (f : nat) (ptr : list N) (str num len : N) : option (N * N * N * N) :=
  match UtfGen.a_utf_decode (skipn (N.to_nat str) ptr) num true [] with
  | None => None
  | Some (r, _) => UtfGen.a_utf_length_loop1 f ptr num len str r
  end.

Lemma walk_from_model (w : bool) ptr : Forall (fun c => c < 2 ^ 8) ptr -> forall f str num len, num < 2 ^ 64 ->
  match walk_from f ptr str num len with
  | Some (_, len', str', _) => Some (len', if w then Some str' else None)
  | None => None
  end =
  match len_loop f (skipn (N.to_nat str) ptr) (N.of_nat (length (skipn (N.to_nat str) ptr))) num str len w with
  | NRet n k => Some (n, k)
  | NOver | NFuel => None
  end.
Proof.
  intros Fp. induction f as [|f IH]; intros str num len Hnum; unfold walk_from.
  - cbn [len_loop UtfGen.a_utf_length_loop1]. destruct (UtfGen.a_utf_decode _ _ _ _) as [[r o]|]; reflexivity.
  - rewrite (TieIntDec.tie_a_utf_decode (skipn (N.to_nat str) ptr) num false [] (bytes_ok_skipn _ _ Fp) Hnum
              : UtfGen.a_utf_decode _ num true [] = _).
    cbn [len_loop].
    destruct (a_utf_decode (skipn (N.to_nat str) ptr) _ num false) as [| |off v] eqn:D; try reflexivity.
    rewrite (decode_nowant _ _ _ _ _ D). cbn [dec_of UtfGen.a_utf_length_loop1].
    destruct (off =? 0); [reflexivity|]. cbv zeta.
    specialize (IH (str + off) (UtfGen.wrap 64 (num + 0x10000000000000000 - off)) (UtfGen.wrap 64 (len + 1))).
    unfold walk_from in IH. rewrite IH by (apply T.wrap_lt).
    rewrite skipn_add, <- N2Nat.inj_add.
    replace (N.of_nat (length (skipn (N.to_nat str) ptr)) - off) with (N.of_nat (length (skipn (N.to_nat (str + off)) ptr)))
      by (rewrite !skipn_length; lia).
    reflexivity.
Qed.

(* exactly the bytes of s are available; num is whatever the caller says (the API case num = length s below) *)
Theorem tie_a_utf_length_gen : forall s num w stop, Forall (fun c => c < 2 ^ 8) s -> num < 2 ^ 64 ->
  UtfGen.a_utf_length s num (negb w) stop =
  len_of stop (len_loop (S (N.to_nat num)) s (N.of_nat (length s)) num 0 0 w).
Proof.
  intros s num w stop Fs Hnum.
  pose proof (walk_from_model w s Fs (S (N.to_nat num)) 0 num 0 Hnum) as G.
  unfold walk_from in G. change (skipn (N.to_nat 0) s) with s in G.
  unfold UtfGen.a_utf_length. cbv zeta. change (skipn (N.to_nat 0) s) with s.
  destruct (UtfGen.a_utf_decode s num true []) as [[r o]|].
  - destruct (UtfGen.a_utf_length_loop1 (S (N.to_nat num)) s num 0 0 r) as [[[[n2 l2] s2] o2]|];
      destruct (len_loop (S (N.to_nat num)) s (N.of_nat (length s)) num 0 0 w) as [| |n k]; try discriminate G; try reflexivity.
    injection G as <- <-. destruct w; cbn [negb len_of]; [|reflexivity].
    destruct stop as [|s0 st]; reflexivity.
  - destruct (len_loop (S (N.to_nat num)) s (N.of_nat (length s)) num 0 0 w) as [| |n k]; try discriminate G; reflexivity.
Qed.

Theorem tie_a_utf_length : forall s w stop, Forall (fun c => c < 2 ^ 8) s -> N.of_nat (length s) < 2 ^ 64 ->
  UtfGen.a_utf_length s (N.of_nat (length s)) (negb w) stop = len_of stop (a_utf_length s (N.of_nat (length s)) w).
Proof. intros s w stop Fs H. exact (tie_a_utf_length_gen s _ w stop Fs H). Qed.
