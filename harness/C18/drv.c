/* C18 correspondence driver: runs a_utf_encode / a_utf_decode / a_utf_length / a_utf_length_
   from the CURRENT $VERIF_REPO/src/utf.c on a case file (stdin) and prints one canonical line per
   case (same format as harness/C18/mdrv.ml, the driver of the extracted model).

   Every buffer handed to the library ends flush against a PROT_NONE page, with exactly the stated
   number of bytes readable/writable: an over-read or over-write of a single byte is a SIGSEGV,
   which is reported as   CRASH <case-index> <case line>   (exit code 3).

   case lines
     E <val>                    encode: size query with buf=NULL, then into a buffer of that size
     R <val>                    round trip: encode, decode all, decode NULL, every proper prefix, +1 trailing byte
     D <num> <hex|-> <want>     decode of the given bytes (buffer = exactly those bytes), val wanted or NULL
     L <num> <hex|->            a_utf_length (stop / NULL), a_utf_length_, and the chain of a_utf_decode reports
*/
#define _GNU_SOURCE
#include "a/utf.h"
#include <signal.h>
#include <stdio.h>
#include <stdlib.h>
#include <string.h>
#include <sys/mman.h>
#include <unistd.h>

#define PAGE 4096u
#define NPAGES 4u
static unsigned char *region; /* NPAGES rw pages followed by one PROT_NONE page */
static unsigned char *guard;
static long case_index = 0;
static char line[70000];
static char cur[70000];

/* the line of the current case is assembled here and printed when the case is complete */
static char ob[200000];
static size_t on = 0;
#define OUT(...) (on += (size_t)snprintf(ob + on, sizeof(ob) - on, __VA_ARGS__))

static void on_segv(int sig)
{
    char msg[256];
    int n;
    (void)sig;
    fflush(stdout);
    n = snprintf(msg, sizeof(msg), "CRASH %ld %.200s\n", case_index, cur);
    if (n > 0) { (void)!write(1, msg, (size_t)n); }
    _exit(3);
}

/* a buffer of exactly n bytes whose end is the guard page */
static unsigned char *flush_buf(size_t n)
{
    if (n > NPAGES * PAGE)
    {
        fprintf(stderr, "buffer too large\n");
        exit(2);
    }
    return guard - n;
}

static size_t unhex(char const *h, unsigned char *out)
{
    size_t n = 0;
    if (h[0] == '-') { return 0; }
    while (h[0] && h[1])
    {
        unsigned int b;
        sscanf(h, "%2x", &b);
        out[n++] = (unsigned char)b;
        h += 2;
    }
    return n;
}

static void hex(unsigned char const *p, size_t n)
{
    size_t i;
    if (!n) { OUT("-"); }
    for (i = 0; i < n; ++i) { OUT("%02X", p[i]); }
}

#define SENT 0xFFFFFFFFu
static void pval(a_u32 v)
{
    if (v == SENT) { OUT("-"); }
    else { OUT("%lu", (unsigned long)v); }
}

static unsigned char tmp[NPAGES * PAGE];

int main(void)
{
    struct sigaction sa;
    region = (unsigned char *)mmap(NULL, (NPAGES + 1) * PAGE, PROT_READ | PROT_WRITE, MAP_PRIVATE | MAP_ANONYMOUS, -1, 0);
    if (region == MAP_FAILED) { return 2; }
    guard = region + NPAGES * PAGE;
    if (mprotect(guard, PAGE, PROT_NONE)) { return 2; }
    memset(&sa, 0, sizeof(sa));
    sa.sa_handler = on_segv;
    sigaction(SIGSEGV, &sa, NULL);
    sigaction(SIGBUS, &sa, NULL);

    while (fgets(line, sizeof(line), stdin))
    {
        char op;
        size_t ll = strlen(line);
        while (ll && (line[ll - 1] == '\n' || line[ll - 1] == '\r')) { line[--ll] = 0; }
        if (!ll) { continue; }
        strcpy(cur, line);
        on = 0;
        ob[0] = 0;
        op = line[0];
        if (op == 'E')
        {
            unsigned long v = strtoul(line + 2, NULL, 10);
            unsigned int n0 = a_utf_encode((a_u32)v, NULL);
            unsigned char *p = flush_buf(n0);
            unsigned int n;
            memset(p, 0x00, n0);
            n = a_utf_encode((a_u32)v, p);
            OUT("E %u %u ", n0, n);
            hex(p, n0);
            memset(p, 0xFF, n0);
            n = a_utf_encode((a_u32)v, p);
            OUT(" ");
            hex(p, n0);
            OUT("\n");
        }
        else if (op == 'R')
        {
            unsigned long v = strtoul(line + 2, NULL, 10);
            unsigned char enc[8];
            unsigned char *s6 = flush_buf(6);
            unsigned int n, k, r, rn;
            a_u32 val;
            memset(s6, 0, 6);
            n = a_utf_encode((a_u32)v, s6);
            if (n > 6) { n = 6; }
            memcpy(enc, s6, n);
            OUT("R %u ", n);
            hex(enc, n);
            {
                unsigned char *p = flush_buf(n);
                memcpy(p, enc, n);
                val = SENT;
                r = a_utf_decode(p, n, &val);
                rn = a_utf_decode(p, n, NULL);
                OUT(" %u ", r);
                pval(val);
                OUT(" %u |", rn);
            }
            for (k = 0; k < n; ++k)
            {
                unsigned char *p = flush_buf(k);
                memcpy(p, enc, k);
                val = SENT;
                r = a_utf_decode(p, k, &val);
                OUT(" %u ", r);
                pval(val);
            }
            {
                unsigned char *p = flush_buf(n + 1);
                memcpy(p, enc, n);
                p[n] = 0xBF;
                val = SENT;
                r = a_utf_decode(p, n + 1, &val);
                OUT(" | %u ", r);
                pval(val);
            }
            OUT("\n");
        }
        else if (op == 'D')
        {
            char *q = line + 2;
            unsigned long num = strtoul(q, &q, 10);
            char *h;
            int want;
            size_t n;
            unsigned char *p;
            unsigned int r;
            a_u32 val = SENT;
            while (*q == ' ') { ++q; }
            h = q;
            while (*q && *q != ' ') { ++q; }
            if (*q) { *q++ = 0; }
            want = atoi(q);
            n = unhex(h, tmp);
            p = flush_buf(n);
            memcpy(p, tmp, n);
            r = a_utf_decode(p, (a_size)num, want ? &val : NULL);
            OUT("D %u ", r);
            pval(val);
            OUT("\n");
        }
        else if (op == 'L')
        {
            char *q = line + 2;
            unsigned long num = strtoul(q, &q, 10);
            size_t n, pos;
            unsigned char *p;
            a_size stop = (a_size)-1, len1, len2, len3;
            while (*q == ' ') { ++q; }
            n = unhex(q, tmp);
            p = flush_buf(n);
            memcpy(p, tmp, n);
            len1 = a_utf_length(p, (a_size)num, &stop);
            len2 = a_utf_length(p, (a_size)num, NULL);
            len3 = a_utf_length_(p, (a_size)num);
            OUT("L %lu %lu %lu %lu |", (unsigned long)len1, (unsigned long)stop, (unsigned long)len2, (unsigned long)len3);
            /* the chain of lengths the decoder itself reports (driver-side loop) */
            pos = 0;
            for (;;)
            {
                unsigned int r = a_utf_decode(p + pos, (a_size)(num - pos), NULL);
                OUT(" %u", r);
                if (!r || r > num - pos) { break; }
                pos += r;
            }
            OUT("\n");
        }
        else
        {
            OUT("? %s\n", line);
        }
        fputs(ob, stdout);
        fflush(stdout); /* a sanitizer abort must not lose the lines of completed cases */
        on = 0;
        ob[0] = 0;
        ++case_index;
    }
    fflush(stdout);
    return 0;
}
