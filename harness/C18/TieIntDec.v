(* C18 translator tie, part 2: a_utf_decode (src/utf.c), both branches (val != NULL, val == NULL).
   The two `for (; chr & 0x40; chr <<= 1)` loops become Fixpoints with fuel 8 (= dec_fuel of the model) that return
   inl (str, chr[, code]) when left normally and inr (function result) for the `return 0` inside; reads are checked loads.
   With exactly the bytes of s available (the model's ghost avail = length s) and ANY num, the regenerated function returns
   the reading (TieLemmas.dec_of) of the model's result: same return value, same stored *val, failure on the same reads. *)
Set Default Timeout 120.
From Coq Require Import NArith List Bool Lia.
From LibaV Require Import C18.UtfDefs C18.TieLemmas C19.IntDefs.
From LibaV Require C19.TieLemmas.
From Gen Require UtfGen.
Import ListNotations.
Local Open Scope N_scope.
Module T := LibaV.C19.TieLemmas.

(* how a result of the model's continuation-byte loops reads as a result of the generated ones:
   inl = the loop was left normally with these variables, inr = `return 0` inside the loop (with *val untouched) *)
Definition lres_of1 (val : list N) (r : lres) : option ((N * N * N) + (N * list N)) :=
  match r with
  | LDone chr i code => Some (inl (i, chr, code))
  | LFail => Some (inr (0, val))
  | LOver | LFuel => None
  end.
Definition lres_of2 (val : list N) (r : lres) : option ((N * N) + (N * list N)) :=
  match r with
  | LDone chr i _ => Some (inl (i, chr))
  | LFail => Some (inr (0, val))
  | LOver | LFuel => None
  end.

Lemma dec_loop1 : forall fuel s nul val i chr code,
  UtfGen.a_utf_decode_loop1 fuel nul s val i chr code = lres_of1 val (dec_loop_val fuel s (N.of_nat (length s)) nul chr i code).
Proof.
  induction fuel as [|f IH]; intros s nul val i chr code; [reflexivity|].
  cbn [UtfGen.a_utf_decode_loop1 dec_loop_val]. cbv zeta.
  destruct (N.land chr 64 =? 0); [reflexivity|].
  rewrite rd_load. change UtfGen.load with T.load.
  destruct (i + 1 <? nul).
  - destruct (T.load s (i + 1)) as [c|]; [|reflexivity].
    destruct (N.land c 192 =? 128); [apply IH|reflexivity].
  - destruct (N.land 0 192 =? 128); [apply IH|reflexivity].
Qed.

Lemma dec_loop2 : forall fuel s nul val i chr,
  UtfGen.a_utf_decode_loop2 fuel nul s val i chr = lres_of2 val (dec_loop_nul fuel s (N.of_nat (length s)) nul chr i).
Proof.
  induction fuel as [|f IH]; intros s nul val i chr; [reflexivity|].
  cbn [UtfGen.a_utf_decode_loop2 dec_loop_nul]. cbv zeta.
  destruct (N.land chr 64 =? 0); [reflexivity|].
  rewrite rd_load. change UtfGen.load with T.load.
  destruct (i + 1 <? nul).
  - destruct (T.load s (i + 1)) as [c|]; [|reflexivity].
    destruct (N.land c 192 =? 128); [apply IH|reflexivity].
  - destruct (N.land 0 192 =? 128); [apply IH|reflexivity].
Qed.

(* the loop leaves with str - ptr <= 5: every step needs str + 1 < nul <= 6 *)
Lemma dec_loop_val_pos : forall fuel s avail nul chr i code chr' i' code',
  dec_loop_val fuel s avail nul chr i code = LDone chr' i' code' -> nul <= 6 -> i <= 5 -> i' <= 5.
Proof.
  induction fuel as [|f IH]; intros s avail nul chr i code chr' i' code' E Hn Hi; [discriminate|].
  cbn [dec_loop_val] in E. cbv zeta in E.
  destruct (N.land chr 64 =? 0); [injection E as _ <- _; exact Hi|].
  destruct (i + 1 <? nul) eqn:L.
  - apply N.ltb_lt in L. destruct (rd s avail (i + 1)) as [c|]; [|discriminate].
    destruct (N.land c 192 =? 128); [|discriminate]. eapply IH; [exact E|exact Hn|lia].
  - destruct (N.land 0 192 =? 128) eqn:Z; [discriminate Z|discriminate].
Qed.

Lemma small_mul5 i : i <= 5 -> wrap 32 (wrap 32 i * 5) = i mod U32 * 5 /\ i mod U32 * 5 < 32.
Proof.
  intros H. rewrite <- wrap32_U32. rewrite (T.wrap_small 32 i) by (eapply N.le_lt_trans; [exact H|reflexivity]).
  split; [apply T.wrap_small; eapply N.le_lt_trans; [apply N.mul_le_mono_r; exact H|reflexivity]|].
  eapply N.le_lt_trans; [apply N.mul_le_mono_r; exact H|reflexivity].
Qed.

Theorem tie_a_utf_decode : forall s num want val, Forall (fun c => c < 2 ^ 8) s -> num < 2 ^ 64 ->
  UtfGen.a_utf_decode s num (negb want) val = dec_of val (a_utf_decode s (N.of_nat (length s)) num want).
Proof.
  intros s num want val _ _. unfold UtfGen.a_utf_decode, a_utf_decode. cbv zeta.
  destruct (num =? 0); [reflexivity|].
  rewrite rd_load. change UtfGen.load with T.load. destruct (T.load s 0) as [chr|]; [|reflexivity].
  destruct (chr <? 128).
  - destruct want; cbn [negb]; [|reflexivity].
    destruct val as [|v0 vt]; reflexivity.
  - set (num' := if 6 <? num then 6 else num).
    assert (Hn : num' <= 6) by (subst num'; destruct (6 <? num) eqn:E; [lia|apply N.ltb_ge in E; exact E]).
    change (0 + num') with num'. unfold dec_fuel.
    destruct want; cbn [negb].
    + rewrite dec_loop1.
      destruct (dec_loop_val 8 s (N.of_nat (length s)) num' chr 0 0) as [| | |chr' i code] eqn:E; try reflexivity.
      cbn [lres_of1]. assert (Hi : i <= 5) by (eapply dec_loop_val_pos; [exact E|exact Hn|lia]).
      destruct (small_mul5 i Hi) as [M1 M2]. change UtfGen.wrap with wrap. rewrite M1.
      replace (32 <=? i mod U32 * 5) with false by (symmetry; apply N.leb_gt; exact M2).
      rewrite <- !wrap32_U32.
      rewrite (T.wrap_small 32 (N.land chr' 127)) by (eapply T.pow2_le_lt; [apply T.land_mask_lt with (k := 7); reflexivity|reflexivity]).
      destruct val as [|v0 vt]; reflexivity.
    + rewrite dec_loop2.
      destruct (dec_loop_nul 8 s (N.of_nat (length s)) num' chr 0) as [| | |chr' i code]; reflexivity.
Qed.

(* the call as the API documents it: exactly num bytes at ptr *)
Theorem tie_a_utf_decode_api : forall s want val, Forall (fun c => c < 2 ^ 8) s -> N.of_nat (length s) < 2 ^ 64 ->
  UtfGen.a_utf_decode s (N.of_nat (length s)) (negb want) val = dec_of val (decode s (N.of_nat (length s)) want).
Proof. intros s want val F H. exact (tie_a_utf_decode s _ want val F H). Qed.
