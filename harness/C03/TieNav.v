(* Tie between the navigation functions REGENERATED from src/avl.c and src/rbt.c by tools/c2nav.py (module Gen.NavGen, rewritten
   from the current sources on every run: every field read, test, loop and write of each function body, in the C's order) and
   the hand-written model C03/IterDefs.v about which the theorems of Properties_C03.v are proved.

   Every statement is for EVERY reader (heap), EVERY fuel and EVERY argument: dangling pointers included (both sides are
   [Stuck] on the same access) and exhausted fuel included (both sides are [OutOfFuel] together; every generated loop is
   started with the function's own fuel, as in the model).  A node argument of the C is a pointer that the function
   dereferences at once: the model takes the id [x], the generated function the pointer [Some x].

   The file is compiled twice per run: against the module generated in the packed-parent configuration (A_SIZE_POINTER 8:
   a_avl_parent / a_rbt_parent mask the tag bits of the word parent_) and against the one generated in the unpacked
   configuration (A_SIZE_POINTER 1: plain field parent).

   Shape of the proofs: one lemma per generated loop (induction on the fuel; the C reads a field once to test it and once
   more to use it, the model reads it once: by cases on what the reader holds), then the function by cases on the reads
   before the loop. *)
From Coq Require Import List PArith ZArith FMapPositive Bool.
From LibaV Require Import C03.IterDefs.
From Gen Require Import NavGen.

(* ------------------------------------------------------------------ tactics *)

(* unfold the vocabulary of the generated code (never a loop, never a model fixpoint) *)
Ltac open_gen :=
  cbv beta delta [bind ld nonnull oid_eqb ptr_is set_next set_root wr_nl wr_nr] iota.

(* one case split on an access: what the reader holds at an id, the fields of a node, a pointer, an id comparison *)
Ltac split_access :=
  match goal with
  | |- context [match ?rd ?x with Some _ => _ | None => _ end] =>
      is_var rd; is_var x; let n := fresh "n" in let E := fresh "E" in
      destruct (rd x) as [n|] eqn:E; [destruct n as [? ? ?]|]
  | |- context [match rdh ?h ?x with Some _ => _ | None => _ end] =>
      is_var x; let n := fresh "n" in let E := fresh "E" in
      destruct (rdh h x) as [n|] eqn:E; [destruct n as [? ? ?]|]
  | |- context [match ?o with Some _ => _ | None => _ end] => is_var o; destruct o
  | |- context [if Pos.eqb ?a ?b then _ else _] => destruct (Pos.eqb a b) eqn:?
  end;
  cbn [nl nr np th troot tnext fst snd]; cbv beta iota.

Ltac finish :=
  try reflexivity; try congruence;
  try (match goal with IH : forall _, _ |- _ => solve [apply IH | rewrite IH; reflexivity | eapply IH; eassumption] end).

(* a case that is left open is reported with its goal (instead of "incomplete proof" at Qed) *)
Ltac differ := match goal with |- ?G => fail 1 "generated code and model differ in the case" G end.

Ltac cases := repeat split_access; finish; differ.

(* a loop lemma: induction on the fuel, one iteration of the generated loop against one iteration of the model's *)
Ltac loop_by_induction L M :=
  let k := fresh "k" in let IH := fresh "IH" in
  intros rd fuel; induction fuel as [|k IH]; intros;
  [ try reflexivity; cbn [L M]; open_gen; cases
  | cbn [L M]; open_gen; cases ].

(* after the case splits: replace the loops by the model's (lemmas given as the tactic rw), then go by cases on their results *)
Ltac close_binds :=
  repeat match goal with
         | |- context [match ?e with Ok _ => _ | Stuck => _ | OutOfFuel => _ end] => destruct e
         end;
  try reflexivity.
Ltac fn_tie rw := intros; open_gen; repeat split_access; try reflexivity; rw; cbn [nl nr np th troot tnext fst snd]; close_binds; finish; differ.

(* ================================================================== src/avl.c *)

(* ---- head / tail:  node = root->node; if (node) while (node->F) node = node->F; *)
Lemma avl_head_loop : forall rd fuel x, a_avl_head_loop1 rd fuel (Some x) = res_map Some (walk rd nl fuel x).
Proof. loop_by_induction a_avl_head_loop1 walk. Qed.
Theorem tie_a_avl_head : forall rd fuel root, a_avl_head rd fuel root = head rd fuel root.
Proof. cbv delta [a_avl_head head] beta. fn_tie ltac:(rewrite ?avl_head_loop). Qed.

Lemma avl_tail_loop : forall rd fuel x, a_avl_tail_loop1 rd fuel (Some x) = res_map Some (walk rd nr fuel x).
Proof. loop_by_induction a_avl_tail_loop1 walk. Qed.
Theorem tie_a_avl_tail : forall rd fuel root, a_avl_tail rd fuel root = tail rd fuel root.
Proof. cbv delta [a_avl_tail tail] beta. fn_tie ltac:(rewrite ?avl_tail_loop). Qed.

(* ---- next / prev: descend (node = node->R; while (node->L) node = node->L;) or climb
   (do { leaf = node; node = parent(node); } while (node && node->L != leaf);) *)
Lemma avl_next_descend : forall rd fuel x, a_avl_next_loop1 rd fuel (Some x) = res_map Some (walk rd nl fuel x).
Proof. loop_by_induction a_avl_next_loop1 walk. Qed.
Lemma avl_next_climb : forall rd fuel x, a_avl_next_loop2 rd fuel (Some x) = climb_io rd nl fuel x.
Proof. loop_by_induction a_avl_next_loop2 climb_io. Qed.
Theorem tie_a_avl_next : forall rd fuel x, a_avl_next rd fuel (Some x) = next rd fuel x.
Proof. cbv delta [a_avl_next next] beta. fn_tie ltac:(rewrite ?avl_next_descend, ?avl_next_climb). Qed.

Lemma avl_prev_descend : forall rd fuel x, a_avl_prev_loop1 rd fuel (Some x) = res_map Some (walk rd nr fuel x).
Proof. loop_by_induction a_avl_prev_loop1 walk. Qed.
Lemma avl_prev_climb : forall rd fuel x, a_avl_prev_loop2 rd fuel (Some x) = climb_io rd nr fuel x.
Proof. loop_by_induction a_avl_prev_loop2 climb_io. Qed.
Theorem tie_a_avl_prev : forall rd fuel x, a_avl_prev rd fuel (Some x) = prev rd fuel x.
Proof. cbv delta [a_avl_prev prev] beta. fn_tie ltac:(rewrite ?avl_prev_descend, ?avl_prev_climb). Qed.

(* ---- pre_next / pre_prev: the for loop is entered with leaf = x, node = parent(x); the model's climb_pre starts one half
   step earlier (it computes parent(leaf) itself), so the lemma is about the loop entered from a node the reader holds *)
Lemma avl_pre_next_loop : forall rd fuel x l r p, rd x = Some (mkNode l r p) ->
  a_avl_pre_next_loop1 rd fuel p (Some x) = climb_pre rd nr fuel x.
Proof.
  intros rd fuel; induction fuel as [|k IH]; intros x l r p H; [reflexivity|].
  cbn [a_avl_pre_next_loop1 climb_pre]; rewrite H; cbn [np]; open_gen; cases.
Qed.
Theorem tie_a_avl_pre_next : forall rd fuel x, a_avl_pre_next rd fuel (Some x) = pre_next rd fuel x.
Proof. cbv delta [a_avl_pre_next pre_next] beta. fn_tie ltac:(try (erewrite avl_pre_next_loop by eassumption)). Qed.

Lemma avl_pre_prev_loop : forall rd fuel x l r p, rd x = Some (mkNode l r p) ->
  a_avl_pre_prev_loop1 rd fuel p (Some x) = climb_pre rd nl fuel x.
Proof.
  intros rd fuel; induction fuel as [|k IH]; intros x l r p H; [reflexivity|].
  cbn [a_avl_pre_prev_loop1 climb_pre]; rewrite H; cbn [np]; open_gen; cases.
Qed.
Theorem tie_a_avl_pre_prev : forall rd fuel x, a_avl_pre_prev rd fuel (Some x) = pre_prev rd fuel x.
Proof. cbv delta [a_avl_pre_prev pre_prev] beta. fn_tie ltac:(try (erewrite avl_pre_prev_loop by eassumption)). Qed.

(* ---- the post-order functions; every one runs the descent A_AVL_POST(head, tail) *)
Lemma avl_post_head_loop : forall rd fuel x, a_avl_post_head_loop1 rd fuel (Some x) = res_map Some (post_descent rd nl nr fuel x).
Proof. loop_by_induction a_avl_post_head_loop1 post_descent. Qed.
Theorem tie_a_avl_post_head : forall rd fuel root, a_avl_post_head rd fuel root = post_head rd fuel root.
Proof. cbv delta [a_avl_post_head post_head] beta. fn_tie ltac:(rewrite ?avl_post_head_loop). Qed.

Lemma avl_post_tail_loop : forall rd fuel x, a_avl_post_tail_loop1 rd fuel (Some x) = res_map Some (post_descent rd nr nl fuel x).
Proof. loop_by_induction a_avl_post_tail_loop1 post_descent. Qed.
Theorem tie_a_avl_post_tail : forall rd fuel root, a_avl_post_tail rd fuel root = post_tail rd fuel root.
Proof. cbv delta [a_avl_post_tail post_tail] beta. fn_tie ltac:(rewrite ?avl_post_tail_loop). Qed.

Lemma avl_post_next_loop : forall rd fuel x, a_avl_post_next_loop1 rd fuel (Some x) = res_map Some (post_descent rd nl nr fuel x).
Proof. loop_by_induction a_avl_post_next_loop1 post_descent. Qed.
Theorem tie_a_avl_post_next : forall rd fuel x, a_avl_post_next rd fuel (Some x) = post_next rd fuel x.
Proof. cbv delta [a_avl_post_next post_next] beta. fn_tie ltac:(rewrite ?avl_post_next_loop). Qed.

Lemma avl_post_prev_loop : forall rd fuel x, a_avl_post_prev_loop1 rd fuel (Some x) = res_map Some (post_descent rd nr nl fuel x).
Proof. loop_by_induction a_avl_post_prev_loop1 post_descent. Qed.
Theorem tie_a_avl_post_prev : forall rd fuel x, a_avl_post_prev rd fuel (Some x) = post_prev rd fuel x.
Proof. cbv delta [a_avl_post_prev post_prev] beta. fn_tie ltac:(rewrite ?avl_post_prev_loop). Qed.

(* ---- tear, with the helper a_avl_new_child it calls (the model has the helper's three cases inline): the state is the heap,
   root->node and the caller's *next; the generated code writes them in the C's order (first the cell *next, then the parent's link
   or root->node), the model builds the final state at once *)
Lemma avl_tear_loop : forall rd fuel x, a_avl_tear_loop1 rd fuel (Some x) = res_map Some (post_descent rd nl nr fuel x).
Proof. loop_by_induction a_avl_tear_loop1 post_descent. Qed.
Theorem tie_a_avl_tear : forall fuel st, a_avl_tear fuel st = tear fuel st.
Proof.
  intros fuel [h root nxt]; cbv delta [a_avl_tear tear] beta; cbn [th troot tnext].
  destruct nxt as [x0|]; [|destruct root as [x0|]]; cbn [nonnull]; cbv iota; try reflexivity.
  all: rewrite avl_tear_loop; destruct (post_descent (rdh h) nl nr fuel x0) as [x| |]; cbn [res_map bind]; try reflexivity.
  all: cbv delta [a_avl_new_child] beta; open_gen; cbn [th troot tnext]; cases.
Qed.

(* what the restriction to [Some x] leaves out: on a null argument the generated functions fault at their first read *)
Lemma avl_null_argument : forall rd fuel,
  a_avl_next rd fuel None = Stuck /\ a_avl_prev rd fuel None = Stuck /\ a_avl_pre_next rd fuel None = Stuck
  /\ a_avl_pre_prev rd fuel None = Stuck /\ a_avl_post_next rd fuel None = Stuck /\ a_avl_post_prev rd fuel None = Stuck.
Proof. intros; repeat split; reflexivity. Qed.

(* ================================================================== src/rbt.c *)

(* ---- head / tail:  node = root->node; if (node) while (node->F) node = node->F; *)
Lemma rbt_head_loop : forall rd fuel x, a_rbt_head_loop1 rd fuel (Some x) = res_map Some (walk rd nl fuel x).
Proof. loop_by_induction a_rbt_head_loop1 walk. Qed.
Theorem tie_a_rbt_head : forall rd fuel root, a_rbt_head rd fuel root = head rd fuel root.
Proof. cbv delta [a_rbt_head head] beta. fn_tie ltac:(rewrite ?rbt_head_loop). Qed.

Lemma rbt_tail_loop : forall rd fuel x, a_rbt_tail_loop1 rd fuel (Some x) = res_map Some (walk rd nr fuel x).
Proof. loop_by_induction a_rbt_tail_loop1 walk. Qed.
Theorem tie_a_rbt_tail : forall rd fuel root, a_rbt_tail rd fuel root = tail rd fuel root.
Proof. cbv delta [a_rbt_tail tail] beta. fn_tie ltac:(rewrite ?rbt_tail_loop). Qed.

(* ---- next / prev: descend (node = node->R; while (node->L) node = node->L;) or climb
   (do { leaf = node; node = parent(node); } while (node && node->L != leaf);) *)
Lemma rbt_next_descend : forall rd fuel x, a_rbt_next_loop1 rd fuel (Some x) = res_map Some (walk rd nl fuel x).
Proof. loop_by_induction a_rbt_next_loop1 walk. Qed.
Lemma rbt_next_climb : forall rd fuel x, a_rbt_next_loop2 rd fuel (Some x) = climb_io rd nl fuel x.
Proof. loop_by_induction a_rbt_next_loop2 climb_io. Qed.
Theorem tie_a_rbt_next : forall rd fuel x, a_rbt_next rd fuel (Some x) = next rd fuel x.
Proof. cbv delta [a_rbt_next next] beta. fn_tie ltac:(rewrite ?rbt_next_descend, ?rbt_next_climb). Qed.

Lemma rbt_prev_descend : forall rd fuel x, a_rbt_prev_loop1 rd fuel (Some x) = res_map Some (walk rd nr fuel x).
Proof. loop_by_induction a_rbt_prev_loop1 walk. Qed.
Lemma rbt_prev_climb : forall rd fuel x, a_rbt_prev_loop2 rd fuel (Some x) = climb_io rd nr fuel x.
Proof. loop_by_induction a_rbt_prev_loop2 climb_io. Qed.
Theorem tie_a_rbt_prev : forall rd fuel x, a_rbt_prev rd fuel (Some x) = prev rd fuel x.
Proof. cbv delta [a_rbt_prev prev] beta. fn_tie ltac:(rewrite ?rbt_prev_descend, ?rbt_prev_climb). Qed.

(* ---- pre_next / pre_prev: the for loop is entered with leaf = x, node = parent(x); the model's climb_pre starts one half
   step earlier (it computes parent(leaf) itself), so the lemma is about the loop entered from a node the reader holds *)
Lemma rbt_pre_next_loop : forall rd fuel x l r p, rd x = Some (mkNode l r p) ->
  a_rbt_pre_next_loop1 rd fuel p (Some x) = climb_pre rd nr fuel x.
Proof.
  intros rd fuel; induction fuel as [|k IH]; intros x l r p H; [reflexivity|].
  cbn [a_rbt_pre_next_loop1 climb_pre]; rewrite H; cbn [np]; open_gen; cases.
Qed.
Theorem tie_a_rbt_pre_next : forall rd fuel x, a_rbt_pre_next rd fuel (Some x) = pre_next rd fuel x.
Proof. cbv delta [a_rbt_pre_next pre_next] beta. fn_tie ltac:(try (erewrite rbt_pre_next_loop by eassumption)). Qed.

Lemma rbt_pre_prev_loop : forall rd fuel x l r p, rd x = Some (mkNode l r p) ->
  a_rbt_pre_prev_loop1 rd fuel p (Some x) = climb_pre rd nl fuel x.
Proof.
  intros rd fuel; induction fuel as [|k IH]; intros x l r p H; [reflexivity|].
  cbn [a_rbt_pre_prev_loop1 climb_pre]; rewrite H; cbn [np]; open_gen; cases.
Qed.
Theorem tie_a_rbt_pre_prev : forall rd fuel x, a_rbt_pre_prev rd fuel (Some x) = pre_prev rd fuel x.
Proof. cbv delta [a_rbt_pre_prev pre_prev] beta. fn_tie ltac:(try (erewrite rbt_pre_prev_loop by eassumption)). Qed.

(* ---- the post-order functions; every one runs the descent A_RBT_POST(head, tail) *)
Lemma rbt_post_head_loop : forall rd fuel x, a_rbt_post_head_loop1 rd fuel (Some x) = res_map Some (post_descent rd nl nr fuel x).
Proof. loop_by_induction a_rbt_post_head_loop1 post_descent. Qed.
Theorem tie_a_rbt_post_head : forall rd fuel root, a_rbt_post_head rd fuel root = post_head rd fuel root.
Proof. cbv delta [a_rbt_post_head post_head] beta. fn_tie ltac:(rewrite ?rbt_post_head_loop). Qed.

Lemma rbt_post_tail_loop : forall rd fuel x, a_rbt_post_tail_loop1 rd fuel (Some x) = res_map Some (post_descent rd nr nl fuel x).
Proof. loop_by_induction a_rbt_post_tail_loop1 post_descent. Qed.
Theorem tie_a_rbt_post_tail : forall rd fuel root, a_rbt_post_tail rd fuel root = post_tail rd fuel root.
Proof. cbv delta [a_rbt_post_tail post_tail] beta. fn_tie ltac:(rewrite ?rbt_post_tail_loop). Qed.

Lemma rbt_post_next_loop : forall rd fuel x, a_rbt_post_next_loop1 rd fuel (Some x) = res_map Some (post_descent rd nl nr fuel x).
Proof. loop_by_induction a_rbt_post_next_loop1 post_descent. Qed.
Theorem tie_a_rbt_post_next : forall rd fuel x, a_rbt_post_next rd fuel (Some x) = post_next rd fuel x.
Proof. cbv delta [a_rbt_post_next post_next] beta. fn_tie ltac:(rewrite ?rbt_post_next_loop). Qed.

Lemma rbt_post_prev_loop : forall rd fuel x, a_rbt_post_prev_loop1 rd fuel (Some x) = res_map Some (post_descent rd nr nl fuel x).
Proof. loop_by_induction a_rbt_post_prev_loop1 post_descent. Qed.
Theorem tie_a_rbt_post_prev : forall rd fuel x, a_rbt_post_prev rd fuel (Some x) = post_prev rd fuel x.
Proof. cbv delta [a_rbt_post_prev post_prev] beta. fn_tie ltac:(rewrite ?rbt_post_prev_loop). Qed.

(* ---- tear, with the helper a_rbt_new_child it calls (the model has the helper's three cases inline): the state is the heap,
   root->node and the caller's *next; the generated code writes them in the C's order (first the cell *next, then the parent's link
   or root->node), the model builds the final state at once *)
Lemma rbt_tear_loop : forall rd fuel x, a_rbt_tear_loop1 rd fuel (Some x) = res_map Some (post_descent rd nl nr fuel x).
Proof. loop_by_induction a_rbt_tear_loop1 post_descent. Qed.
Theorem tie_a_rbt_tear : forall fuel st, a_rbt_tear fuel st = tear fuel st.
Proof.
  intros fuel [h root nxt]; cbv delta [a_rbt_tear tear] beta; cbn [th troot tnext].
  destruct nxt as [x0|]; [|destruct root as [x0|]]; cbn [nonnull]; cbv iota; try reflexivity.
  all: rewrite rbt_tear_loop; destruct (post_descent (rdh h) nl nr fuel x0) as [x| |]; cbn [res_map bind]; try reflexivity.
  all: cbv delta [a_rbt_new_child] beta; open_gen; cbn [th troot tnext]; cases.
Qed.

(* what the restriction to [Some x] leaves out: on a null argument the generated functions fault at their first read *)
Lemma rbt_null_argument : forall rd fuel,
  a_rbt_next rd fuel None = Stuck /\ a_rbt_prev rd fuel None = Stuck /\ a_rbt_pre_next rd fuel None = Stuck
  /\ a_rbt_pre_prev rd fuel None = Stuck /\ a_rbt_post_next rd fuel None = Stuck /\ a_rbt_post_prev rd fuel None = Stuck.
Proof. intros; repeat split; reflexivity. Qed.
