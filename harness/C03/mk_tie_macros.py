# One-off generator of harness/C03/TieNavMacros.v (committed): the avl part is written out, the rbt part is the same text with the
# names replaced.  Run from anywhere: python3 harness/C03/mk_tie_macros.py.  (first tie `I` = the macro has no call for its first element.)
HEAD = '''(* Tie between the ITERATION MACROS of include/a/avl.h and include/a/rbt.h and the enumerations of C03/IterDefs.v that the theorems
   of Properties_C03.v are about.  harness/C03/macro_unit.c has one function per macro (lower-case and upper-case form) whose
   body is the macro around `visit(cur)` (fortear: `visit(cur); free(cur);`); clang expands the macros of the CURRENT headers
   and tools/c2nav.py translates the expanded loops into Gen.NavGenMacros on every run: the loop is a Fixpoint on its fuel,
   `visit` puts the element on the list the function returns, the calls a_avl_head / a_avl_next / a_avl_tear ... are the
   generated functions of Gen.NavGen (tied to the model by TieNav.v, whose theorems are used here).

   foreach family: the translated function EQUALS the model's foreach / foreach_reverse / pre_foreach / pre_foreach_reverse /
   post_foreach / post_foreach_reverse for every reader, fuel and root (the objects of C03_inorder_foreach,
   C03_pre_post_foreach, ...).

   fortear: the model's [fortear fuel k] is the loop INTERRUPTED after at most k nodes (the object of C03_tear_complete /
   C03_tear_interrupted); the macro written out has no interruption.  The translated function EQUALS [tear_all fuel fuel]
   (C03/NavLemmas.v: the same loop run until tear hands out null, exhausted fuel = OutOfFuel) started with *next = null, for
   every fuel and state; NavLemmas.v proves that tear_all and fortear agree on every run that ends with tear returning null,
   and the corollaries at the end restate C03_tear_complete for the translated macro itself.  The generated code frees with a
   CHECKED free (freeing an id that is not allocated is Stuck): that the node tear hands out is still allocated is lemma
   tear_keeps_node.

   Fuel: in this unit a loop consumes its unit of fuel on entry to the body (after the test `cur != null`), as IterDefs.iterate
   does, and calls inside the loop get the function's own fuel, as in `iterate (next rd fuel) fuel`.

   Compiled twice per run (packed / unpacked node layout), after NavGen, TieNav and NavGenMacros. *)
From Coq Require Import List PArith ZArith FMapPositive Bool Permutation.
From LibaV Require Import C03.IterDefs C03.NavLemmas.
From Gen Require Import NavGen TieNav NavGenMacros.
Import ListNotations.

(* ------------------------------------------------------------------ tactics *)

Ltac differ := match goal with |- ?G => fail 1 "generated macro loop and model differ in the case" G end.

(* by cases on the results of the model functions that are left after the rewrites *)
Ltac by_results :=
  repeat match goal with
         | |- context [match ?e with Ok _ => _ | Stuck => _ | OutOfFuel => _ end] =>
             lazymatch e with
             | context [match _ with Ok _ => _ | Stuck => _ | OutOfFuel => _ end] => fail
             | _ => destruct e as [?| |]
             end
         | |- context [let '(_, _) := ?p in _] => is_var p; destruct p
         | |- context [match ?o with Some _ => _ | None => _ end] => is_var o; destruct o
         end;
  try reflexivity.

(* loop of a foreach macro:  for (...; cur; cur = STEP(cur)) visit(cur);   L = generated loop, tie = tie theorem of STEP *)
Ltac foreach_loop L tie :=
  let k := fresh "k" in let IH := fresh "IH" in let x := fresh "x" in
  intros rd fuel0 fuel; induction fuel as [|k IH]; intros [x|]; cbn [L iterate nonnull]; try reflexivity;
  rewrite ?tie; cbv beta delta [bind emit res_map] iota;
  match goal with
  | |- context [match ?step with Ok _ => _ | Stuck => _ | OutOfFuel => _ end] =>
      lazymatch step with context [match _ with _ => _ end] => fail | _ => destruct step as [?| |] end
  end; try reflexivity;
  rewrite ?IH; cbv beta delta [res_map] iota; by_results; differ.

(* the macro: first element, then the loop *)
Ltac foreach_tie F M Lc L first_tie :=
  intros rd fuel root; cbv beta delta [F M bind_iter];
  rewrite ?first_tie; cbv beta delta [bind bind_log res_map] iota;
  try match goal with
      | |- context [match ?first with Ok _ => _ | Stuck => _ | OutOfFuel => _ end] =>
          lazymatch first with
          | context [match _ with _ => _ end] => fail
          | context [Lc] => fail
          | _ => destruct first as [?| |]
          end
      end; try reflexivity;
  rewrite ?L; cbv beta delta [res_map] iota; by_results; try (cbn [fst]; rewrite app_nil_r; reflexivity); differ.

Lemma bind_log_ret : forall (A : Type) (r : res (list id * A)), bind_log r (fun a => Ok ([], a)) = r.
Proof. intros A [[l a]| |]; cbn; [rewrite app_nil_r|..]; reflexivity. Qed.

(* loop of a fortear macro, entered after the first tear:  for (...; cur; cur = tear(root, &next)) { visit(cur); free(cur); } *)
Ltac fortear_loop L tie :=
  let k := fresh "k" in let IH := fresh "IH" in
  intros fuel0 k; induction k as [|k IH]; intros st; cbn [tear_all];
  (destruct (tear fuel0 st) as [[[x|] st1]| |] eqn:E; cbn [bind L nonnull]; try reflexivity);
  cbv beta delta [emit free_ptr] iota;
  (destruct (rdh (th st1) x) eqn:Ex; [|exfalso; exact (tear_keeps_node _ _ _ _ E Ex)]);
  cbn [bind]; rewrite tie; rewrite IH; by_results; differ.

'''

AVL = '''(* ================================================================== include/a/avl.h *)

'''
FAM = [("foreach", "foreach", "next", "head"), ("foreach_reverse", "foreach_reverse", "prev", "tail"),
       ("pre_foreach", "pre_foreach", "pre_next", None), ("pre_foreach_reverse", "pre_foreach_reverse", "pre_prev", None),
       ("post_foreach", "post_foreach", "post_next", "post_head"), ("post_foreach_reverse", "post_foreach_reverse", "post_prev", "post_tail")]
for macro, model, step, first in FAM:
    for name in ("a_avl_" + macro, "A_AVL_" + macro.upper()):
        AVL += "(* ---- %s:  for (cur = %s; cur; cur = a_avl_%s(cur)) *)\n" % (name, "a_avl_%s(root)" % first if first else "(root)->node", step)
        AVL += ("Lemma %s_loop : forall rd fuel0 fuel cur,\n  u_%s_loop1 rd fuel0 fuel cur = res_map (fun l => (l, tt)) (iterate (%s rd fuel0) fuel cur).\n"
                "Proof. foreach_loop u_%s_loop1 tie_a_avl_%s. Qed.\n" % (name, name, step, name, step))
        AVL += ("Theorem tie_u_%s : forall rd fuel root, u_%s rd fuel root = %s rd fuel root.\n"
                "Proof. foreach_tie u_%s %s u_%s_loop1 %s_loop %s. Qed.\n\n" % (name, name, model, name, model, name, name, "tie_a_avl_" + first if first else "I"))
for name in ("a_avl_fortear", "A_AVL_FORTEAR"):
    AVL += "(* ---- %s:  for (next = null, cur = a_avl_tear(root, &next); cur; cur = a_avl_tear(root, &next)) *)\n" % name
    AVL += ("Lemma %s_loop : forall fuel0 k st,\n  bind (tear fuel0 st) (fun '(cur, st') => u_%s_loop1 fuel0 k st' cur) = tear_all fuel0 k st.\n"
            "Proof. fortear_loop u_%s_loop1 tie_a_avl_tear. Qed.\n" % (name, name, name))
    AVL += ("Theorem tie_u_%s : forall fuel st, u_%s fuel st = tear_all fuel fuel (mkT (th st) (troot st) None).\n"
            "Proof.\n  intros fuel st; cbv beta delta [u_%s set_next] zeta; rewrite tie_a_avl_tear.\n"
            "  rewrite <- %s_loop. destruct (tear fuel _) as [[cur st1]| |]; cbn [bind]; try reflexivity. apply bind_log_ret.\nQed.\n" % (name, name, name, name))
    AVL += ('''(* ... and therefore the complete tear-down of a tree exactly as C03_tear_complete states it, whatever the caller's `next` held *)
Corollary u_%s_complete : forall h t fuel nxt,
  Repr (rdh h) None t -> NoDup (ids t) -> hsub h t -> size t < fuel ->
  exists st', u_%s fuel (mkT h (root_id t) nxt) = Ok (postorder t, st')
    /\\ ChildrenFirst (postorder t) t /\\ NoDup (postorder t) /\\ Permutation (postorder t) (ids t)
    /\\ troot st' = None /\\ tnext st' = None /\\ (forall x, rdh (th st') x = None).
Proof. intros h t fuel nxt HR HN HS Hf; rewrite tie_u_%s; cbn [th troot]; apply tear_all_complete; auto using PeanoNat.Nat.lt_le_incl. Qed.

''' % (name, name, name))
RBT = AVL.replace("avl", "rbt").replace("AVL", "RBT")
open('/verif/harness/C03/TieNavMacros.v', 'w').write(HEAD + AVL + RBT)
