/* translation unit handed to tools/c2nav.py (property C03): one tiny function per ITERATION MACRO of include/a/avl.h and
   include/a/rbt.h whose body is just the macro around a visit of the element (fortear: visit, then free, as the header's
   example of a tear-down does).  clang expands the macros of the CURRENT headers; c2nav translates the expanded loops
   (module Gen.NavGenMacros) and harness/C03/TieNavMacros.v proves each equal to the enumeration of coq/C03/IterDefs.v that the
   theorems of Properties_C03.v are about.  u_<macro name>: lower-case macros declare `cur` (and `next`) themselves, the
   upper-case forms use the caller's variables.  This file is only parsed, never linked. */
#include "a/avl.h"
#include "a/rbt.h"
#include <stdlib.h>

void visit_avl(a_avl_node const *node); /* the loop body's use of the element: the cons of the enumerated list */
void visit_rbt(a_rbt_node const *node);

/* ---- a/avl.h */
void u_a_avl_foreach(a_avl *root)
{
    a_avl_foreach(cur, root) { visit_avl(cur); }
}
void u_A_AVL_FOREACH(a_avl *root)
{
    a_avl_node *cur;
    A_AVL_FOREACH(cur, root) { visit_avl(cur); }
}
void u_a_avl_foreach_reverse(a_avl *root)
{
    a_avl_foreach_reverse(cur, root) { visit_avl(cur); }
}
void u_A_AVL_FOREACH_REVERSE(a_avl *root)
{
    a_avl_node *cur;
    A_AVL_FOREACH_REVERSE(cur, root) { visit_avl(cur); }
}
void u_a_avl_pre_foreach(a_avl *root)
{
    a_avl_pre_foreach(cur, root) { visit_avl(cur); }
}
void u_A_AVL_PRE_FOREACH(a_avl *root)
{
    a_avl_node *cur;
    A_AVL_PRE_FOREACH(cur, root) { visit_avl(cur); }
}
void u_a_avl_pre_foreach_reverse(a_avl *root)
{
    a_avl_pre_foreach_reverse(cur, root) { visit_avl(cur); }
}
void u_A_AVL_PRE_FOREACH_REVERSE(a_avl *root)
{
    a_avl_node *cur;
    A_AVL_PRE_FOREACH_REVERSE(cur, root) { visit_avl(cur); }
}
void u_a_avl_post_foreach(a_avl *root)
{
    a_avl_post_foreach(cur, root) { visit_avl(cur); }
}
void u_A_AVL_POST_FOREACH(a_avl *root)
{
    a_avl_node *cur;
    A_AVL_POST_FOREACH(cur, root) { visit_avl(cur); }
}
void u_a_avl_post_foreach_reverse(a_avl *root)
{
    a_avl_post_foreach_reverse(cur, root) { visit_avl(cur); }
}
void u_A_AVL_POST_FOREACH_REVERSE(a_avl *root)
{
    a_avl_node *cur;
    A_AVL_POST_FOREACH_REVERSE(cur, root) { visit_avl(cur); }
}
void u_a_avl_fortear(a_avl *root)
{
    a_avl_fortear(cur, next, root)
    {
        visit_avl(cur);
        free(cur);
    }
}
void u_A_AVL_FORTEAR(a_avl *root)
{
    a_avl_node *cur, *next;
    A_AVL_FORTEAR(cur, next, root)
    {
        visit_avl(cur);
        free(cur);
    }
}
/* ---- a/rbt.h */
void u_a_rbt_foreach(a_rbt *root)
{
    a_rbt_foreach(cur, root) { visit_rbt(cur); }
}
void u_A_RBT_FOREACH(a_rbt *root)
{
    a_rbt_node *cur;
    A_RBT_FOREACH(cur, root) { visit_rbt(cur); }
}
void u_a_rbt_foreach_reverse(a_rbt *root)
{
    a_rbt_foreach_reverse(cur, root) { visit_rbt(cur); }
}
void u_A_RBT_FOREACH_REVERSE(a_rbt *root)
{
    a_rbt_node *cur;
    A_RBT_FOREACH_REVERSE(cur, root) { visit_rbt(cur); }
}
void u_a_rbt_pre_foreach(a_rbt *root)
{
    a_rbt_pre_foreach(cur, root) { visit_rbt(cur); }
}
void u_A_RBT_PRE_FOREACH(a_rbt *root)
{
    a_rbt_node *cur;
    A_RBT_PRE_FOREACH(cur, root) { visit_rbt(cur); }
}
void u_a_rbt_pre_foreach_reverse(a_rbt *root)
{
    a_rbt_pre_foreach_reverse(cur, root) { visit_rbt(cur); }
}
void u_A_RBT_PRE_FOREACH_REVERSE(a_rbt *root)
{
    a_rbt_node *cur;
    A_RBT_PRE_FOREACH_REVERSE(cur, root) { visit_rbt(cur); }
}
void u_a_rbt_post_foreach(a_rbt *root)
{
    a_rbt_post_foreach(cur, root) { visit_rbt(cur); }
}
void u_A_RBT_POST_FOREACH(a_rbt *root)
{
    a_rbt_node *cur;
    A_RBT_POST_FOREACH(cur, root) { visit_rbt(cur); }
}
void u_a_rbt_post_foreach_reverse(a_rbt *root)
{
    a_rbt_post_foreach_reverse(cur, root) { visit_rbt(cur); }
}
void u_A_RBT_POST_FOREACH_REVERSE(a_rbt *root)
{
    a_rbt_node *cur;
    A_RBT_POST_FOREACH_REVERSE(cur, root) { visit_rbt(cur); }
}
void u_a_rbt_fortear(a_rbt *root)
{
    a_rbt_fortear(cur, next, root)
    {
        visit_rbt(cur);
        free(cur);
    }
}
void u_A_RBT_FORTEAR(a_rbt *root)
{
    a_rbt_node *cur, *next;
    A_RBT_FORTEAR(cur, next, root)
    {
        visit_rbt(cur);
        free(cur);
    }
}
