(* Tie between the ITERATION MACROS of include/a/avl.h and include/a/rbt.h and the enumerations of C03/IterDefs.v that the theorems
   of Properties_C03.v are about.  harness/C03/macro_unit.c has one function per macro (lower-case and upper-case form) whose
   body is the macro around `visit(cur)` (fortear: `visit(cur); free(cur);`); clang expands the macros of the CURRENT headers
   and tools/c2nav.py translates the expanded loops into Gen.NavGenMacros on every run: the loop is a Fixpoint on its fuel,
   `visit` puts the element on the list the function returns, the calls a_avl_head / a_avl_next / a_avl_tear ... are the
   generated functions of Gen.NavGen (tied to the model by TieNav.v, whose theorems are used here).

   foreach family: the translated function EQUALS the model's foreach / foreach_reverse / pre_foreach / pre_foreach_reverse /
   post_foreach / post_foreach_reverse for every reader, fuel and root (the objects of C03_inorder_foreach,
   C03_pre_post_foreach, ...).

   fortear: the model's [fortear fuel k] is the loop INTERRUPTED after at most k nodes (the object of C03_tear_complete /
   C03_tear_interrupted); the macro written out has no interruption.  The translated function EQUALS [tear_all fuel fuel]
   (C03/NavLemmas.v: the same loop run until tear hands out null, exhausted fuel = OutOfFuel) started with *next = null, for
   every fuel and state; NavLemmas.v proves that tear_all and fortear agree on every run that ends with tear returning null,
   and the corollaries at the end restate C03_tear_complete for the translated macro itself.  The generated code frees with a
   CHECKED free (freeing an id that is not allocated is Stuck): that the node tear hands out is still allocated is lemma
   tear_keeps_node.

   Fuel: in this unit a loop consumes its unit of fuel on entry to the body (after the test `cur != null`), as IterDefs.iterate
   does, and calls inside the loop get the function's own fuel, as in `iterate (next rd fuel) fuel`.

   Compiled twice per run (packed / unpacked node layout), after NavGen, TieNav and NavGenMacros. *)
From Coq Require Import List PArith ZArith FMapPositive Bool Permutation.
From LibaV Require Import C03.IterDefs C03.NavLemmas.
From Gen Require Import NavGen TieNav NavGenMacros.
Import ListNotations.

(* ------------------------------------------------------------------ tactics *)

Ltac differ := match goal with |- ?G => fail 1 "generated macro loop and model differ in the case" G end.

(* by cases on the results of the model functions that are left after the rewrites *)
Ltac by_results :=
  repeat match goal with
         | |- context [match ?e with Ok _ => _ | Stuck => _ | OutOfFuel => _ end] =>
             lazymatch e with
             | context [match _ with Ok _ => _ | Stuck => _ | OutOfFuel => _ end] => fail
             | _ => destruct e as [?| |]
             end
         | |- context [let '(_, _) := ?p in _] => is_var p; destruct p
         | |- context [match ?o with Some _ => _ | None => _ end] => is_var o; destruct o
         end;
  try reflexivity.

(* loop of a foreach macro:  for (...; cur; cur = STEP(cur)) visit(cur);   L = generated loop, tie = tie theorem of STEP *)
Ltac foreach_loop L tie :=
  let k := fresh "k" in let IH := fresh "IH" in let x := fresh "x" in
  intros rd fuel0 fuel; induction fuel as [|k IH]; intros [x|]; cbn [L iterate nonnull]; try reflexivity;
  rewrite ?tie; cbv beta delta [bind emit res_map] iota;
  match goal with
  | |- context [match ?step with Ok _ => _ | Stuck => _ | OutOfFuel => _ end] =>
      lazymatch step with context [match _ with _ => _ end] => fail | _ => destruct step as [?| |] end
  end; try reflexivity;
  rewrite ?IH; cbv beta delta [res_map] iota; by_results; differ.

(* the macro: first element, then the loop *)
Ltac foreach_tie F M Lc L first_tie :=
  intros rd fuel root; cbv beta delta [F M bind_iter];
  rewrite ?first_tie; cbv beta delta [bind bind_log res_map] iota;
  try match goal with
      | |- context [match ?first with Ok _ => _ | Stuck => _ | OutOfFuel => _ end] =>
          lazymatch first with
          | context [match _ with _ => _ end] => fail
          | context [Lc] => fail
          | _ => destruct first as [?| |]
          end
      end; try reflexivity;
  rewrite ?L; cbv beta delta [res_map] iota; by_results; try (cbn [fst]; rewrite app_nil_r; reflexivity); differ.

Lemma bind_log_ret : forall (A : Type) (r : res (list id * A)), bind_log r (fun a => Ok ([], a)) = r.
Proof. intros A [[l a]| |]; cbn; [rewrite app_nil_r|..]; reflexivity. Qed.

(* loop of a fortear macro, entered after the first tear:  for (...; cur; cur = tear(root, &next)) { visit(cur); free(cur); } *)
Ltac fortear_loop L tie :=
  let k := fresh "k" in let IH := fresh "IH" in
  intros fuel0 k; induction k as [|k IH]; intros st; cbn [tear_all];
  (destruct (tear fuel0 st) as [[[x|] st1]| |] eqn:E; cbn [bind L nonnull]; try reflexivity);
  cbv beta delta [emit free_ptr] iota;
  (destruct (rdh (th st1) x) eqn:Ex; [|exfalso; exact (tear_keeps_node _ _ _ _ E Ex)]);
  cbn [bind]; rewrite tie; rewrite IH; by_results; differ.

(* ================================================================== include/a/avl.h *)

(* ---- a_avl_foreach:  for (cur = a_avl_head(root); cur; cur = a_avl_next(cur)) *)
Lemma a_avl_foreach_loop : forall rd fuel0 fuel cur,
  u_a_avl_foreach_loop1 rd fuel0 fuel cur = res_map (fun l => (l, tt)) (iterate (next rd fuel0) fuel cur).
Proof. foreach_loop u_a_avl_foreach_loop1 tie_a_avl_next. Qed.
Theorem tie_u_a_avl_foreach : forall rd fuel root, u_a_avl_foreach rd fuel root = foreach rd fuel root.
Proof. foreach_tie u_a_avl_foreach foreach u_a_avl_foreach_loop1 a_avl_foreach_loop tie_a_avl_head. Qed.

(* ---- A_AVL_FOREACH:  for (cur = a_avl_head(root); cur; cur = a_avl_next(cur)) *)
Lemma A_AVL_FOREACH_loop : forall rd fuel0 fuel cur,
  u_A_AVL_FOREACH_loop1 rd fuel0 fuel cur = res_map (fun l => (l, tt)) (iterate (next rd fuel0) fuel cur).
Proof. foreach_loop u_A_AVL_FOREACH_loop1 tie_a_avl_next. Qed.
Theorem tie_u_A_AVL_FOREACH : forall rd fuel root, u_A_AVL_FOREACH rd fuel root = foreach rd fuel root.
Proof. foreach_tie u_A_AVL_FOREACH foreach u_A_AVL_FOREACH_loop1 A_AVL_FOREACH_loop tie_a_avl_head. Qed.

(* ---- a_avl_foreach_reverse:  for (cur = a_avl_tail(root); cur; cur = a_avl_prev(cur)) *)
Lemma a_avl_foreach_reverse_loop : forall rd fuel0 fuel cur,
  u_a_avl_foreach_reverse_loop1 rd fuel0 fuel cur = res_map (fun l => (l, tt)) (iterate (prev rd fuel0) fuel cur).
Proof. foreach_loop u_a_avl_foreach_reverse_loop1 tie_a_avl_prev. Qed.
Theorem tie_u_a_avl_foreach_reverse : forall rd fuel root, u_a_avl_foreach_reverse rd fuel root = foreach_reverse rd fuel root.
Proof. foreach_tie u_a_avl_foreach_reverse foreach_reverse u_a_avl_foreach_reverse_loop1 a_avl_foreach_reverse_loop tie_a_avl_tail. Qed.

(* ---- A_AVL_FOREACH_REVERSE:  for (cur = a_avl_tail(root); cur; cur = a_avl_prev(cur)) *)
Lemma A_AVL_FOREACH_REVERSE_loop : forall rd fuel0 fuel cur,
  u_A_AVL_FOREACH_REVERSE_loop1 rd fuel0 fuel cur = res_map (fun l => (l, tt)) (iterate (prev rd fuel0) fuel cur).
Proof. foreach_loop u_A_AVL_FOREACH_REVERSE_loop1 tie_a_avl_prev. Qed.
Theorem tie_u_A_AVL_FOREACH_REVERSE : forall rd fuel root, u_A_AVL_FOREACH_REVERSE rd fuel root = foreach_reverse rd fuel root.
Proof. foreach_tie u_A_AVL_FOREACH_REVERSE foreach_reverse u_A_AVL_FOREACH_REVERSE_loop1 A_AVL_FOREACH_REVERSE_loop tie_a_avl_tail. Qed.

(* ---- a_avl_pre_foreach:  for (cur = (root)->node; cur; cur = a_avl_pre_next(cur)) *)
Lemma a_avl_pre_foreach_loop : forall rd fuel0 fuel cur,
  u_a_avl_pre_foreach_loop1 rd fuel0 fuel cur = res_map (fun l => (l, tt)) (iterate (pre_next rd fuel0) fuel cur).
Proof. foreach_loop u_a_avl_pre_foreach_loop1 tie_a_avl_pre_next. Qed.
Theorem tie_u_a_avl_pre_foreach : forall rd fuel root, u_a_avl_pre_foreach rd fuel root = pre_foreach rd fuel root.
Proof. foreach_tie u_a_avl_pre_foreach pre_foreach u_a_avl_pre_foreach_loop1 a_avl_pre_foreach_loop I. Qed.

(* ---- A_AVL_PRE_FOREACH:  for (cur = (root)->node; cur; cur = a_avl_pre_next(cur)) *)
Lemma A_AVL_PRE_FOREACH_loop : forall rd fuel0 fuel cur,
  u_A_AVL_PRE_FOREACH_loop1 rd fuel0 fuel cur = res_map (fun l => (l, tt)) (iterate (pre_next rd fuel0) fuel cur).
Proof. foreach_loop u_A_AVL_PRE_FOREACH_loop1 tie_a_avl_pre_next. Qed.
Theorem tie_u_A_AVL_PRE_FOREACH : forall rd fuel root, u_A_AVL_PRE_FOREACH rd fuel root = pre_foreach rd fuel root.
Proof. foreach_tie u_A_AVL_PRE_FOREACH pre_foreach u_A_AVL_PRE_FOREACH_loop1 A_AVL_PRE_FOREACH_loop I. Qed.

(* ---- a_avl_pre_foreach_reverse:  for (cur = (root)->node; cur; cur = a_avl_pre_prev(cur)) *)
Lemma a_avl_pre_foreach_reverse_loop : forall rd fuel0 fuel cur,
  u_a_avl_pre_foreach_reverse_loop1 rd fuel0 fuel cur = res_map (fun l => (l, tt)) (iterate (pre_prev rd fuel0) fuel cur).
Proof. foreach_loop u_a_avl_pre_foreach_reverse_loop1 tie_a_avl_pre_prev. Qed.
Theorem tie_u_a_avl_pre_foreach_reverse : forall rd fuel root, u_a_avl_pre_foreach_reverse rd fuel root = pre_foreach_reverse rd fuel root.
Proof. foreach_tie u_a_avl_pre_foreach_reverse pre_foreach_reverse u_a_avl_pre_foreach_reverse_loop1 a_avl_pre_foreach_reverse_loop I. Qed.

(* ---- A_AVL_PRE_FOREACH_REVERSE:  for (cur = (root)->node; cur; cur = a_avl_pre_prev(cur)) *)
Lemma A_AVL_PRE_FOREACH_REVERSE_loop : forall rd fuel0 fuel cur,
  u_A_AVL_PRE_FOREACH_REVERSE_loop1 rd fuel0 fuel cur = res_map (fun l => (l, tt)) (iterate (pre_prev rd fuel0) fuel cur).
Proof. foreach_loop u_A_AVL_PRE_FOREACH_REVERSE_loop1 tie_a_avl_pre_prev. Qed.
Theorem tie_u_A_AVL_PRE_FOREACH_REVERSE : forall rd fuel root, u_A_AVL_PRE_FOREACH_REVERSE rd fuel root = pre_foreach_reverse rd fuel root.
Proof. foreach_tie u_A_AVL_PRE_FOREACH_REVERSE pre_foreach_reverse u_A_AVL_PRE_FOREACH_REVERSE_loop1 A_AVL_PRE_FOREACH_REVERSE_loop I. Qed.

(* ---- a_avl_post_foreach:  for (cur = a_avl_post_head(root); cur; cur = a_avl_post_next(cur)) *)
Lemma a_avl_post_foreach_loop : forall rd fuel0 fuel cur,
  u_a_avl_post_foreach_loop1 rd fuel0 fuel cur = res_map (fun l => (l, tt)) (iterate (post_next rd fuel0) fuel cur).
Proof. foreach_loop u_a_avl_post_foreach_loop1 tie_a_avl_post_next. Qed.
Theorem tie_u_a_avl_post_foreach : forall rd fuel root, u_a_avl_post_foreach rd fuel root = post_foreach rd fuel root.
Proof. foreach_tie u_a_avl_post_foreach post_foreach u_a_avl_post_foreach_loop1 a_avl_post_foreach_loop tie_a_avl_post_head. Qed.

(* ---- A_AVL_POST_FOREACH:  for (cur = a_avl_post_head(root); cur; cur = a_avl_post_next(cur)) *)
Lemma A_AVL_POST_FOREACH_loop : forall rd fuel0 fuel cur,
  u_A_AVL_POST_FOREACH_loop1 rd fuel0 fuel cur = res_map (fun l => (l, tt)) (iterate (post_next rd fuel0) fuel cur).
Proof. foreach_loop u_A_AVL_POST_FOREACH_loop1 tie_a_avl_post_next. Qed.
Theorem tie_u_A_AVL_POST_FOREACH : forall rd fuel root, u_A_AVL_POST_FOREACH rd fuel root = post_foreach rd fuel root.
Proof. foreach_tie u_A_AVL_POST_FOREACH post_foreach u_A_AVL_POST_FOREACH_loop1 A_AVL_POST_FOREACH_loop tie_a_avl_post_head. Qed.

(* ---- a_avl_post_foreach_reverse:  for (cur = a_avl_post_tail(root); cur; cur = a_avl_post_prev(cur)) *)
Lemma a_avl_post_foreach_reverse_loop : forall rd fuel0 fuel cur,
  u_a_avl_post_foreach_reverse_loop1 rd fuel0 fuel cur = res_map (fun l => (l, tt)) (iterate (post_prev rd fuel0) fuel cur).
Proof. foreach_loop u_a_avl_post_foreach_reverse_loop1 tie_a_avl_post_prev. Qed.
Theorem tie_u_a_avl_post_foreach_reverse : forall rd fuel root, u_a_avl_post_foreach_reverse rd fuel root = post_foreach_reverse rd fuel root.
Proof. foreach_tie u_a_avl_post_foreach_reverse post_foreach_reverse u_a_avl_post_foreach_reverse_loop1 a_avl_post_foreach_reverse_loop tie_a_avl_post_tail. Qed.

(* ---- A_AVL_POST_FOREACH_REVERSE:  for (cur = a_avl_post_tail(root); cur; cur = a_avl_post_prev(cur)) *)
Lemma A_AVL_POST_FOREACH_REVERSE_loop : forall rd fuel0 fuel cur,
  u_A_AVL_POST_FOREACH_REVERSE_loop1 rd fuel0 fuel cur = res_map (fun l => (l, tt)) (iterate (post_prev rd fuel0) fuel cur).
Proof. foreach_loop u_A_AVL_POST_FOREACH_REVERSE_loop1 tie_a_avl_post_prev. Qed.
Theorem tie_u_A_AVL_POST_FOREACH_REVERSE : forall rd fuel root, u_A_AVL_POST_FOREACH_REVERSE rd fuel root = post_foreach_reverse rd fuel root.
Proof. foreach_tie u_A_AVL_POST_FOREACH_REVERSE post_foreach_reverse u_A_AVL_POST_FOREACH_REVERSE_loop1 A_AVL_POST_FOREACH_REVERSE_loop tie_a_avl_post_tail. Qed.

(* ---- a_avl_fortear:  for (next = null, cur = a_avl_tear(root, &next); cur; cur = a_avl_tear(root, &next)) *)
Lemma a_avl_fortear_loop : forall fuel0 k st,
  bind (tear fuel0 st) (fun '(cur, st') => u_a_avl_fortear_loop1 fuel0 k st' cur) = tear_all fuel0 k st.
Proof. fortear_loop u_a_avl_fortear_loop1 tie_a_avl_tear. Qed.
Theorem tie_u_a_avl_fortear : forall fuel st, u_a_avl_fortear fuel st = tear_all fuel fuel (mkT (th st) (troot st) None).
Proof.
  intros fuel st; cbv beta delta [u_a_avl_fortear set_next] zeta; rewrite tie_a_avl_tear.
  rewrite <- a_avl_fortear_loop. destruct (tear fuel _) as [[cur st1]| |]; cbn [bind]; try reflexivity. apply bind_log_ret.
Qed.
(* ... and therefore the complete tear-down of a tree exactly as C03_tear_complete states it, whatever the caller's `next` held *)
Corollary u_a_avl_fortear_complete : forall h t fuel nxt,
  Repr (rdh h) None t -> NoDup (ids t) -> hsub h t -> size t < fuel ->
  exists st', u_a_avl_fortear fuel (mkT h (root_id t) nxt) = Ok (postorder t, st')
    /\ ChildrenFirst (postorder t) t /\ NoDup (postorder t) /\ Permutation (postorder t) (ids t)
    /\ troot st' = None /\ tnext st' = None /\ (forall x, rdh (th st') x = None).
Proof. intros h t fuel nxt HR HN HS Hf; rewrite tie_u_a_avl_fortear; cbn [th troot]; apply tear_all_complete; auto using PeanoNat.Nat.lt_le_incl. Qed.

(* ---- A_AVL_FORTEAR:  for (next = null, cur = a_avl_tear(root, &next); cur; cur = a_avl_tear(root, &next)) *)
Lemma A_AVL_FORTEAR_loop : forall fuel0 k st,
  bind (tear fuel0 st) (fun '(cur, st') => u_A_AVL_FORTEAR_loop1 fuel0 k st' cur) = tear_all fuel0 k st.
Proof. fortear_loop u_A_AVL_FORTEAR_loop1 tie_a_avl_tear. Qed.
Theorem tie_u_A_AVL_FORTEAR : forall fuel st, u_A_AVL_FORTEAR fuel st = tear_all fuel fuel (mkT (th st) (troot st) None).
Proof.
  intros fuel st; cbv beta delta [u_A_AVL_FORTEAR set_next] zeta; rewrite tie_a_avl_tear.
  rewrite <- A_AVL_FORTEAR_loop. destruct (tear fuel _) as [[cur st1]| |]; cbn [bind]; try reflexivity. apply bind_log_ret.
Qed.
(* ... and therefore the complete tear-down of a tree exactly as C03_tear_complete states it, whatever the caller's `next` held *)
Corollary u_A_AVL_FORTEAR_complete : forall h t fuel nxt,
  Repr (rdh h) None t -> NoDup (ids t) -> hsub h t -> size t < fuel ->
  exists st', u_A_AVL_FORTEAR fuel (mkT h (root_id t) nxt) = Ok (postorder t, st')
    /\ ChildrenFirst (postorder t) t /\ NoDup (postorder t) /\ Permutation (postorder t) (ids t)
    /\ troot st' = None /\ tnext st' = None /\ (forall x, rdh (th st') x = None).
Proof. intros h t fuel nxt HR HN HS Hf; rewrite tie_u_A_AVL_FORTEAR; cbn [th troot]; apply tear_all_complete; auto using PeanoNat.Nat.lt_le_incl. Qed.

(* ================================================================== include/a/rbt.h *)

(* ---- a_rbt_foreach:  for (cur = a_rbt_head(root); cur; cur = a_rbt_next(cur)) *)
Lemma a_rbt_foreach_loop : forall rd fuel0 fuel cur,
  u_a_rbt_foreach_loop1 rd fuel0 fuel cur = res_map (fun l => (l, tt)) (iterate (next rd fuel0) fuel cur).
Proof. foreach_loop u_a_rbt_foreach_loop1 tie_a_rbt_next. Qed.
Theorem tie_u_a_rbt_foreach : forall rd fuel root, u_a_rbt_foreach rd fuel root = foreach rd fuel root.
Proof. foreach_tie u_a_rbt_foreach foreach u_a_rbt_foreach_loop1 a_rbt_foreach_loop tie_a_rbt_head. Qed.

(* ---- A_RBT_FOREACH:  for (cur = a_rbt_head(root); cur; cur = a_rbt_next(cur)) *)
Lemma A_RBT_FOREACH_loop : forall rd fuel0 fuel cur,
  u_A_RBT_FOREACH_loop1 rd fuel0 fuel cur = res_map (fun l => (l, tt)) (iterate (next rd fuel0) fuel cur).
Proof. foreach_loop u_A_RBT_FOREACH_loop1 tie_a_rbt_next. Qed.
Theorem tie_u_A_RBT_FOREACH : forall rd fuel root, u_A_RBT_FOREACH rd fuel root = foreach rd fuel root.
Proof. foreach_tie u_A_RBT_FOREACH foreach u_A_RBT_FOREACH_loop1 A_RBT_FOREACH_loop tie_a_rbt_head. Qed.

(* ---- a_rbt_foreach_reverse:  for (cur = a_rbt_tail(root); cur; cur = a_rbt_prev(cur)) *)
Lemma a_rbt_foreach_reverse_loop : forall rd fuel0 fuel cur,
  u_a_rbt_foreach_reverse_loop1 rd fuel0 fuel cur = res_map (fun l => (l, tt)) (iterate (prev rd fuel0) fuel cur).
Proof. foreach_loop u_a_rbt_foreach_reverse_loop1 tie_a_rbt_prev. Qed.
Theorem tie_u_a_rbt_foreach_reverse : forall rd fuel root, u_a_rbt_foreach_reverse rd fuel root = foreach_reverse rd fuel root.
Proof. foreach_tie u_a_rbt_foreach_reverse foreach_reverse u_a_rbt_foreach_reverse_loop1 a_rbt_foreach_reverse_loop tie_a_rbt_tail. Qed.

(* ---- A_RBT_FOREACH_REVERSE:  for (cur = a_rbt_tail(root); cur; cur = a_rbt_prev(cur)) *)
Lemma A_RBT_FOREACH_REVERSE_loop : forall rd fuel0 fuel cur,
  u_A_RBT_FOREACH_REVERSE_loop1 rd fuel0 fuel cur = res_map (fun l => (l, tt)) (iterate (prev rd fuel0) fuel cur).
Proof. foreach_loop u_A_RBT_FOREACH_REVERSE_loop1 tie_a_rbt_prev. Qed.
Theorem tie_u_A_RBT_FOREACH_REVERSE : forall rd fuel root, u_A_RBT_FOREACH_REVERSE rd fuel root = foreach_reverse rd fuel root.
Proof. foreach_tie u_A_RBT_FOREACH_REVERSE foreach_reverse u_A_RBT_FOREACH_REVERSE_loop1 A_RBT_FOREACH_REVERSE_loop tie_a_rbt_tail. Qed.

(* ---- a_rbt_pre_foreach:  for (cur = (root)->node; cur; cur = a_rbt_pre_next(cur)) *)
Lemma a_rbt_pre_foreach_loop : forall rd fuel0 fuel cur,
  u_a_rbt_pre_foreach_loop1 rd fuel0 fuel cur = res_map (fun l => (l, tt)) (iterate (pre_next rd fuel0) fuel cur).
Proof. foreach_loop u_a_rbt_pre_foreach_loop1 tie_a_rbt_pre_next. Qed.
Theorem tie_u_a_rbt_pre_foreach : forall rd fuel root, u_a_rbt_pre_foreach rd fuel root = pre_foreach rd fuel root.
Proof. foreach_tie u_a_rbt_pre_foreach pre_foreach u_a_rbt_pre_foreach_loop1 a_rbt_pre_foreach_loop I. Qed.

(* ---- A_RBT_PRE_FOREACH:  for (cur = (root)->node; cur; cur = a_rbt_pre_next(cur)) *)
Lemma A_RBT_PRE_FOREACH_loop : forall rd fuel0 fuel cur,
  u_A_RBT_PRE_FOREACH_loop1 rd fuel0 fuel cur = res_map (fun l => (l, tt)) (iterate (pre_next rd fuel0) fuel cur).
Proof. foreach_loop u_A_RBT_PRE_FOREACH_loop1 tie_a_rbt_pre_next. Qed.
Theorem tie_u_A_RBT_PRE_FOREACH : forall rd fuel root, u_A_RBT_PRE_FOREACH rd fuel root = pre_foreach rd fuel root.
Proof. foreach_tie u_A_RBT_PRE_FOREACH pre_foreach u_A_RBT_PRE_FOREACH_loop1 A_RBT_PRE_FOREACH_loop I. Qed.

(* ---- a_rbt_pre_foreach_reverse:  for (cur = (root)->node; cur; cur = a_rbt_pre_prev(cur)) *)
Lemma a_rbt_pre_foreach_reverse_loop : forall rd fuel0 fuel cur,
  u_a_rbt_pre_foreach_reverse_loop1 rd fuel0 fuel cur = res_map (fun l => (l, tt)) (iterate (pre_prev rd fuel0) fuel cur).
Proof. foreach_loop u_a_rbt_pre_foreach_reverse_loop1 tie_a_rbt_pre_prev. Qed.
Theorem tie_u_a_rbt_pre_foreach_reverse : forall rd fuel root, u_a_rbt_pre_foreach_reverse rd fuel root = pre_foreach_reverse rd fuel root.
Proof. foreach_tie u_a_rbt_pre_foreach_reverse pre_foreach_reverse u_a_rbt_pre_foreach_reverse_loop1 a_rbt_pre_foreach_reverse_loop I. Qed.

(* ---- A_RBT_PRE_FOREACH_REVERSE:  for (cur = (root)->node; cur; cur = a_rbt_pre_prev(cur)) *)
Lemma A_RBT_PRE_FOREACH_REVERSE_loop : forall rd fuel0 fuel cur,
  u_A_RBT_PRE_FOREACH_REVERSE_loop1 rd fuel0 fuel cur = res_map (fun l => (l, tt)) (iterate (pre_prev rd fuel0) fuel cur).
Proof. foreach_loop u_A_RBT_PRE_FOREACH_REVERSE_loop1 tie_a_rbt_pre_prev. Qed.
Theorem tie_u_A_RBT_PRE_FOREACH_REVERSE : forall rd fuel root, u_A_RBT_PRE_FOREACH_REVERSE rd fuel root = pre_foreach_reverse rd fuel root.
Proof. foreach_tie u_A_RBT_PRE_FOREACH_REVERSE pre_foreach_reverse u_A_RBT_PRE_FOREACH_REVERSE_loop1 A_RBT_PRE_FOREACH_REVERSE_loop I. Qed.

(* ---- a_rbt_post_foreach:  for (cur = a_rbt_post_head(root); cur; cur = a_rbt_post_next(cur)) *)
Lemma a_rbt_post_foreach_loop : forall rd fuel0 fuel cur,
  u_a_rbt_post_foreach_loop1 rd fuel0 fuel cur = res_map (fun l => (l, tt)) (iterate (post_next rd fuel0) fuel cur).
Proof. foreach_loop u_a_rbt_post_foreach_loop1 tie_a_rbt_post_next. Qed.
Theorem tie_u_a_rbt_post_foreach : forall rd fuel root, u_a_rbt_post_foreach rd fuel root = post_foreach rd fuel root.
Proof. foreach_tie u_a_rbt_post_foreach post_foreach u_a_rbt_post_foreach_loop1 a_rbt_post_foreach_loop tie_a_rbt_post_head. Qed.

(* ---- A_RBT_POST_FOREACH:  for (cur = a_rbt_post_head(root); cur; cur = a_rbt_post_next(cur)) *)
Lemma A_RBT_POST_FOREACH_loop : forall rd fuel0 fuel cur,
  u_A_RBT_POST_FOREACH_loop1 rd fuel0 fuel cur = res_map (fun l => (l, tt)) (iterate (post_next rd fuel0) fuel cur).
Proof. foreach_loop u_A_RBT_POST_FOREACH_loop1 tie_a_rbt_post_next. Qed.
Theorem tie_u_A_RBT_POST_FOREACH : forall rd fuel root, u_A_RBT_POST_FOREACH rd fuel root = post_foreach rd fuel root.
Proof. foreach_tie u_A_RBT_POST_FOREACH post_foreach u_A_RBT_POST_FOREACH_loop1 A_RBT_POST_FOREACH_loop tie_a_rbt_post_head. Qed.

(* ---- a_rbt_post_foreach_reverse:  for (cur = a_rbt_post_tail(root); cur; cur = a_rbt_post_prev(cur)) *)
Lemma a_rbt_post_foreach_reverse_loop : forall rd fuel0 fuel cur,
  u_a_rbt_post_foreach_reverse_loop1 rd fuel0 fuel cur = res_map (fun l => (l, tt)) (iterate (post_prev rd fuel0) fuel cur).
Proof. foreach_loop u_a_rbt_post_foreach_reverse_loop1 tie_a_rbt_post_prev. Qed.
Theorem tie_u_a_rbt_post_foreach_reverse : forall rd fuel root, u_a_rbt_post_foreach_reverse rd fuel root = post_foreach_reverse rd fuel root.
Proof. foreach_tie u_a_rbt_post_foreach_reverse post_foreach_reverse u_a_rbt_post_foreach_reverse_loop1 a_rbt_post_foreach_reverse_loop tie_a_rbt_post_tail. Qed.

(* ---- A_RBT_POST_FOREACH_REVERSE:  for (cur = a_rbt_post_tail(root); cur; cur = a_rbt_post_prev(cur)) *)
Lemma A_RBT_POST_FOREACH_REVERSE_loop : forall rd fuel0 fuel cur,
  u_A_RBT_POST_FOREACH_REVERSE_loop1 rd fuel0 fuel cur = res_map (fun l => (l, tt)) (iterate (post_prev rd fuel0) fuel cur).
Proof. foreach_loop u_A_RBT_POST_FOREACH_REVERSE_loop1 tie_a_rbt_post_prev. Qed.
Theorem tie_u_A_RBT_POST_FOREACH_REVERSE : forall rd fuel root, u_A_RBT_POST_FOREACH_REVERSE rd fuel root = post_foreach_reverse rd fuel root.
Proof. foreach_tie u_A_RBT_POST_FOREACH_REVERSE post_foreach_reverse u_A_RBT_POST_FOREACH_REVERSE_loop1 A_RBT_POST_FOREACH_REVERSE_loop tie_a_rbt_post_tail. Qed.

(* ---- a_rbt_fortear:  for (next = null, cur = a_rbt_tear(root, &next); cur; cur = a_rbt_tear(root, &next)) *)
Lemma a_rbt_fortear_loop : forall fuel0 k st,
  bind (tear fuel0 st) (fun '(cur, st') => u_a_rbt_fortear_loop1 fuel0 k st' cur) = tear_all fuel0 k st.
Proof. fortear_loop u_a_rbt_fortear_loop1 tie_a_rbt_tear. Qed.
Theorem tie_u_a_rbt_fortear : forall fuel st, u_a_rbt_fortear fuel st = tear_all fuel fuel (mkT (th st) (troot st) None).
Proof.
  intros fuel st; cbv beta delta [u_a_rbt_fortear set_next] zeta; rewrite tie_a_rbt_tear.
  rewrite <- a_rbt_fortear_loop. destruct (tear fuel _) as [[cur st1]| |]; cbn [bind]; try reflexivity. apply bind_log_ret.
Qed.
(* ... and therefore the complete tear-down of a tree exactly as C03_tear_complete states it, whatever the caller's `next` held *)
Corollary u_a_rbt_fortear_complete : forall h t fuel nxt,
  Repr (rdh h) None t -> NoDup (ids t) -> hsub h t -> size t < fuel ->
  exists st', u_a_rbt_fortear fuel (mkT h (root_id t) nxt) = Ok (postorder t, st')
    /\ ChildrenFirst (postorder t) t /\ NoDup (postorder t) /\ Permutation (postorder t) (ids t)
    /\ troot st' = None /\ tnext st' = None /\ (forall x, rdh (th st') x = None).
Proof. intros h t fuel nxt HR HN HS Hf; rewrite tie_u_a_rbt_fortear; cbn [th troot]; apply tear_all_complete; auto using PeanoNat.Nat.lt_le_incl. Qed.

(* ---- A_RBT_FORTEAR:  for (next = null, cur = a_rbt_tear(root, &next); cur; cur = a_rbt_tear(root, &next)) *)
Lemma A_RBT_FORTEAR_loop : forall fuel0 k st,
  bind (tear fuel0 st) (fun '(cur, st') => u_A_RBT_FORTEAR_loop1 fuel0 k st' cur) = tear_all fuel0 k st.
Proof. fortear_loop u_A_RBT_FORTEAR_loop1 tie_a_rbt_tear. Qed.
Theorem tie_u_A_RBT_FORTEAR : forall fuel st, u_A_RBT_FORTEAR fuel st = tear_all fuel fuel (mkT (th st) (troot st) None).
Proof.
  intros fuel st; cbv beta delta [u_A_RBT_FORTEAR set_next] zeta; rewrite tie_a_rbt_tear.
  rewrite <- A_RBT_FORTEAR_loop. destruct (tear fuel _) as [[cur st1]| |]; cbn [bind]; try reflexivity. apply bind_log_ret.
Qed.
(* ... and therefore the complete tear-down of a tree exactly as C03_tear_complete states it, whatever the caller's `next` held *)
Corollary u_A_RBT_FORTEAR_complete : forall h t fuel nxt,
  Repr (rdh h) None t -> NoDup (ids t) -> hsub h t -> size t < fuel ->
  exists st', u_A_RBT_FORTEAR fuel (mkT h (root_id t) nxt) = Ok (postorder t, st')
    /\ ChildrenFirst (postorder t) t /\ NoDup (postorder t) /\ Permutation (postorder t) (ids t)
    /\ troot st' = None /\ tnext st' = None /\ (forall x, rdh (th st') x = None).
Proof. intros h t fuel nxt HR HN HS Hf; rewrite tie_u_A_RBT_FORTEAR; cbn [th troot]; apply tear_all_complete; auto using PeanoNat.Nat.lt_le_incl. Qed.

