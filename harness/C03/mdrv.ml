(* C03 model driver: runs the EXTRACTED Gallina iterators/tear (module Iter, from coq/C03/IterDefs.v)
   on the heap dumped by the C harness.

   stdin : for every case the two lines   case <idx> <kind> k=<k> s=<start node or 0>   and   shape root=<r> n=<n> id:l,r,p ...
   stdout: the same canonical lines the C harness prints (minus its '#...' and 'lower' lines),
           plus '#wf <0|1>' = the model's own decision whether the dumped heap is a parent-linked
           tree with distinct ids (hypothesis of the theorems).
   Hand-written and trusted: int <-> positive / nat conversion, parsing, printing. *)
open Iter

let rec pos_of_int n =
  if n <= 1 then XH
  else if n land 1 = 0 then XO (pos_of_int (n lsr 1))
  else XI (pos_of_int (n lsr 1))

let rec int_of_pos = function
  | XH -> 1
  | XO p -> 2 * int_of_pos p
  | XI p -> 2 * int_of_pos p + 1

let nat_of_int n =
  let rec go acc n = if n <= 0 then acc else go (S acc) (n - 1) in
  go O n

let oid n = if n = 0 then None else Some (pos_of_int n)
let ido = function None -> 0 | Some p -> int_of_pos p

let buf = Buffer.create 65536
let pr s = Buffer.add_string buf s
let flush_buf () = print_string (Buffer.contents buf); Buffer.clear buf

let pr_ids l = List.iter (fun p -> pr " "; pr (string_of_int (int_of_pos p))) l

let pr_seq tag (r : id list res) =
  pr tag;
  (match r with
   | Ok l -> pr_ids l
   | Stuck -> pr " STUCK"
   | OutOfFuel -> pr " FUEL");
  pr "\n"

let after_eq s =
  match String.index_opt s '=' with
  | Some i -> String.sub s (i + 1) (String.length s - i - 1)
  | None -> s

let sorted_nodes (h : heap) =
  let l = List.map (fun (p, nd) -> (int_of_pos p, nd)) (heap_elements h) in
  List.sort (fun (a, _) (b, _) -> compare a b) l

let pr_shape tag (h : heap) (root : id option) =
  let l = sorted_nodes h in
  pr tag;
  pr (Printf.sprintf " root=%d n=%d" (ido root) (List.length l));
  List.iter (fun (i, nd) -> pr (Printf.sprintf " %d:%d,%d,%d" i (ido nd.nl) (ido nd.nr) (ido nd.np))) l;
  pr "\n";
  l

let iters pfx (h : heap) root n all =
  let rd = rdh h in
  let fuel = nat_of_int (n + 1) in
  pr_seq (pfx ^ "in") (foreach rd fuel root);
  if all then pr_seq (pfx ^ "inr") (foreach_reverse rd fuel root);
  pr_seq (pfx ^ "pre") (pre_foreach rd fuel root);
  if all then pr_seq (pfx ^ "prer") (pre_foreach_reverse rd fuel root);
  pr_seq (pfx ^ "post") (post_foreach rd fuel root);
  if all then pr_seq (pfx ^ "postr") (post_foreach_reverse rd fuel root)

let pr_step = function
  | Ok o -> pr (string_of_int (ido o))
  | Stuck -> pr "STUCK"
  | OutOfFuel -> pr "FUEL"

let steps tag f nodes =
  pr tag;
  List.iter (fun (i, _) -> pr (Printf.sprintf " %d>" i); pr_step (f (pos_of_int i))) nodes;
  pr "\n"

let pr_tear tag (r : (id list * tstate) res) =
  pr tag;
  match r with
  | Ok (l, st) ->
    pr_ids l;
    pr (Printf.sprintf " | root=%d next=%d\n" (ido st.troot) (ido st.tnext));
    Some st
  | Stuck -> pr " STUCK\n"; None
  | OutOfFuel -> pr " FUEL\n"; None

let run_case case_line shape_line =
  let ctoks = String.split_on_char ' ' (String.trim case_line) in
  let field pfx = List.fold_left (fun acc t ->
      if String.length t > String.length pfx && String.sub t 0 (String.length pfx) = pfx then int_of_string (after_eq t) else acc) 0 ctoks in
  let k = field "k=" in
  let start = field "s=" in   (* node the tear-down starts at; 0 = NULL = the root *)
  let stoks = List.filter (fun s -> s <> "") (String.split_on_char ' ' (String.trim shape_line)) in
  let root, n, nodes =
    match stoks with
    | _ :: r :: n :: rest -> (int_of_string (after_eq r), int_of_string (after_eq n), rest)
    | _ -> (0, 0, [])
  in
  let h =
    List.fold_left
      (fun h tok ->
         Scanf.sscanf tok "%d:%d,%d,%d" (fun i l r p -> heap_add (pos_of_int i) (oid l) (oid r) (oid p) h))
      heap_empty nodes
  in
  let root = oid root in
  pr (String.trim case_line); pr "\n";
  let nodes = pr_shape "shape" h root in
  let n' = List.length nodes in
  pr (Printf.sprintf "#wf %d\n" (if n' = n && wf_heap h root (nat_of_int n') then 1 else 0));
  let fuel = nat_of_int (n' + 1) in
  let rd = rdh h in
  iters "" h root n' true;
  steps "next" (next rd fuel) nodes;
  steps "prev" (prev rd fuel) nodes;
  steps "pnext" (pre_next rd fuel) nodes;
  steps "pprev" (pre_prev rd fuel) nodes;
  steps "qnext" (post_next rd fuel) nodes;
  steps "qprev" (post_prev rd fuel) nodes;
  pr "ends ";
  pr_step (head rd fuel root); pr " ";
  pr_step (tail rd fuel root); pr " ";
  pr_step (post_head rd fuel root); pr " ";
  pr_step (post_tail rd fuel root); pr "\n";
  let st0 = { th = h; troot = root; tnext = (if start = 0 then None else oid start) } in
  (match pr_tear "tear" (fortear fuel (nat_of_int k) st0) with
   | None -> ()
   | Some st ->
     let rem = pr_shape "rshape" st.th st.troot in
     let m = List.length rem in
     iters "r" st.th st.troot m false;
     ignore (pr_tear "rest" (fortear (nat_of_int (m + 1)) (nat_of_int (m + 1)) st)));
  flush_buf ()

let () =
  let pending = ref None in
  (try
     while true do
       let line = input_line stdin in
       if String.length line >= 5 && String.sub line 0 5 = "case " then pending := Some line
       else if String.length line >= 6 && String.sub line 0 6 = "shape " then
         (match !pending with
          | Some c -> run_case c line; pending := None
          | None -> ())
     done
   with End_of_file -> ());
  flush_buf ()
