/* C03 correspondence harness: tree iterators and tear-down on real AVL and RB trees.

   stdin: one case per line   <kind> <k> <op> <op> ...
     kind  A = AVL tree built by the history, R = red-black tree built by the history,
           a / r = hand-linked binary tree of a_avl_node / a_rbt_node (a_*_init + left/right fields)
     k     interrupt the tear-down after k handed-out nodes
     op    i<id>:<key>  insert a fresh node <id> with key <key>      (history kinds)
           d<id>        remove node <id> (if present) and free it
           t<id>        hand-linked root;  l<id>:<pid> / g<id>:<pid>  left / right child of <pid>
           s<id>        start the tear-down at node <id> instead of at the root (a_*_tear's `next` argument on entry)
   stdout: canonical lines (ids only, never addresses), see checks/C03.py.
   Every node is its own malloc block and is free()d as soon as tear hands it out (ASan on). */
#define _POSIX_C_SOURCE 200809L
#include <stdio.h>
#include <stdlib.h>
#include <string.h>
#include <signal.h>
#include <unistd.h>
#include "a/a.h"
#include "a/avl.h"
#include "a/rbt.h"

#define CAT_(a, b) a##b
#define CAT(a, b) CAT_(a, b)

#define T_NODE a_avl_node
#define T_ROOT a_avl
#define F(x) a_avl_##x
#define M(x) A_AVL_##x
#define RUN run_avl
#include "C03/body.h"
#undef T_NODE
#undef T_ROOT
#undef F
#undef M
#undef RUN

#define T_NODE a_rbt_node
#define T_ROOT a_rbt
#define F(x) a_rbt_##x
#define M(x) A_RBT_##x
#define RUN run_rbt
#include "C03/body.h"

static void on_alarm(int sig)
{
    static char const msg[] = "\nTIMEOUT (a library loop did not terminate)\n";
    (void)sig;
    if (write(2, msg, sizeof(msg) - 1) < 0) { _exit(98); }
    _exit(97);
}

int main(void)
{
    char *line = 0;
    size_t cap = 0;
    long caseno = 0;
    signal(SIGALRM, on_alarm);
    while (getline(&line, &cap, stdin) > 0)
    {
        char kind;
        long k;
        int off = 0;
        if (line[0] == '#' || line[0] == '\n') { continue; }
        alarm(20);
        if (sscanf(line, " %c %ld %n", &kind, &k, &off) < 2) { continue; }
        if (kind == 'A' || kind == 'a') { run_avl(caseno, kind, k, line + off); }
        else if (kind == 'R' || kind == 'r') { run_rbt(caseno, kind, k, line + off); }
        else { continue; }
        ++caseno;
        fflush(stdout);
    }
    free(line);
    return 0;
}
