/* C03 harness body, included twice (AVL and RBT).  Expects:
     T_NODE T_ROOT  node / root types      F(x)  a_avl_##x      M(x)  A_AVL_##x (upper-case macros)
     RUN            name of the generated function                                              */

typedef struct
{
    T_NODE n; /* first member: container == node address */
    int id;
    int key;
} CAT(ent_, RUN);
#define ENT CAT(ent_, RUN)

static int CAT(cmp_, RUN)(void const *l, void const *r)
{
    int a = ((ENT const *)l)->key, b = ((ENT const *)r)->key;
    return (a > b) - (a < b);
}

static int CAT(idof_, RUN)(T_NODE const *p) { return p ? ((ENT const *)p)->id : 0; }
#define IDOF(p) CAT(idof_, RUN)(p)

/* collect live nodes by walking left/right from the root (never touches a freed node if the
   structure is a tree of live nodes) */
static void CAT(collect_, RUN)(T_NODE *p, ENT **out, long *n, long lim)
{
    if (!p || *n >= lim) { return; }
    out[(*n)++] = (ENT *)p;
    CAT(collect_, RUN)(p->left, out, n, lim);
    CAT(collect_, RUN)(p->right, out, n, lim);
}

static int CAT(byid_, RUN)(void const *a, void const *b)
{
    int x = (*(ENT *const *)a)->id, y = (*(ENT *const *)b)->id;
    return (x > y) - (x < y);
}

static void CAT(shape_, RUN)(char const *tag, T_ROOT *root, ENT **buf, long *pn, long lim)
{
    long n = 0, i;
    CAT(collect_, RUN)(root->node, buf, &n, lim);
    qsort(buf, (size_t)n, sizeof(ENT *), CAT(byid_, RUN));
    printf("%s root=%d n=%ld", tag, IDOF(root->node), n);
    for (i = 0; i < n; ++i)
    {
        printf(" %d:%d,%d,%d", buf[i]->id, IDOF(buf[i]->n.left), IDOF(buf[i]->n.right),
               IDOF(F(parent)(&buf[i]->n)));
    }
    printf("\n");
    *pn = n;
}

#define SEQ_BEGIN(tag)   \
    printf("%s", tag);   \
    cnt = 0
#define SEQ_ITEM(cur)                                \
    if (++cnt > lim) { printf(" LOOP"); break; }     \
    printf(" %d", IDOF(cur))
#define SEQ_END() printf("\n")

static void CAT(iters_, RUN)(char const *pfx, T_ROOT *root, long n, int all)
{
    long cnt, lim = 2 * n + 4;
    T_NODE *cur;
    SEQ_BEGIN(pfx); printf("in");
    M(FOREACH)(cur, root) { SEQ_ITEM(cur); }
    SEQ_END();
    if (all)
    {
        SEQ_BEGIN(pfx); printf("inr");
        M(FOREACH_REVERSE)(cur, root) { SEQ_ITEM(cur); }
        SEQ_END();
    }
    SEQ_BEGIN(pfx); printf("pre");
    M(PRE_FOREACH)(cur, root) { SEQ_ITEM(cur); }
    SEQ_END();
    if (all)
    {
        SEQ_BEGIN(pfx); printf("prer");
        M(PRE_FOREACH_REVERSE)(cur, root) { SEQ_ITEM(cur); }
        SEQ_END();
    }
    SEQ_BEGIN(pfx); printf("post");
    M(POST_FOREACH)(cur, root) { SEQ_ITEM(cur); }
    SEQ_END();
    if (all)
    {
        SEQ_BEGIN(pfx); printf("postr");
        M(POST_FOREACH_REVERSE)(cur, root) { SEQ_ITEM(cur); }
        SEQ_END();
    }
}

/* the lower-case (declaring) macro forms must enumerate exactly what the upper-case forms do */
static void CAT(lower_, RUN)(T_ROOT *root, long n)
{
    long lim = 2 * n + 4, c1, c2;
    int bad = 0;
    T_NODE *u;
#define CMP2(LOW, UP)                                        \
    c1 = 0;                                                  \
    u = A_NULL;                                              \
    {                                                        \
        unsigned long h1 = 0, h2 = 0;                        \
        F(LOW)(cur, root)                                    \
        {                                                    \
            if (++c1 > lim) { break; }                       \
            h1 = h1 * 1000003UL + (unsigned long)IDOF(cur);  \
        }                                                    \
        c2 = 0;                                              \
        M(UP)(u, root)                                       \
        {                                                    \
            if (++c2 > lim) { break; }                       \
            h2 = h2 * 1000003UL + (unsigned long)IDOF(u);    \
        }                                                    \
        if (c1 != c2 || h1 != h2) { bad = 1; }               \
    }
    CMP2(foreach, FOREACH)
    CMP2(foreach_reverse, FOREACH_REVERSE)
    CMP2(pre_foreach, PRE_FOREACH)
    CMP2(pre_foreach_reverse, PRE_FOREACH_REVERSE)
    CMP2(post_foreach, POST_FOREACH)
    CMP2(post_foreach_reverse, POST_FOREACH_REVERSE)
#undef CMP2
    printf("lower %s\n", bad ? "MISMATCH" : "same");
}

static void RUN(long caseno, char kind, long k, char *ops)
{
    T_ROOT root;
    ENT **tab = 0;   /* id -> entry currently in the tree */
    long tabn = 0, n = 0, i, m, yielded;
    ENT **buf;
    char *tok;
    long maxnodes = 0;
    long start = 0;   /* id of the node the tear-down starts at (0: the documented default, NULL = the root) */
    F(root)(&root);
    for (tok = strtok(ops, " \t\r\n"); tok; tok = strtok(0, " \t\r\n"))
    {
        char op = tok[0];
        long id = 0, arg = 0;
        char *colon = strchr(tok, ':');
        id = strtol(tok + 1, 0, 10);
        if (colon) { arg = strtol(colon + 1, 0, 10); }
        if (id <= 0 || id > 50000000) { continue; }
        if (id >= tabn)
        {
            long nn = tabn ? tabn : 64;
            while (nn <= id) { nn *= 2; }
            tab = (ENT **)realloc(tab, (size_t)nn * sizeof(ENT *));
            for (i = tabn; i < nn; ++i) { tab[i] = 0; }
            tabn = nn;
        }
        if (op == 's') { start = id; continue; }
        if (op == 'i')
        {
            ENT *e;
            if (tab[id]) { continue; }
            e = (ENT *)malloc(sizeof(ENT));
            e->id = (int)id;
            e->key = (int)arg;
            if (F(insert)(&root, &e->n, CAT(cmp_, RUN))) { free(e); }
            else { tab[id] = e; ++maxnodes; }
        }
        else if (op == 'd')
        {
            if (!tab[id]) { continue; }
            F(remove)(&root, &tab[id]->n);
            free(tab[id]);
            tab[id] = 0;
        }
        else if (op == 't' || op == 'l' || op == 'g')
        {
            ENT *e, *par = 0;
            if (tab[id]) { continue; }
            if (op == 't') { if (root.node) { continue; } }
            else
            {
                if (arg <= 0 || arg >= tabn || !tab[arg]) { continue; }
                par = tab[arg];
                if (op == 'l' ? par->n.left != 0 : par->n.right != 0) { continue; }
            }
            e = (ENT *)malloc(sizeof(ENT));
            e->id = (int)id;
            e->key = 0;
            F(init)(&e->n, par ? &par->n : 0);
            if (!par) { root.node = &e->n; }
            else if (op == 'l') { par->n.left = &e->n; }
            else { par->n.right = &e->n; }
            tab[id] = e;
            ++maxnodes;
        }
    }
    if (start <= 0 || start >= tabn || !tab[start]) { start = 0; }
    printf("case %ld %c k=%ld s=%ld\n", caseno, kind, k, start);
    fflush(stdout);
    buf = (ENT **)malloc((size_t)(maxnodes + 1) * sizeof(ENT *));
    CAT(shape_, RUN)("shape", &root, buf, &n, maxnodes);
    printf("#keys");
    for (i = 0; i < n; ++i) { printf(" %d:%d", buf[i]->id, buf[i]->key); }
    printf("\n");
    CAT(iters_, RUN)("", &root, n, 1);
    CAT(lower_, RUN)(&root, n);
    /* single steps from every node */
#define STEPS(tag, fn)                                                       \
    printf(tag);                                                             \
    for (i = 0; i < n; ++i) { printf(" %d>%d", buf[i]->id, IDOF(F(fn)(&buf[i]->n))); } \
    printf("\n")
    STEPS("next", next);
    STEPS("prev", prev);
    STEPS("pnext", pre_next);
    STEPS("pprev", pre_prev);
    STEPS("qnext", post_next);
    STEPS("qprev", post_prev);
#undef STEPS
    printf("ends %d %d %d %d\n", IDOF(F(head)(&root)), IDOF(F(tail)(&root)),
           IDOF(F(post_head)(&root)), IDOF(F(post_tail)(&root)));
    fflush(stdout);
    /* interrupted tear: at most k nodes, each freed as soon as it is handed out */
    {
        T_NODE *cur, *next;
        yielded = 0;
        printf("tear");
        next = start ? &tab[start]->n : A_NULL;   /* "next: input starting node or, if null, root node" */
        if (k > 0)
        {
            for (cur = F(tear)(&root, &next); cur; cur = F(tear)(&root, &next))
            {
                printf(" %d", IDOF(cur));
                free(cur);
                if (++yielded >= k || yielded > n + 2) { break; }
            }
        }
        printf(" | root=%d next=%d\n", IDOF(root.node), IDOF(next));
        fflush(stdout);
        CAT(shape_, RUN)("rshape", &root, buf, &m, maxnodes);
        CAT(iters_, RUN)("r", &root, m, 0);
        fflush(stdout);
        /* resume with the saved `next` until the tree is empty */
        printf("rest");
        yielded = 0;
        for (cur = F(tear)(&root, &next); cur; cur = F(tear)(&root, &next))
        {
            printf(" %d", IDOF(cur));
            free(cur);
            if (++yielded > m + 2) { printf(" LOOP"); break; }
        }
        printf(" | root=%d next=%d\n", IDOF(root.node), IDOF(next));
    }
    free(buf);
    free(tab);
}

#undef ENT
#undef IDOF
#undef SEQ_BEGIN
#undef SEQ_ITEM
#undef SEQ_END
