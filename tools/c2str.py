#!/usr/bin/env python3
"""c2str: translate the functions of src/str.c (and the inline ones of include/a/str.h) from clang's JSON AST into Gallina
over the vocabulary of coq/C06/StrDefs.v (property C06).  The output is the module `Gen.StrGen`, regenerated from the CURRENT
sources on every run and proved equal to the hand-written model by harness/C06/TieStr.v and TieStrLoops.v.

What a C function becomes
-------------------------
Objects.  The first `a_str *` parameter is the string the function works on: its value is a `str` of StrDefs.v (the field
`ptr` holds the CONTENT of the heap block ptr_ points to, None = NULL), threaded as S'0, S'1, ... (every store makes a new
version).  A second `a_str *` parameter is `obj'0 : option str`, None = the same object as the first (the function body is
translated twice, once per case, under `match obj'0`), Some T'0 = a different object.  A function whose `a_str *` parameters
are all `const` is a READER (no state in the result); any other is a STATE function.

Machine integers.  `a_size` / `unsigned long` values are N with the wrap written out at every operation, as the types of
clang's AST show: + is wadd, - is wsub (mod 2^64), & is N.land, ~ is wnot, ++/--/+=/-= accordingly; comparisons are N
comparisons; `int` values are Z (`(a > b) - (a < b)` is a Z subtraction: signed arithmetic is accepted only when the
translator can bound both operands so that no overflow is possible), `~0` is Z.lnot 0; `(char)c` is `uchar c`, `(int)ptr_[i]`
is `schar` of the byte (char is signed), `(int)<a_size>` is to_int (the low 32 bits, two's complement).  Enumeration constants
are evaluated from the enum declaration of the AST, `sizeof(<pointer type>)` is 8 (LP64).

Pointers.  A `char * / void *` value is a `cptr`: PNull, POwn off (into the block of the string the function works on),
PExt d off (into memory the function cannot change: a caller's buffer with content d, or the block of another, const,
object), POut off (into the caller's writable buffer, a `void *` parameter to non-const data: its content is threaded as
X'0, X'1, ... and returned), PBlk b (what a_alloc has just returned, not stored yet).  `ctx->ptr_` is `own_ptr S` in a state
function and `blk_ptr (ptr S)` in a reader; p + i is padd (no wrap: an offset that leaves the block faults at the access).
EVERY access goes through the model's checked accessors: ldb/stb (get/put), ldn/stn (sub/blit), memcpy = check for overlap +
ldn + stn, memmove = ldn + stn, memcmp = two ldn + StrDefs.memcmp (reduced to its sign, as the model), strlen = the model's
`cstr` convention.  An access outside the block, through NULL, through a PBlk or a write through PExt is None (a fault).

Allocation.  `a_alloc(p, n)` (the function pointer of a.h) is StrDefs.a_alloc on the block p designates (c_alloc: p must be
NULL or the start of the string's block), with the fault schedule SC'k threaded and the events E'k collected; the result of
an allocating function carries the rest of the schedule and its events in order (E'1 ++ E'2).
DANGLING POINTERS.  Every pointer-valued variable and the field ctx->ptr_ itself remember (at translation time) which
allocator events happened since they were computed; a use after such events is guarded by `moved (E'1 ++ ..)` (a successful
realloc or a free among them: the old block is gone, the use is a fault).  A function that returns while ctx->ptr_ may be
dangling returns None in that case.  When ctx->ptr_ is overwritten while a pointer variable that is used later still points
into the old block, the old block's content is kept as D'k (`ctx->ptr_ = NULL` in a_str_exit hands the block over): a
returned pointer is resolved by `hand` to the block it designates (None = NULL).

Control.  Statement by statement in continuation style: `if/else`, early `return`, `?:` on pure operands, `&&`/`||`/`!`
(short-circuit: an operand with effects is evaluated only when the C evaluates it); the statements after an `if` appear in
both arms.  Calls to functions translated earlier are `bind`s on their results.  a_copy/a_move are accepted after their bodies
in src/a.c have been checked to be exactly `return memcpy(dst, src, siz);` / `return memmove(dst, src, siz);`.
Loops.  `while (c) S` and `for (init; c; step) S` (with `break` / `continue`) each become a top-level
    Fixpoint <function>_loop<k> (fuel : nat) (S'0 : str) (<variables the loop assigns>) (<other variables it uses>) {struct fuel}
      : option (str * <variables the loop assigns>) := match fuel with O => None | S fuel' => <one iteration> end.
One unit of fuel is consumed at every evaluation of the loop condition; an exhausted loop is None.  A function with a loop (or
that calls one) takes `fuel` as its first parameter and starts every loop with it; fuel is a proof device: the tie theorems
hold for every fuel above the length of the string.  `return` inside a loop, nested loops, allocation inside a loop are
Unsupported.

External functions by contract (not translated): isspace (glibc's macro `(*__ctype_b_loc())[(int)(c)] & _ISspace`, recognised
by its shape) on a converted char = StrDefs.isspace of the byte ("C" locale); memchr(s, (int)(char)c, n) as a truth value =
the byte is among the n bytes at s; a_utf_encode(c, p) (src/utf.c, property C18) stores StrDefs.utf_encode c at p and returns
its length; vsnprintf(p, room, fmt, va) = StrDefs.vsn on the text the formatter produces for the function's own (fmt, va), which
replaces these two parameters as `out'0 : list N` (result |out|, 0 <= |out| < INT_MAX); va_copy / va_end leave it unchanged.

Anything else raises Unsupported(function:line) - nothing is approximated silently."""
import json
import re
import subprocess
import sys
from pathlib import Path

PRELUDE = r"""(* GENERATED by tools/c2str.py from the current sources - do not edit. *)
From Coq Require Import NArith ZArith List Bool.
From LibaV Require Import C06.StrDefs.
Import ListNotations.
Local Open Scope N_scope.

(* ---------------------------------------------------------------- vocabulary of the generated code *)
Definition bind {A B : Type} (r : option A) (k : A -> option B) : option B :=
  match r with Some a => k a | None => None end.

(* machine integers: unsigned long = N below 2^64 (wadd / wsub / wrap of StrDefs.v), int = Z *)
Definition wnot (a : N) : N := N.lxor (wrap a) (N.ones 64).                  (* ~a *)
Definition wmul (a b : N) : N := wrap (a * b).
Definition b2z (b : bool) : Z := if b then 1%Z else 0%Z.                      (* the int value of a comparison *)
Definition to_int (x : N) : Z :=                                              (* (int)<unsigned long> *)
  let y := x mod 4294967296 in if y <? 2147483648 then Z.of_N y else (Z.of_N y - 4294967296)%Z.
Definition of_int (z : Z) : N := Z.to_N (z mod 18446744073709551616)%Z.       (* (unsigned long)<int> *)

(* pointers *)
Inductive cptr : Type :=
| PNull
| PExt (d : list N) (off : N)      (* into memory the function cannot change: a caller's buffer / another object's block *)
| POwn (off : N)                   (* into the block of the string the function works on *)
| POut (off : N)                   (* into the caller's writable buffer *)
| PBlk (b : list N).               (* the block a_alloc has just returned, not stored anywhere yet *)

Definition nonnull (p : cptr) : bool := match p with PNull => false | _ => true end.
Definition padd (p : cptr) (k : N) : cptr :=
  match p with
  | PNull => PNull
  | PExt d o => PExt d (o + k)
  | POwn o => POwn (o + k)
  | POut o => POut (o + k)
  | PBlk b => match k with 0 => PBlk b | _ => PNull end
  end.
Definition own_ptr (s : str) : cptr := match ptr s with Some _ => POwn 0 | None => PNull end.
Definition blk_ptr (p : option (list N)) : cptr := match p with Some b => PExt b 0 | None => PNull end.

(* allocator events after which a pointer into the old block is dangling *)
Definition moved1 (e : ev) : bool :=
  match e with EvRealloc _ _ true => true | EvFree _ => true | _ => false end.
Definition moved (l : list ev) : bool := existsb moved1 l.

(* field stores *)
Definition set_num (s : str) (v : N) : str := mkStr (ptr s) v (mem s).
Definition set_mem (s : str) (v : N) : str := mkStr (ptr s) (num s) v.
Definition set_ptr_null (s : str) : str := mkStr None (num s) (mem s).
Definition set_ptr (s : str) (p : cptr) : option str :=
  match p with
  | PNull => Some (mkStr None (num s) (mem s))
  | PBlk b => Some (mkStr (Some b) (num s) (mem s))
  | _ => None
  end.

(* checked accesses without a string in scope (readers) *)
Definition rdn (p : cptr) (n : N) : option (list N) :=
  match p with PExt d o => sub o n d | _ => None end.
Definition rdb (p : cptr) : option N :=
  match p with PExt d o => get o d | _ => None end.
Definition rd_strlen (p : cptr) : option N :=
  match p with PExt d o => Some (len (cstr (drop o d))) | _ => None end.

(* checked accesses of a state function; [stale] = the pointer was computed before a block move *)
Definition ldn (s : str) (stale : bool) (p : cptr) (n : N) : option (list N) :=
  match p with
  | POwn o => if stale then None else match ptr s with Some b => sub o n b | None => None end
  | _ => rdn p n
  end.
Definition ldb (s : str) (stale : bool) (p : cptr) : option N :=
  match p with
  | POwn o => if stale then None else match ptr s with Some b => get o b | None => None end
  | _ => rdb p
  end.
Definition stn (s : str) (stale : bool) (p : cptr) (d : list N) : option str :=
  match p with
  | POwn o => if stale then None
              else match ptr s with
                   | Some b => match blit o d b with
                               | Some b' => Some (mkStr (Some b') (num s) (mem s))
                               | None => None
                               end
                   | None => None
                   end
  | _ => None
  end.
Definition stb (s : str) (stale : bool) (p : cptr) (v : N) : option str :=
  match p with
  | POwn o => if stale then None
              else match ptr s with
                   | Some b => match put o v b with
                               | Some b' => Some (mkStr (Some b') (num s) (mem s))
                               | None => None
                               end
                   | None => None
                   end
  | _ => None
  end.
Definition ld_strlen (s : str) (stale : bool) (p : cptr) : option N :=
  match p with
  | POwn o => if stale then None else match ptr s with Some b => Some (len (cstr (drop o b))) | None => None end
  | _ => rd_strlen p
  end.
Definition overlap (p q : cptr) (n : N) : bool :=
  match p, q with
  | POwn a, POwn b => (0 <? n) && (a <? b + n) && (b <? a + n)
  | POut a, POut b => (0 <? n) && (a <? b + n) && (b <? a + n)
  | _, _ => false
  end.
Definition c_memcpy (s : str) (sd ss : bool) (dst src : cptr) (n : N) : option str :=
  if overlap dst src n then None else bind (ldn s ss src n) (fun d => stn s sd dst d).
Definition c_memmove (s : str) (sd ss : bool) (dst src : cptr) (n : N) : option str :=
  bind (ldn s ss src n) (fun d => stn s sd dst d).

(* the same with the caller's writable buffer [x] in scope *)
Definition ldnx (s : str) (x : list N) (stale : bool) (p : cptr) (n : N) : option (list N) :=
  match p with POut o => sub o n x | _ => ldn s stale p n end.
Definition stnx (s : str) (x : list N) (stale : bool) (p : cptr) (d : list N) : option (str * list N) :=
  match p with
  | POut o => match blit o d x with Some x' => Some (s, x') | None => None end
  | _ => match stn s stale p d with Some s' => Some (s', x) | None => None end
  end.
Definition ldbx (s : str) (x : list N) (stale : bool) (p : cptr) : option N :=
  match p with POut o => get o x | _ => ldb s stale p end.
Definition stbx (s : str) (x : list N) (stale : bool) (p : cptr) (v : N) : option (str * list N) :=
  match p with
  | POut o => match put o v x with Some x' => Some (s, x') | None => None end
  | _ => match stb s stale p v with Some s' => Some (s', x) | None => None end
  end.
Definition c_memcpyx (s : str) (x : list N) (sd ss : bool) (dst src : cptr) (n : N) : option (str * list N) :=
  if overlap dst src n then None else bind (ldnx s x ss src n) (fun d => stnx s x sd dst d).
Definition c_memmovex (s : str) (x : list N) (sd ss : bool) (dst src : cptr) (n : N) : option (str * list N) :=
  bind (ldnx s x ss src n) (fun d => stnx s x sd dst d).

(* vsnprintf(p, room, fmt, va) by the contract StrDefs.vsn: [text] is what the formatter produces for (fmt, va); nothing is
   written when room = 0, otherwise min(|text|, room - 1) bytes of it and a NUL; the return value is |text| *)
Definition c_vsn (s : str) (stale : bool) (p : cptr) (room : N) (text : list N) : option str :=
  if room =? 0 then Some s
  else let k := if len text <? room then len text else room - 1 in stn s stale p (take k text ++ [0]).

(* a_alloc(p, size): p must be NULL or the start of the string's (live) block *)
Definition c_alloc (s : str) (stale : bool) (p : cptr) (size : N) (sc : sched) : option (cptr * sched * list ev) :=
  match (match p with
         | PNull => Some None
         | POwn o => if stale then None
                     else match o with 0 => match ptr s with Some b => Some (Some b) | None => None end | _ => None end
         | _ => None
         end) with
  | None => None
  | Some addr => let '(r, sc', e) := a_alloc addr size sc in
                 Some (match r with Some b => PBlk b | None => PNull end, sc', e)
  end.

(* the block a returned pointer designates (None = NULL); [blk] = the block the string's pointers point into *)
Definition hand (stale : bool) (p : cptr) (blk : option (list N)) : option (option (list N)) :=
  match p with
  | PNull => Some None
  | POwn o => if stale then None else match o with 0 => match blk with Some b => Some (Some b) | None => None end | _ => None end
  | _ => None
  end.

"""

INT_MIN, INT_MAX = -(1 << 31), (1 << 31) - 1
RESERVED = {"S", "T", "X", "SC", "E", "R", "D", "H", "B", "fuel"}
LIBC = {"memcmp", "memcpy", "memmove", "strlen", "__builtin_expect"}


class Unsupported(Exception):
    pass


def load_ast(path, include, cfg):
    cmd = ["clang", "-std=c11", "-I", str(include), '-DA_HAVE_H="%s"' % cfg, "-fsyntax-only", "-Xclang", "-ast-dump=json", str(path)]
    p = subprocess.run(cmd, stdout=subprocess.PIPE, stderr=subprocess.PIPE, text=True)
    if p.returncode != 0 or not p.stdout:
        raise Unsupported("clang failed on %s: %s" % (path, " ".join(p.stderr.split())[-400:]))
    return json.loads(p.stdout)


class Lines:
    """clang's JSON dump omits `line` in a location when it equals the line of the location printed before it: resolve the
    line of every node by a pass in document order"""

    def __init__(self):
        self.map = {}
        self.last = None

    def one(self, l):
        if not l:
            return None
        if "spellingLoc" in l or "expansionLoc" in l:
            self.one(l.get("spellingLoc"))
            return self.one(l.get("expansionLoc"))
        if l.get("line"):
            self.last = l["line"]
        return self.last

    def fill(self, n):
        if not isinstance(n, dict):
            return
        a = self.one(n.get("loc"))
        rng = n.get("range") or {}
        b = self.one(rng.get("begin"))
        self.one(rng.get("end"))
        if "id" in n:
            self.map.setdefault(n["id"], b or a)
        for c in n.get("inner", []) or []:
            self.fill(c)


def qual(n):
    t = n.get("type") or {}
    return t.get("desugaredQualType") or t.get("qualType") or ""


def norm_type(q):
    toks = q.replace("*", " * ").split()
    return "".join(t for t in toks if t not in ("const", "struct", "volatile", "restrict", "__restrict"))


def pointee_const(q):
    """is the pointee of the (outermost) pointer type const?  'const void *' / 'char const *const' -> True"""
    head = q.rsplit("*", 1)[0]
    return "const" in head.split()


def ctype(q):
    """classification of a C type"""
    t = norm_type(q)
    if t in ("unsignedlong", "a_size", "size_t"):
        return "size"
    if t == "int":
        return "int"
    if t == "char":
        return "char"
    if t in ("unsignedint", "a_u32", "uint32_t"):
        return "u32"
    if t == "void":
        return "void"
    if t in ("a_str", ):
        return "struct"
    if t == "a_str*":
        return "obj"
    if t in ("char*", "void*"):
        return "ptr"
    if t in ("__va_list_tag*", "__va_list_tag[1]", "va_list", "__builtin_va_list"):
        return "va"
    return "?" + t


def ind(txt, by=2):
    pad = " " * by
    return "\n".join(pad + l if l else l for l in txt.split("\n"))


ATOM = re.compile(r"^(?:[\w']+|\d+%Z|\[\])$")


def P(t):
    """a term that can stand as an argument"""
    t = t.strip()
    if ATOM.match(t) or (t.startswith("(") and balanced(t)):
        return t
    return "(" + t + ")"


def balanced(t):
    """does the opening parenthesis at 0 close at the very end?"""
    d = 0
    for i, c in enumerate(t):
        if c == "(":
            d += 1
        elif c == ")":
            d -= 1
            if d == 0:
                return i == len(t) - 1
    return False


def unparen(t):
    t = t.strip()
    if t.startswith("(") and balanced(t):
        return t[1:-1]
    return t


def zlit(v):
    return "%d%%Z" % v if v >= 0 else "(%d)%%Z" % v


class Val:
    __slots__ = ("t", "ty", "stale", "det", "rng")

    def __init__(self, t, ty, stale=(), det=None, rng=None):
        self.t, self.ty, self.stale, self.det, self.rng = t, ty, tuple(stale), det, rng

    def with_(self, **kw):
        v = Val(self.t, self.ty, self.stale, self.det, self.rng)
        for k, x in kw.items():
            setattr(v, k, x)
        return v


def skipparen(n):
    while isinstance(n, dict) and n.get("kind") in ("ParenExpr", "ConstantExpr"):
        n = n["inner"][0]
    return n


def evs_term(evs):
    if not evs:
        return "[]"
    if len(evs) == 1:
        return evs[0]
    return "(" + " ++ ".join(evs) + ")"


def stale_term(evs):
    return "false" if not evs else "(moved %s)" % evs_term(evs)


class Tr:
    """translation of the functions of one translation unit"""

    def __init__(self, ast, helper_asts=()):
        self.funcs, self.enums = {}, {}
        self.lines = Lines()
        self.done = {}            # name -> signature of a translated function
        self.helpers = {}         # a_copy -> "memcpy", a_move -> "memmove" (checked bodies)
        self.helper_errs = {}
        for n in ast.get("inner", []):
            if n.get("kind") == "FunctionDecl" and any(c.get("kind") == "CompoundStmt" for c in n.get("inner", [])):
                self.funcs[n["name"]] = n
            if n.get("kind") == "EnumDecl":
                v = -1
                for c in n.get("inner", []) or []:
                    if c.get("kind") != "EnumConstantDecl":
                        continue
                    init = [i for i in c.get("inner", []) or [] if i.get("kind") not in ("FullComment",)]
                    if init:
                        x = init[0]
                        while isinstance(x, dict) and "value" not in x and x.get("inner"):
                            x = x["inner"][0]
                        try:
                            v = int(x.get("value"))
                        except (TypeError, ValueError):
                            v = None
                    else:
                        v = None if v is None else v + 1
                    self.enums[c["name"]] = v
        for nm, libc in (("a_copy", "memcpy"), ("a_move", "memmove")):
            try:
                self.check_helper(nm, libc, [ast] + list(helper_asts))
                self.helpers[nm] = libc
            except Unsupported as e:
                self.helper_errs[nm] = str(e)

    def check_helper(self, name, libc, asts):
        """a_copy / a_move must be exactly `return memcpy(dst, src, siz);` / `return memmove(dst, src, siz);`"""
        fn = None
        for a in asts:
            for n in a.get("inner", []):
                if n.get("kind") == "FunctionDecl" and n.get("name") == name and any(c.get("kind") == "CompoundStmt" for c in n.get("inner", [])):
                    fn = n
        if fn is None:
            raise Unsupported("%s has no body in src/a.c" % name)
        ps = [p.get("name") for p in fn.get("inner", []) if p.get("kind") == "ParmVarDecl"]
        body = [c for c in fn["inner"] if c.get("kind") == "CompoundStmt"][0].get("inner", []) or []
        ok = len(ps) == 3 and len(body) == 1 and body[0].get("kind") == "ReturnStmt"
        if ok:
            c = body[0]["inner"][0]
            while c.get("kind") in ("ParenExpr", "ImplicitCastExpr", "CStyleCastExpr"):
                c = c["inner"][0]
            ok = c.get("kind") == "CallExpr" and len(c["inner"]) == 4
            if ok:
                def ref(x):
                    while isinstance(x, dict) and x.get("kind") in ("ParenExpr", "ImplicitCastExpr"):
                        x = x["inner"][0]
                    return x.get("referencedDecl", {}).get("name") if x.get("kind") == "DeclRefExpr" else None
                ok = ref(c["inner"][0]) == libc and [ref(a) for a in c["inner"][1:]] == ps
        if not ok:
            raise Unsupported("the body of %s in src/a.c is not `return %s(%s);`" % (name, libc, ", ".join(ps) or "dst, src, siz"))

    def callees(self, n, out=None):
        out = set() if out is None else out
        if isinstance(n, dict):
            if n.get("kind") == "CallExpr":
                c = n["inner"][0]
                while isinstance(c, dict) and c.get("kind") in ("ParenExpr", "ImplicitCastExpr"):
                    c = c["inner"][0]
                nm = c.get("referencedDecl", {}).get("name")
                if nm:
                    out.add(nm)
            for c in n.get("inner", []) or []:
                self.callees(c, out)
        return out

    def refs(self, n, out=None):
        out = set() if out is None else out
        if isinstance(n, dict):
            if n.get("kind") == "DeclRefExpr" and n.get("referencedDecl", {}).get("kind") in ("VarDecl", "ParmVarDecl"):
                out.add(n["referencedDecl"]["name"])
            for c in n.get("inner", []) or []:
                self.refs(c, out)
        elif isinstance(n, list):
            for c in n:
                self.refs(c, out)
        return out

    def assigned(self, n, out=None):
        """C variables assigned (=, op=, ++, --) or declared in the subtree"""
        out = set() if out is None else out
        if isinstance(n, dict):
            k = n.get("kind")
            if (k == "BinaryOperator" and n.get("opcode") == "=") or k == "CompoundAssignOperator" or \
                    (k == "UnaryOperator" and n.get("opcode") in ("++", "--")):
                l = skipparen(n["inner"][0])
                if l.get("kind") == "DeclRefExpr":
                    out.add(l["referencedDecl"]["name"])
            if k == "VarDecl":
                out.add(n["name"])
            for c in n.get("inner", []) or []:
                self.assigned(c, out)
        elif isinstance(n, list):
            for c in n:
                self.assigned(c, out)
        return out

    def translate(self, name, fuel=None):
        if name not in self.funcs:
            raise Unsupported("function %s not found with a body" % name)
        F = Fn(self, self.funcs[name])
        text = F.run()
        self.done[name] = F.sig
        return text


def upd(E, **kw):
    E2 = dict(E)
    E2.update(kw)
    return E2


def setvar(E, name, val):
    v = dict(E["vars"])
    v[name] = val
    return upd(E, vars=v)


class Fn:
    def __init__(self, tr, node):
        self.tr, self.node, self.name = tr, node, node["name"]
        tr.lines.fill(node)
        self.counter = {}
        self.defs = []            # loop Fixpoints
        self.sig = None
        self.uses_fuel = False

    # ---------------------------------------------------------------- infrastructure
    def where(self, n):
        return "%s:%s" % (self.name, self.tr.lines.map.get(n.get("id")) if isinstance(n, dict) else "?")

    def bad(self, what, n):
        raise Unsupported("%s at %s" % (what, self.where(n)))

    def fresh(self, base):
        k = self.counter.get(base, 0) + 1
        self.counter[base] = k
        return "%s'%d" % (base, k)

    def let(self, base, term, k):
        """bind a non-atomic term to a fresh name"""
        term = term.strip()
        if ATOM.match(term):
            return k(term)
        x = self.fresh(base)
        return "let %s := %s in\n%s" % (x, unparen(term), k(x))

    def S(self, E, slot="s"):
        return E["s"] if slot == "s" else E["t"]

    def add_events(self, E, e, direct):
        """an allocator call has happened: every pointer held in a variable (and, for a direct a_alloc, ctx->ptr_ itself) may dangle"""
        vs = {}
        for nm, v in E["vars"].items():
            vs[nm] = v.with_(stale=v.stale + (e,)) if (v is not None and v.ty == "ptr") else v
        E2 = upd(E, vars=vs, evs=E["evs"] + (e,))
        if direct:
            E2["fstale"] = E["fstale"] + (e,)
        return E2

    # ---------------------------------------------------------------- places (lvalues)
    def place(self, n, E, k):
        """k(place, E'); place = ("var", name) | ("field", slot, field) | ("byte", Val pointer) | ("obj", slot)"""
        m = skipparen(n)
        kind = m.get("kind")
        if kind == "DeclRefExpr":
            nm = m["referencedDecl"]["name"]
            if m["referencedDecl"].get("kind") not in ("VarDecl", "ParmVarDecl") or nm not in E["vars"]:
                self.bad("reference to `%s`, which is not a local variable or parameter known here" % nm, m)
            return k(("var", nm), E)
        if kind == "MemberExpr":
            if not m.get("isArrow"):
                self.bad("member access without ->", m)
            b = skipparen(m["inner"][0])
            while b.get("kind") == "ImplicitCastExpr" and b.get("castKind") in ("LValueToRValue", "NoOp"):
                b = skipparen(b["inner"][0])
            if b.get("kind") != "DeclRefExpr" or b["referencedDecl"]["name"] not in E["obj"]:
                self.bad("member of something that is not one of the function's own a_str parameters", m)
            if m["name"] not in ("ptr_", "num_", "mem_"):
                self.bad("field `%s`" % m["name"], m)
            return k(("field", E["obj"][b["referencedDecl"]["name"]], m["name"]), E)
        if kind == "ArraySubscriptExpr":
            if ctype(qual(m)) != "char":
                self.bad("subscript of element type `%s`" % qual(m), m)
            return self.expr(m["inner"][0], E, lambda p, E1: self.expr(m["inner"][1], E1, lambda i, E2: k(("byte", self.padd(p, i, m)), E2)))
        if kind == "UnaryOperator" and m.get("opcode") == "*":
            t = ctype(qual(m))
            if t == "struct":
                b = skipparen(m["inner"][0])
                while b.get("kind") == "ImplicitCastExpr" and b.get("castKind") in ("LValueToRValue", "NoOp"):
                    b = skipparen(b["inner"][0])
                if b.get("kind") != "DeclRefExpr" or b["referencedDecl"]["name"] not in E["obj"]:
                    self.bad("dereference of something that is not one of the function's own a_str parameters", m)
                return k(("obj", E["obj"][b["referencedDecl"]["name"]]), E)
            if t == "char":
                return self.expr(m["inner"][0], E, lambda p, E1: k(("byte", p), E1))
            self.bad("dereference of type `%s`" % qual(m), m)
        self.bad("lvalue %s" % kind, m)

    def padd(self, p, i, n):
        if p.ty != "ptr":
            self.bad("pointer arithmetic on a `%s`" % p.ty, n)
        if i.ty not in ("size", "u32"):
            if i.ty in ("int", "bool") and i.rng and i.rng[0] >= 0:
                i = Val("(Z.to_N %s)" % i.t, "size") if not re.match(r"^\d+%Z$", i.t) else Val(i.t[:-2], "size")
            else:
                self.bad("pointer offset of type `%s` (possibly negative)" % i.ty, n)
        if i.t == "0":
            return p
        return p.with_(t="(padd %s %s)" % (p.t, i.t))

    def load(self, pl, E, k, n):
        if pl[0] == "var":
            v = E["vars"][pl[1]]
            if v is None:
                self.bad("read of the uninitialised variable %s" % pl[1], n)
            return k(v, E)
        if pl[0] == "obj":
            return k(Val(self.S(E, pl[1]), "struct"), E)
        if pl[0] == "field":
            slot, f = pl[1], pl[2]
            s = self.S(E, slot)
            if f == "num_":
                return k(Val("(num %s)" % s, "size"), E)
            if f == "mem_":
                return k(Val("(mem %s)" % s, "size"), E)
            if E["mode"] == "state" and slot == "s":
                return k(Val("(own_ptr %s)" % s, "ptr", stale=E["fstale"]), E)
            if slot == "t" and E["tmut"]:
                self.bad("ptr_ of a second object that the function may change", n)
            return k(Val("(blk_ptr (ptr %s))" % s, "ptr"), E)
        if pl[0] == "byte":
            p = pl[1]
            if p.det:
                self.bad("access through a pointer into a block that ctx->ptr_ no longer designates", n)
            t = self.fresh("B")
            if E["mode"] == "reader":
                acc = "rdb %s" % p.t
            elif E["x"]:
                acc = "ldbx %s %s %s %s" % (E["s"], E["x"], stale_term(p.stale), p.t)
            else:
                acc = "ldb %s %s %s" % (E["s"], stale_term(p.stale), p.t)
            return "bind (%s) (fun %s =>\n%s)" % (acc, t, k(Val(t, "char"), E))
        self.bad("load (internal)", n)

    def store(self, pl, v, E, k, n):
        """k(E')"""
        if pl[0] == "var":
            nm = pl[1]
            old = E["vars"].get(nm)
            want = E["vtypes"][nm]
            v = self.convert(v, want, n)
            if ATOM.match(v.t) or v.ty == "struct":
                return k(setvar(E, nm, v))
            x = self.fresh(nm)
            return "let %s := %s in\n%s" % (x, unparen(v.t), k(setvar(E, nm, v.with_(t=x))))
        if pl[0] == "obj":
            if v.ty != "struct":
                self.bad("assignment of a `%s` to a whole a_str" % v.ty, n)
            if E["mode"] != "state" or (pl[1] == "t" and not E["tmut"]):
                self.bad("write to a const object", n)
            base = "S" if pl[1] == "s" else "T"
            x = self.fresh(base)
            E2 = upd(E, **{pl[1]: x})
            if pl[1] == "s":
                E2["fstale"] = ()
            return "let %s := %s in\n%s" % (x, unparen(v.t), k(E2))
        if pl[0] == "field":
            slot, f = pl[1], pl[2]
            if E["mode"] != "state" or (slot == "t" and not E["tmut"]):
                self.bad("write to a field of a const object", n)
            s = self.S(E, slot)
            base = "S" if slot == "s" else "T"
            if f in ("num_", "mem_"):
                v = self.convert(v, "size", n)
                x = self.fresh(base)
                return "let %s := %s %s %s in\n%s" % (x, "set_num" if f == "num_" else "set_mem", s, v.t, k(upd(E, **{slot: x})))
            # ptr_
            if slot != "s":
                self.bad("write to ptr_ of the second object", n)
            if v.ty != "ptr":
                self.bad("assignment of a `%s` to ptr_" % v.ty, n)
            keep = [w for w, wv in E["vars"].items() if wv is not None and wv.ty == "ptr" and wv.det is None and wv.t != "PNull"
                    and w in E["live"]]
            pre = ""
            if keep:
                d = self.fresh("D")
                pre = "let %s := ptr %s in\n" % (d, s)
                vs = dict(E["vars"])
                for w in keep:
                    vs[w] = vs[w].with_(det=d)
                E = upd(E, vars=vs)
            x = self.fresh("S")
            E2 = upd(E, s=x, fstale=tuple(v.stale))
            if v.t == "PNull":
                return pre + "let %s := set_ptr_null %s in\n%s" % (x, s, k(E2))
            return pre + "bind (set_ptr %s %s) (fun %s =>\n%s)" % (s, v.t, x, k(E2))
        if pl[0] == "byte":
            p = pl[1]
            if p.det:
                self.bad("access through a pointer into a block that ctx->ptr_ no longer designates", n)
            if E["mode"] != "state":
                self.bad("store through a pointer in a function without a string to change", n)
            v = self.convert(v, "char", n)
            x = self.fresh("S")
            if E["x"]:
                x2 = self.fresh("X")
                return "bind (stbx %s %s %s %s %s) (fun '(%s, %s) =>\n%s)" % (E["s"], E["x"], stale_term(p.stale), p.t, v.t, x, x2,
                                                                             k(upd(E, s=x, x=x2)))
            return "bind (stb %s %s %s %s) (fun %s =>\n%s)" % (E["s"], stale_term(p.stale), p.t, v.t, x, k(upd(E, s=x)))
        self.bad("store (internal)", n)

    # ---------------------------------------------------------------- conversions
    def convert(self, v, want, n):
        """value conversion between C types (the implicit and explicit integral casts of the AST)"""
        have = v.ty
        if have == want or want is None:
            return v
        lit = re.match(r"^\(?(-?\d+)\)?%Z$", v.t) if have in ("int", "bool") else None
        if have == "bool" and want == "int":
            return Val("(b2z %s)" % v.t, "int", rng=(0, 1))
        if have == "bool":
            v = Val("(b2z %s)" % v.t, "int", rng=(0, 1))
            have = "int"
        if have == "int" and want == "size":
            if lit and int(lit.group(1)) >= 0:
                return Val(lit.group(1), "size")
            if v.rng and v.rng[0] >= 0:
                return Val("(Z.to_N %s)" % v.t, "size")
            return Val("(of_int %s)" % v.t, "size")
        if have == "int" and want == "char":
            if lit and 0 <= int(lit.group(1)) < 128:
                return Val(lit.group(1), "char")
            return Val("(uchar %s)" % v.t, "char")
        if have == "char" and want == "int":
            return Val("(schar %s)" % v.t, "int", rng=(-128, 127))
        if have == "size" and want == "int":
            return Val("(to_int %s)" % v.t, "int", rng=(INT_MIN, INT_MAX))
        if have == "u32" and want == "size":
            return Val(v.t, "size")
        if have == "int" and want == "u32":
            if lit and int(lit.group(1)) >= 0:
                return Val(lit.group(1), "u32")
        self.bad("conversion from `%s` to `%s`" % (have, want), n)

    def truth(self, v, n):
        if v.ty == "bool":
            return v.t
        if v.ty in ("size", "char", "u32"):
            return "(negb (%s =? 0)%%N)" % v.t
        if v.ty == "int":
            return "(negb (%s =? 0)%%Z)" % v.t
        if v.ty == "ptr":
            if v.t == "PNull":
                return "false"
            return "(nonnull %s)" % v.t
        self.bad("truth value of a `%s`" % v.ty, n)

    # ---------------------------------------------------------------- expressions
    def pure(self, n):
        """no call, no memory access through a pointer, no assignment / ++ / -- in the subtree"""
        if isinstance(n, dict):
            k = n.get("kind")
            if k in ("CallExpr", "ArraySubscriptExpr", "CompoundAssignOperator"):
                return False
            if k == "UnaryOperator" and n.get("opcode") in ("*", "++", "--"):
                return False
            if k == "BinaryOperator" and n.get("opcode") == "=":
                return False
            return all(self.pure(c) for c in n.get("inner", []) or [])
        return True

    def expr(self, n, E, k):
        """k(Val, E') -> text"""
        m = skipparen(n)
        kind = m.get("kind")
        if kind in ("ImplicitCastExpr", "CStyleCastExpr"):
            ck = m.get("castKind")
            sub = m["inner"][0]
            if ck == "LValueToRValue":
                return self.place(sub, E, lambda pl, E1: self.load(pl, E1, k, m))
            if ck == "NullToPointer":
                return k(Val("PNull", "ptr"), E)
            if ck == "ArrayToPointerDecay" and ctype(qual(sub)) == "va":
                return self.place(sub, E, lambda pl, E1: self.load(pl, E1, k, m))
            if ck in ("NoOp", "BitCast"):
                want = ctype(qual(m))
                return self.expr(sub, E, lambda v, E1: k(v, E1) if (v.ty == want or (ck == "NoOp" and want in ("size", "int", "char", "u32")
                                                                               and v.ty in (want, "bool")))
                                 else self.bad("cast from `%s` to `%s`" % (v.ty, qual(m)), m))
            if ck == "IntegralCast":
                want = ctype(qual(m))
                return self.expr(sub, E, lambda v, E1: k(self.convert(v, want, m), E1))
            if ck == "ToVoid":
                return self.expr(sub, E, lambda v, E1: k(Val("tt", "void"), E1))
            if ck in ("PointerToBoolean", "IntegralToBoolean"):
                return self.expr(sub, E, lambda v, E1: k(Val(self.truth(v, m), "bool", rng=(0, 1)), E1))
            self.bad("cast %s" % ck, m)
        if kind == "IntegerLiteral" or kind == "CharacterLiteral":
            v = int(m.get("value"))
            t = ctype(qual(m))
            if t == "int":
                return k(Val(zlit(v), "int", rng=(v, v)), E)
            if t in ("size", "u32"):
                return k(Val(str(v), t), E)
            self.bad("literal of type `%s`" % qual(m), m)
        if kind == "DeclRefExpr":
            rd = m.get("referencedDecl", {})
            if rd.get("kind") == "EnumConstantDecl":
                v = self.tr.enums.get(rd.get("name"))
                if v is None:
                    self.bad("enumeration constant %s, whose value could not be determined" % rd.get("name"), m)
                return k(Val(zlit(v), "int", rng=(v, v)), E)
            self.bad("reference to %s outside an lvalue conversion" % rd.get("name"), m)
        if kind == "UnaryExprOrTypeTraitExpr":
            if m.get("name") == "sizeof":
                at = (m.get("argType") or {}).get("qualType") or (qual(m["inner"][0]) if m.get("inner") else "")
                if at.strip().endswith("*"):
                    return k(Val("8", "size"), E)
            self.bad("%s(%s)" % (m.get("name"), (m.get("argType") or {}).get("qualType")), m)
        if kind == "UnaryOperator":
            return self.unary(m, E, k)
        if kind == "BinaryOperator":
            return self.binary(m, E, k)
        if kind == "CompoundAssignOperator":
            op = m["opcode"][:-1]
            if op not in ("+", "-"):
                self.bad("operator %s" % m["opcode"], m)
            return self.place(m["inner"][0], E, lambda pl, E1: self.load(pl, E1, lambda a, E2: self.expr(m["inner"][1], E2, lambda b, E3:
                              self.update(pl, self.arith(op, a, b, m), E3, k, m, post=None)), m))
        if kind == "ConditionalOperator":
            c, a, b = m["inner"]
            if not (self.pure(c) and self.pure(a) and self.pure(b)):
                self.bad("?: with an operand that has effects", m)
            return self.expr(c, E, lambda cv, E1: self.expr(a, E1, lambda av, E2: self.expr(b, E2, lambda bv, E3: k(self.ite(cv, av, bv, m), E3))))
        if kind == "CallExpr":
            return self.call(m, E, k)
        self.bad("expression %s" % kind, m)

    def ite(self, cv, av, bv, n):
        if av.ty == "bool" and bv.ty == "int":
            av = self.convert(av, "int", n)
        if bv.ty == "bool" and av.ty == "int":
            bv = self.convert(bv, "int", n)
        if av.ty != bv.ty:
            self.bad("?: with arms of types `%s` and `%s`" % (av.ty, bv.ty), n)
        rng = (min(av.rng[0], bv.rng[0]), max(av.rng[1], bv.rng[1])) if av.rng and bv.rng else None
        st = tuple(dict.fromkeys(av.stale + bv.stale))
        return Val("(if %s then %s else %s)" % (self.truth(cv, n), av.t, bv.t), av.ty, stale=st, rng=rng)

    def update(self, pl, newv, E, k, n, post):
        """store newv at pl; the value of the expression is newv (post=None) or `post` (the old value)"""
        def after(E1):
            if post is not None:
                return k(post, E1)
            return self.load(pl, E1, k, n) if pl[0] != "byte" else k(newv, E1)
        return self.store(pl, newv, E, after, n)

    def unary(self, m, E, k):
        op = m.get("opcode")
        sub = m["inner"][0]
        if op in ("++", "--"):
            def go(pl, E1):
                def with_old(a, E2):
                    if a.ty == "ptr" and op == "++":
                        nv = self.padd(a, Val("1", "size"), m)
                    elif a.ty != "size":
                        self.bad("%s on a `%s`" % (op, a.ty), m)
                    else:
                        nv = self.arith("+" if op == "++" else "-", a, Val("1", "size"), m)
                    return self.update(pl, nv, E2, k, m, post=a if m.get("isPostfix") else None)
                return self.load(pl, E1, with_old, m)
            return self.place(sub, E, go)
        if op == "*":
            return self.place(m, E, lambda pl, E1: self.load(pl, E1, k, m))
        if op == "!":
            return self.expr(sub, E, lambda v, E1: k(self.neg(v, m), E1))
        if op == "~":
            def f(v, E1):
                if v.ty in ("int", "bool"):
                    v = self.convert(v, "int", m)
                    rng = (-v.rng[1] - 1, -v.rng[0] - 1) if v.rng else None
                    return k(Val("(Z.lnot %s)" % v.t, "int", rng=rng), E1)
                if v.ty == "size":
                    return k(Val("(wnot %s)" % v.t, "size"), E1)
                self.bad("~ on a `%s`" % v.ty, m)
            return self.expr(sub, E, f)
        if op == "-":
            def g(v, E1):
                if v.ty in ("int", "bool") and v.rng and -v.rng[0] <= INT_MAX:
                    v = self.convert(v, "int", m)
                    return k(Val("(- %s)%%Z" % v.t, "int", rng=(-v.rng[1], -v.rng[0])), E1)
                self.bad("unary minus on a `%s` of unknown range" % v.ty, m)
            return self.expr(sub, E, g)
        self.bad("unary operator %s" % op, m)

    def neg(self, v, n):
        t = self.truth(v, n)
        if t.startswith("(negb ") and balanced(t):
            return Val(P(t[6:-1]), "bool", rng=(0, 1))
        if t in ("true", "false"):
            return Val("false" if t == "true" else "true", "bool", rng=(0, 1))
        return Val("(negb %s)" % t, "bool", rng=(0, 1))

    def arith(self, op, a, b, n):
        if a.ty == "ptr" and op == "+":
            return self.padd(a, b, n)
        if a.ty == "bool":
            a = self.convert(a, "int", n)
        if b.ty == "bool":
            b = self.convert(b, "int", n)
        if a.ty == "size" and b.ty == "size":
            f = {"+": "wadd", "-": "wsub", "*": "wmul", "&": "N.land", "|": "N.lor"}.get(op)
            if f is None:
                self.bad("operator %s on unsigned long" % op, n)
            return Val("(%s %s %s)" % (f, a.t, b.t), "size")
        if a.ty == "int" and b.ty == "int" and op in ("+", "-"):
            if not (a.rng and b.rng):
                self.bad("signed %s on a value whose range the translator cannot bound (overflow would be undefined)" % op, n)
            lo, hi = (a.rng[0] + b.rng[0], a.rng[1] + b.rng[1]) if op == "+" else (a.rng[0] - b.rng[1], a.rng[1] - b.rng[0])
            if lo < INT_MIN or hi > INT_MAX:
                self.bad("signed %s that may overflow" % op, n)
            return Val("(%s %s %s)%%Z" % (a.t, op, b.t), "int", rng=(lo, hi))
        self.bad("operator %s on `%s` and `%s`" % (op, a.ty, b.ty), n)

    def compare(self, op, a, b, n):
        if a.ty == "bool":
            a = self.convert(a, "int", n)
        if b.ty == "bool":
            b = self.convert(b, "int", n)
        if a.ty != b.ty or a.ty not in ("size", "int", "char", "u32"):
            self.bad("comparison %s of `%s` and `%s`" % (op, a.ty, b.ty), n)
        z = "%Z" if a.ty == "int" else "%N"
        t = {"<": "(%s <? %s)%s" % (a.t, b.t, z), ">": "(%s <? %s)%s" % (b.t, a.t, z), "<=": "(%s <=? %s)%s" % (a.t, b.t, z),
             ">=": "(%s <=? %s)%s" % (b.t, a.t, z), "==": "(%s =? %s)%s" % (a.t, b.t, z), "!=": "(negb (%s =? %s)%s)" % (a.t, b.t, z)}[op]
        return Val(t, "bool", rng=(0, 1))

    def binary(self, m, E, k):
        op = m.get("opcode")
        a, b = m["inner"]
        idx = self.match_isspace(m)
        if idx is not None:
            # isspace in the "C" locale on a converted char: StrDefs.isspace of the byte
            return self.expr(idx, E, lambda v, E1: k(Val("(isspace %s)" % self.byte_of_int(v, m, "isspace"), "bool", rng=(0, 1)), E1))
        if op == "=":
            return self.place(a, E, lambda pl, E1: self.expr(b, E1, lambda v, E2: self.update(pl, v, E2, k, m, post=None)))
        if op == ",":
            return self.expr(a, E, lambda _, E1: self.expr(b, E1, k))
        if op in ("&&", "||"):
            if not self.pure(b):
                self.bad("%s with effects in its right operand, outside a condition" % op, m)
            return self.expr(a, E, lambda av, E1: self.expr(b, E1, lambda bv, E2:
                             k(Val("(%s %s %s)" % (self.truth(av, m), op, self.truth(bv, m)), "bool", rng=(0, 1)), E2)))
        if op in ("<", ">", "<=", ">=", "==", "!="):
            return self.expr(a, E, lambda av, E1: self.expr(b, E1, lambda bv, E2: k(self.compare(op, av, bv, m), E2)))
        if op in ("+", "-", "*", "&", "|"):
            return self.expr(a, E, lambda av, E1: self.expr(b, E1, lambda bv, E2: k(self.arith(op, av, bv, m), E2)))
        self.bad("binary operator %s" % op, m)

    # ---------------------------------------------------------------- conditions
    def cond(self, n, E, kt, kf):
        """kt(E') / kf(E') -> text; operands with effects are evaluated exactly when the C evaluates them"""
        m = skipparen(n)
        kind = m.get("kind")
        if kind == "UnaryOperator" and m.get("opcode") == "!" and not self.pure(m):
            return self.cond(m["inner"][0], E, kf, kt)
        if kind == "BinaryOperator" and m.get("opcode") == "&&" and not self.pure(m):
            return self.cond(m["inner"][0], E, lambda E1: self.cond(m["inner"][1], E1, kt, kf), kf)
        if kind == "BinaryOperator" and m.get("opcode") == "||" and not self.pure(m):
            return self.cond(m["inner"][0], E, kt, lambda E1: self.cond(m["inner"][1], E1, kt, kf))
        return self.expr(n, E, lambda v, E1: self.branch(self.truth(v, m), E1, kt, kf))

    def branch(self, b, E, kt, kf):
        if b == "true":
            return kt(E)
        if b == "false":
            return kf(E)
        return "if %s\nthen\n%s\nelse\n%s" % (unparen(b), ind(kt(E)), ind(kf(E)))


    # ---------------------------------------------------------------- calls
    def args_then(self, args, E, k, i=0, acc=None):
        acc = [] if acc is None else acc
        if i == len(args):
            return k(acc, E)
        return self.expr(args[i], E, lambda v, E1: self.args_then(args, E1, k, i + 1, acc + [v]))

    def guard_stale(self, vals, text):
        st = tuple(dict.fromkeys(e for v in vals if v.ty == "ptr" for e in v.stale))
        if not st:
            return text
        return "if moved %s then None else\n%s" % (evs_term(st), text)

    def call(self, m, E, k):
        c = skipparen(m["inner"][0])
        while c.get("kind") == "ImplicitCastExpr":
            c = skipparen(c["inner"][0])
        rd = c.get("referencedDecl", {}) if c.get("kind") == "DeclRefExpr" else {}
        nm = rd.get("name")
        args = m["inner"][1:]
        if nm is None:
            self.bad("call through an expression", m)
        if nm == "a_alloc" and rd.get("kind") == "VarDecl":
            return self.call_alloc(m, args, E, k)
        if nm in self.tr.helpers:
            nm = self.tr.helpers[nm]
        elif nm in self.tr.helper_errs:
            self.bad("call to %s: %s" % (nm, self.tr.helper_errs[nm]), m)
        if nm in ("memcpy", "memmove") and rd.get("kind") == "FunctionDecl":
            return self.call_copy(nm, m, args, E, k)
        if nm == "memcmp":
            return self.call_memcmp(m, args, E, k)
        if nm == "strlen":
            return self.call_strlen(m, args, E, k)
        if nm == "__builtin_va_copy":
            a = skipparen(args[0])
            while a.get("kind") == "ImplicitCastExpr":
                a = skipparen(a["inner"][0])
            return self.place(a, E, lambda pl, E1: self.expr(args[1], E1, lambda v, E2: self.store(pl, v, E2, lambda E3: k(Val("tt", "void"), E3), m)))
        if nm == "__builtin_va_end":
            return k(Val("tt", "void"), E)
        if nm == "vsnprintf":
            return self.call_vsnprintf(m, args, E, k)
        if nm == "memchr":
            return self.call_memchr(m, args, E, k)
        if nm == "a_utf_encode":
            return self.call_utf_encode(m, args, E, k)
        if nm == "__builtin_expect":
            a = skipparen(args[0])
            if a.get("kind") == "ImplicitCastExpr" and a.get("castKind") == "IntegralCast":     # int -> long
                a = a["inner"][0]
            return self.expr(a, E, lambda v, E1: k(v, E1))
        sig = self.tr.done.get(nm)
        if sig is None:
            self.bad("call to %s, which is not translated" % nm, m)
        return self.call_translated(nm, sig, m, args, E, k)

    def call_alloc(self, m, args, E, k):
        if E["mode"] != "state" or not E["sc"]:
            self.bad("a_alloc in a function without a string / schedule (internal)", m)
        if len(args) != 2:
            self.bad("a_alloc with %d arguments" % len(args), m)

        def go(vs, E1):
            p, size = vs[0], self.convert(vs[1], "size", m)
            if p.ty != "ptr":
                self.bad("a_alloc on a `%s`" % p.ty, m)
            r, sc, e = self.fresh("R"), self.fresh("SC"), self.fresh("E")
            E2 = self.add_events(upd(E1, sc=sc), e, direct=True)
            return "bind (c_alloc %s %s %s %s %s) (fun '(%s, %s, %s) =>\n%s)" % (E1["s"], stale_term(p.stale), p.t, size.t, E1["sc"], r, sc, e,
                                                                                k(Val(r, "ptr"), E2))
        return self.args_then(args, E, go)

    def call_copy(self, nm, m, args, E, k):
        if E["mode"] != "state":
            self.bad("%s in a function without a string to change" % nm, m)

        def go(vs, E1):
            d, s, n = vs[0], vs[1], self.convert(vs[2], "size", m)
            if d.ty != "ptr" or s.ty != "ptr":
                self.bad("%s on non-pointers" % nm, m)
            if d.det or s.det:
                self.bad("access through a pointer into a block that ctx->ptr_ no longer designates", m)
            x = self.fresh("S")
            if E1["x"]:
                x2 = self.fresh("X")
                return "bind (c_%sx %s %s %s %s %s %s %s) (fun '(%s, %s) =>\n%s)" % (nm, E1["s"], E1["x"], stale_term(d.stale), stale_term(s.stale),
                                                                                    d.t, s.t, n.t, x, x2, k(d, upd(E1, s=x, x=x2)))
            return "bind (c_%s %s %s %s %s %s %s) (fun %s =>\n%s)" % (nm, E1["s"], stale_term(d.stale), stale_term(s.stale), d.t, s.t, n.t, x,
                                                                     k(d, upd(E1, s=x)))
        return self.args_then(args, E, go)

    def ldn_term(self, E, p, n):
        if E["mode"] == "reader":
            return "rdn %s %s" % (p.t, n.t)
        if E["x"]:
            return "ldnx %s %s %s %s %s" % (E["s"], E["x"], stale_term(p.stale), p.t, n.t)
        return "ldn %s %s %s %s" % (E["s"], stale_term(p.stale), p.t, n.t)

    def call_memcmp(self, m, args, E, k):
        def go(vs, E1):
            a, b, n = vs[0], vs[1], self.convert(vs[2], "size", m)
            if a.ty != "ptr" or b.ty != "ptr":
                self.bad("memcmp on non-pointers", m)
            x, y = self.fresh("B"), self.fresh("B")
            # the model keeps the sign of memcmp only (StrDefs.memcmp): -1, 0, 1
            return "bind (%s) (fun %s =>\nbind (%s) (fun %s =>\n%s))" % (self.ldn_term(E1, a, n), x, self.ldn_term(E1, b, n), y,
                                                                       k(Val("(memcmp %s %s)" % (x, y), "int", rng=(-1, 1)), E1))
        return self.args_then(args, E, go)

    def byte_of_int(self, v, n, what):
        """the byte a libc function sees of an int argument that is a converted char: (unsigned char)(int)ch is the byte of ch"""
        mm = re.match(r"^\(schar ([\w']+)\)$", v.t) if v.ty == "int" else None
        if mm:
            return mm.group(1)
        if v.ty == "char":
            return v.t
        self.bad("%s of something other than a char value" % what, n)

    def call_memchr(self, m, args, E, k):
        """memchr(s, c, n) as a truth value: is the byte c among the n bytes at s (the model's `inset` for a non-empty set)"""
        def go(vs, E1):
            p, c, n = vs[0], vs[1], self.convert(vs[2], "size", m)
            if p.ty != "ptr":
                self.bad("memchr on a non-pointer", m)
            b = self.byte_of_int(c, m, "memchr")
            x = self.fresh("B")
            return "bind (%s) (fun %s =>\n%s)" % (self.ldn_term(E1, p, n), x, k(Val("(existsb (N.eqb %s) %s)" % (b, x), "bool", rng=(0, 1)), E1))
        return self.args_then(args, E, go)

    def call_vsnprintf(self, m, args, E, k):
        """vsnprintf(p, room, fmt, va) by its contract (c_vsn): the text the formatter produces for the function's own (fmt, va)
        is the oracle parameter out'0; the result is its length, 0 <= |out| < INT_MAX by the contract"""
        if E["mode"] != "state" or E["x"] or len(args) != 4:
            self.bad("vsnprintf outside a plain state function", m)

        def go(vs, E1):
            p, room, f, va = vs[0], self.convert(vs[1], "size", m), vs[2], vs[3]
            if p.ty != "ptr" or f.ty != "fmt" or va.ty != "va":
                self.bad("vsnprintf on something other than the function's own format and argument list", m)
            if p.det:
                self.bad("access through a pointer into a block that ctx->ptr_ no longer designates", m)
            x = self.fresh("S")
            return "bind (c_vsn %s %s %s %s out'0) (fun %s =>\n%s)" % (E1["s"], stale_term(p.stale), p.t, room.t, x,
                                                                       k(Val("(Z.of_N (len out'0))", "int", rng=(0, INT_MAX - 1)), upd(E1, s=x)))
        return self.args_then(args, E, go)

    def call_utf_encode(self, m, args, E, k):
        """a_utf_encode(c, buf) of src/utf.c (property C18) by its contract: stores StrDefs.utf_encode c at buf, returns the count"""
        if E["mode"] != "state" or E["x"]:
            self.bad("a_utf_encode outside a plain state function", m)

        def go(vs, E1):
            c, p = vs[0], vs[1]
            if c.ty not in ("u32", "size") or p.ty != "ptr":
                self.bad("a_utf_encode(%s, %s)" % (c.ty, p.ty), m)
            if p.det:
                self.bad("access through a pointer into a block that ctx->ptr_ no longer designates", m)
            b, x = self.fresh("B"), self.fresh("S")
            return "let %s := utf_encode %s in\nbind (stn %s %s %s %s) (fun %s =>\n%s)" % (b, c.t, E1["s"], stale_term(p.stale), p.t, b, x,
                                                                                       k(Val("(len %s)" % b, "u32"), upd(E1, s=x)))
        return self.args_then(args, E, go)

    def match_isspace(self, m):
        """glibc's isspace(c) = ((*__ctype_b_loc())[(int)(c)] & (unsigned short)_ISspace): the index expression, or None"""
        def strip(x):
            while isinstance(x, dict) and x.get("kind") in ("ParenExpr", "ImplicitCastExpr", "CStyleCastExpr"):
                x = x["inner"][0]
            return x
        if m.get("kind") != "BinaryOperator" or m.get("opcode") != "&":
            return None
        a, b = strip(m["inner"][0]), strip(m["inner"][1])
        if b.get("kind") != "DeclRefExpr" or b.get("referencedDecl", {}).get("name") != "_ISspace":
            return None
        if a.get("kind") != "ArraySubscriptExpr":
            return None
        base = strip(a["inner"][0])
        if base.get("kind") != "UnaryOperator" or base.get("opcode") != "*":
            return None
        c = strip(base["inner"][0])
        if c.get("kind") != "CallExpr" or strip(c["inner"][0]).get("referencedDecl", {}).get("name") != "__ctype_b_loc":
            return None
        return a["inner"][1]

    def call_strlen(self, m, args, E, k):
        def go(vs, E1):
            p = vs[0]
            if p.ty != "ptr":
                self.bad("strlen on a non-pointer", m)
            x = self.fresh("R")
            acc = "rd_strlen %s" % p.t if E1["mode"] == "reader" else "ld_strlen %s %s %s" % (E1["s"], stale_term(p.stale), p.t)
            return "bind (%s) (fun %s =>\n%s)" % (acc, x, k(Val(x, "size"), E1))
        return self.args_then(args, E, go)

    def call_translated(self, nm, sig, m, args, E, k):
        if len(args) != len(sig["params"]):
            self.bad("call to %s with %d arguments" % (nm, len(args)), m)
        if sig["objs"] > 1:
            self.bad("call to %s, which takes two string objects" % nm, m)
        if sig["mode"] == "state" and E["mode"] != "state":
            self.bad("call to the state function %s from a reader" % nm, m)
        if sig["x"] and not E["x"]:
            self.bad("call to %s, which writes to a caller's buffer" % nm, m)
        scalar = [a for a, (_, kd) in zip(args, sig["params"]) if kd != "obj"]
        for a, (_, kd) in zip(args, sig["params"]):
            if kd == "obj":
                b = skipparen(a)
                while b.get("kind") == "ImplicitCastExpr":
                    b = skipparen(b["inner"][0])
                if b.get("kind") != "DeclRefExpr" or E["obj"].get(b["referencedDecl"]["name"]) != "s":
                    self.bad("call to %s on an object other than the caller's own first string" % nm, m)

        def go(vs, E1):
            it = iter(vs)
            parts = []
            for _, kd in sig["params"]:
                if kd == "obj":
                    parts.append(E1["s"])
                    if sig["x"]:
                        parts.append(E1["x"])
                else:
                    v = self.convert(next(it), kd, m)
                    if kd == "ptr" and sig["mode"] == "reader" and E1["mode"] == "state":
                        self.bad("pointer argument passed from a state function to the reader %s" % nm, m)
                    parts.append(v.t)
            if sig["alloc"]:
                parts.append(E1["sc"])
            r = self.fresh("R")
            pat, E2 = [r], E1
            if sig["mode"] == "state":
                s = self.fresh("S")
                pat.append(s)
                E2 = upd(E2, s=s)
            if sig["x"]:
                x = self.fresh("X")
                pat.append(x)
                E2 = upd(E2, x=x)
            if sig["alloc"]:
                sc, e = self.fresh("SC"), self.fresh("E")
                pat += [sc, e]
                E2 = self.add_events(upd(E2, sc=sc), e, direct=False)
            rty = sig["ret"]
            rv = Val("tt", "void") if rty == "void" else Val(r, rty, rng=(INT_MIN, INT_MAX) if rty == "int" else None)
            if rty == "ptr":
                self.bad("use of the pointer returned by %s" % nm, m)
            if sig.get("fuel"):
                if E1.get("inloop"):
                    self.bad("call of %s (a function with a loop) inside a loop" % nm, m)
                parts.insert(0, "fuel")
                self.uses_fuel = True
            body = "bind (%s %s) (fun %s =>\n%s)" % (nm, " ".join(parts), pat[0] if len(pat) == 1 else "'(" + ", ".join(pat) + ")", k(rv, E2))
            return self.guard_stale([v for v in vs], body)
        return self.args_then(scalar, E, go)

    # ---------------------------------------------------------------- statements
    # C = {"ret": (Val|None, E) -> text, "brk": E -> text | None, "cont": E -> text | None}
    def stmts(self, lst, E, k, C, live):
        if not lst:
            return k(E)
        s, rest = lst[0], lst[1:]
        live_here = self.tr.refs(rest) | live
        knext = lambda E1: self.stmts(rest, E1, k, C, live)
        kind = s.get("kind")
        E = upd(E, live=live_here)
        if kind == "CompoundStmt":
            inner = s.get("inner", []) or []
            declared = [d["name"] for x in inner if x.get("kind") == "DeclStmt" for d in x.get("inner", []) if d.get("kind") == "VarDecl"]
            for d in declared:
                if d in E["vars"]:
                    self.bad("declaration of %s shadows an outer variable" % d, s)

            def leave(E1):
                if not declared:
                    return knext(E1)
                vs = dict(E1["vars"])
                for d in declared:
                    vs.pop(d, None)
                return knext(upd(E1, vars=vs))
            return self.stmts(inner, E, leave, C, live_here)
        if kind == "NullStmt":
            return knext(E)
        if kind == "DeclStmt":
            decls = list(s.get("inner", []))

            def go(i, E1):
                if i == len(decls):
                    return knext(E1)
                d = decls[i]
                if d.get("kind") != "VarDecl":
                    self.bad("declaration %s" % d.get("kind"), s)
                if d.get("storageClass"):
                    self.bad("%s local variable" % d["storageClass"], s)
                ty = ctype(qual(d))
                if ty not in ("size", "int", "char", "ptr", "struct", "u32", "va"):
                    self.bad("local variable %s of type `%s`" % (d.get("name"), qual(d)), s)
                if d["name"] in RESERVED:
                    self.bad("local variable named %s (reserved by the translator)" % d["name"], s)
                vt = dict(E1["vtypes"])
                vt[d["name"]] = ty
                E2 = setvar(upd(E1, vtypes=vt), d["name"], None)
                init = [c for c in d.get("inner", []) if c.get("kind", "").endswith(("Expr", "Operator", "Literal"))]
                if not init:
                    return go(i + 1, E2)
                return self.expr(init[0], E2, lambda v, E3: self.store(("var", d["name"]), v, E3, lambda E4: go(i + 1, E4), d))
            return go(0, E)
        if kind == "IfStmt":
            parts = s["inner"]
            if s.get("hasInit") or s.get("hasVar"):
                self.bad("if with a declaration", s)
            thn = [parts[1]]
            els = [parts[2]] if len(parts) > 2 else []
            return self.cond(parts[0], E, lambda E1: self.stmts(thn, E1, knext, C, live_here), lambda E1: self.stmts(els, E1, knext, C, live_here))
        if kind == "ReturnStmt":
            if C["ret"] is None:
                self.bad("return inside a loop", s)
            if s.get("inner"):
                return self.expr(s["inner"][0], E, lambda v, E1: C["ret"](v, E1))
            return C["ret"](None, E)
        if kind == "BreakStmt":
            if C.get("brk") is None:
                self.bad("break outside a loop", s)
            return C["brk"](E)
        if kind == "ContinueStmt":
            if C.get("cont") is None:
                self.bad("continue outside a loop", s)
            return C["cont"](E)
        if kind in ("WhileStmt", "DoStmt", "ForStmt"):
            return self.loop(s, E, knext, live_here)
        if kind.endswith(("Expr", "Operator", "Literal")):
            return self.expr(s, E, lambda _, E1: knext(E1))
        self.bad("statement %s" % kind, s)

    def loop(self, s, E, kafter, live_after):
        kind = s["kind"]
        if kind == "WhileStmt":
            parts = s["inner"]
            if len(parts) != 2:
                self.bad("while with a declaration", s)
            init, cnd, step, body = None, parts[0], None, parts[1]
        elif kind == "ForStmt":
            init, var, cnd, step, body = s["inner"]
            if var:
                self.bad("for with a condition variable", s)
            init, cnd, step = init or None, cnd or None, step or None
            if init is not None and init.get("kind") == "DeclStmt":
                self.bad("for with a declaration", s)
        else:
            self.bad("do-while loop", s)
        if init is not None:
            return self.expr(init, E, lambda _, E1: self.loop_core(s, cnd, step, body, E1, kafter, live_after))
        return self.loop_core(s, cnd, step, body, E, kafter, live_after)

    def loop_core(self, s, cnd, step, body, E, kafter, live_after):
        """one Fixpoint on fuel per loop: the state (and the caller's buffer) and the variables the loop assigns are carried from
        iteration to iteration and handed back; the other variables it uses are constant parameters"""
        tr = self.tr
        if E.get("inloop"):
            self.bad("nested loop", s)
        pieces = [x for x in (cnd, step, body) if x is not None]
        cal = set()
        for x in pieces:
            tr.callees(x, cal)
        if "a_alloc" in cal or any(tr.done.get(c, {}).get("alloc") or tr.done.get(c, {}).get("fuel") for c in cal):
            self.bad("allocation (or a call of a function with a loop) inside a loop", s)
        if E["fstale"]:
            self.bad("loop entered while ctx->ptr_ may be dangling", s)
        inside = set()

        def decls(n):
            if isinstance(n, dict):
                if n.get("kind") == "VarDecl":
                    inside.add(n["name"])
                for c in n.get("inner", []) or []:
                    decls(c)
        for x in pieces:
            decls(x)
        used = [v for v in E["vtypes"] if v in (tr.refs(pieces) - inside)]
        asg = tr.assigned(pieces)
        for v in used:
            if E["vars"].get(v) is None:
                self.bad("the loop uses %s, which is not initialised before it" % v, s)
            if E["vars"][v].ty == "ptr" and (E["vars"][v].stale or E["vars"][v].det):
                self.bad("the loop uses the pointer %s, which may dangle" % v, s)
        carried = [v for v in used if v in asg]
        consts = [v for v in used if v not in asg]
        self.nloops = getattr(self, "nloops", 0) + 1
        name = "%s_loop%d" % (self.name, self.nloops)
        state = E["mode"] == "state"
        saved = self.counter
        self.counter = {}
        gty = {"size": "N", "int": "Z", "char": "N", "ptr": "cptr", "u32": "N", "bool": "bool"}
        vs = {}
        for v in used:
            ty = E["vtypes"][v]
            vs[v] = Val(v + "'0", ty, rng=(INT_MIN, INT_MAX) if ty == "int" else None)
        EL = upd(E, vars=vs, s="S'0" if state else E["s"], x="X'0" if E["x"] else None, inloop=True)
        if E["t"]:
            self.bad("loop in a function with two objects", s)

        def pack(E1, what):
            out = []
            if state:
                out.append(E1["s"])
            if E["x"]:
                out.append(E1["x"])
            for v in what:
                if E1["vars"].get(v) is None:
                    self.bad("%s may be uninitialised" % v, s)
                out.append(E1["vars"][v].t)
            return out

        def exit_(E1):
            o = pack(E1, carried)
            return "Some %s" % (o[0] if len(o) == 1 else "tt" if not o else "(" + ", ".join(o) + ")")

        def again(E1):
            return "%s fuel' %s" % (name, " ".join(pack(E1, carried) + [E1["vars"][v].t for v in consts]))

        live_in = tr.refs(pieces) | live_after
        nxt = (lambda E1: self.expr(step, E1, lambda _, E2: again(E2))) if step is not None else again
        CL = {"ret": None, "brk": exit_, "cont": nxt}
        run = lambda E1: self.stmts([body], E1, nxt, CL, live_in)
        it = self.cond(cnd, EL, run, exit_) if cnd is not None else run(EL)
        params = []
        if state:
            params.append("(S'0 : str)")
        if E["x"]:
            params.append("(X'0 : list N)")
        params += ["(%s'0 : %s)" % (v, gty[E["vtypes"][v]]) for v in carried + consts]
        rts = (["str"] if state else []) + (["list N"] if E["x"] else []) + [gty[E["vtypes"][v]] for v in carried]
        rt = " * ".join(rts) if rts else "unit"
        self.defs.append("Fixpoint %s (fuel : nat) %s {struct fuel}\n  : option (%s) :=\n  match fuel with\n  | O => None\n  | S fuel' =>\n%s\n  end."
                         % (name, " ".join(params), rt, ind(it, 6)))
        self.counter = saved
        self.uses_fuel = True
        # the call
        E2, pat = E, []
        if state:
            x = self.fresh("S")
            pat.append(x)
            E2 = upd(E2, s=x)
        if E["x"]:
            x = self.fresh("X")
            pat.append(x)
            E2 = upd(E2, x=x)
        for v in carried:
            x = self.fresh(v)
            pat.append(x)
            E2 = setvar(E2, v, Val(x, E["vtypes"][v], rng=(INT_MIN, INT_MAX) if E["vtypes"][v] == "int" else None))
        call = "%s fuel %s" % (name, " ".join(pack(E, carried) + [E["vars"][v].t for v in consts]))
        return "bind (%s) (fun %s =>\n%s)" % (call, pat[0] if len(pat) == 1 else "_" if not pat else "'(" + ", ".join(pat) + ")", kafter(E2))

    # ---------------------------------------------------------------- the function
    def result(self, v, E, n):
        """text of `return v` in the environment E"""
        rty = self.sig["ret"]
        comps, pre = [], None
        if rty == "void":
            if v is not None and v.ty != "void":
                self.bad("return with a value in a void function", n)
            comps.append("tt")
        else:
            if v is None:
                self.bad("return without a value", n)
            if rty == "ptr":
                if v.ty != "ptr":
                    self.bad("return of a `%s` where a pointer is expected" % v.ty, n)
                h = self.fresh("H")
                blk = v.det if v.det else "(ptr %s)" % E["s"]
                pre = "bind (hand %s %s %s) (fun %s =>\n" % (stale_term(v.stale), v.t, blk, h)
                comps.append(h)
            else:
                comps.append(self.convert(v, rty, n).t)
        if self.sig["mode"] == "state":
            comps.append(E["s"])
            if self.sig["tmut"]:
                comps.append("None" if E["alias"] else "(Some %s)" % E["t"])
        if self.sig["x"]:
            comps.append(E["x"])
        if self.sig["alloc"]:
            comps += [E["sc"], evs_term(E["evs"])]
        txt = "Some %s" % (comps[0] if len(comps) == 1 else "(" + ", ".join(comps) + ")")
        if E["fstale"]:
            txt = "if moved %s then None else %s" % (evs_term(E["fstale"]), txt)      # returning with ctx->ptr_ dangling
        if pre:
            txt = pre + txt + ")"
        return txt

    def run(self):
        tr = self.tr
        params = [c for c in self.node.get("inner", []) if c["kind"] == "ParmVarDecl"]
        body = [c for c in self.node["inner"] if c["kind"] == "CompoundStmt"][0]
        rq = self.node["type"]["qualType"].split("(")[0].strip()
        rty = ctype(rq)
        if rty == "?" + norm_type(rq):
            # a_size is a typedef: resolve through the desugared type of a return statement is not available; accept known names
            self.bad("return type `%s`" % rq, self.node)
        if rty not in ("int", "size", "void", "ptr", "u32"):
            self.bad("return type `%s`" % rq, self.node)
        objs, sigp, gparams, vars_, vtypes = [], [], [], {}, {}
        has_x = False
        has_va = [i for i, p in enumerate(params) if ctype(qual(p)) == "va"]
        fmt_i = None
        if has_va:
            if len(has_va) != 1 or has_va[0] == 0 or ctype(qual(params[has_va[0] - 1])) != "ptr" or not pointee_const(qual(params[has_va[0] - 1])):
                self.bad("a va_list parameter without a format before it", self.node)
            fmt_i = has_va[0] - 1
        for pi, p in enumerate(params):
            q = qual(p)
            ty = ctype(q)
            nm = p.get("name")
            if nm in RESERVED or nm == "out":
                self.bad("parameter named %s (reserved by the translator)" % nm, p)
            if pi == fmt_i:
                # (fmt, va) is represented by what the formatter produces for it
                vtypes[nm] = "fmt"
                vars_[nm] = Val("fmt", "fmt")
                sigp.append((nm, "fmt"))
                gparams.append("(out'0 : list N)")
            elif ty == "va":
                vtypes[nm] = "va"
                vars_[nm] = Val("va", "va")
                sigp.append((nm, "va"))
            elif ty == "obj":
                objs.append((nm, pointee_const(q)))
                sigp.append((nm, "obj"))
            elif ty in ("size", "int", "char", "ptr", "u32"):
                if ty == "ptr" and not pointee_const(q):
                    if has_x:
                        self.bad("two parameters that point to writable memory", p)
                    has_x = True
                vtypes[nm] = ty
                vars_[nm] = Val(nm + "'0", ty, rng=(INT_MIN, INT_MAX) if ty == "int" else None)
                sigp.append((nm, ty))
                gparams.append("(%s'0 : %s)" % (nm, {"size": "N", "int": "Z", "char": "N", "ptr": "cptr", "u32": "N"}[ty]))
            else:
                self.bad("parameter %s of type `%s`" % (nm, q), p)
        if len(objs) > 2:
            self.bad("more than two string objects", self.node)
        mode = "state" if (objs and not objs[0][1]) else "reader"
        if mode == "reader" and any(not c for _, c in objs):
            self.bad("second object writable while the first is const", self.node)
        tmut = len(objs) == 2 and not objs[1][1]
        cal = tr.callees(body)
        alloc = ("a_alloc" in cal) or any(tr.done.get(c, {}).get("alloc") for c in cal)
        if (alloc or has_x) and mode != "state":
            self.bad("allocation or write to a buffer in a function whose string is const", self.node)
        self.sig = {"mode": mode, "params": sigp, "ret": rty, "alloc": alloc, "x": has_x, "objs": len(objs), "tmut": tmut}
        rcomp = [{"int": "Z", "size": "N", "void": "unit", "ptr": "option (list N)", "u32": "N"}[rty]]
        head = []
        if objs:
            head.append("(S'0 : str)")
        if len(objs) == 2:
            head.append("(obj'0 : option str)")
        if has_x:
            head.append("(X'0 : list N)")
        head += gparams
        if alloc:
            head.append("(SC'0 : sched)")
        if mode == "state":
            rcomp.append("str")
            if tmut:
                rcomp.append("option str")
        if has_x:
            rcomp.append("list N")
        if alloc:
            rcomp += ["sched", "list ev"]
        E0 = {"vars": vars_, "vtypes": vtypes, "obj": {}, "s": "S'0" if objs else None, "t": None, "x": "X'0" if has_x else None,
              "sc": "SC'0" if alloc else None, "evs": (), "fstale": (), "alias": False, "mode": mode, "tmut": tmut, "live": set()}
        C = {"ret": lambda v, E: self.result(v, E, self.node), "brk": None, "cont": None}
        kend = (lambda E: self.result(None, E, self.node)) if rty == "void" else \
            (lambda E: self.bad("control reaches the end of a non-void function", self.node))
        stm = body.get("inner", []) or []
        if len(objs) < 2:
            E = upd(E0, obj={objs[0][0]: "s"} if objs else {})
            term = self.stmts(stm, E, kend, C, set())
        else:
            Ea = upd(E0, obj={objs[0][0]: "s", objs[1][0]: "s"}, alias=True)
            Ed = upd(E0, obj={objs[0][0]: "s", objs[1][0]: "t"}, t="T'0")
            term = "match obj'0 with\n| None =>      (* %s and %s are the same object *)\n%s\n| Some T'0 =>\n%s\nend" % (
                objs[0][0], objs[1][0], ind(self.stmts(stm, Ea, kend, C, set()), 4), ind(self.stmts(stm, Ed, kend, C, set()), 4))
        rt = " * ".join(rcomp)
        if self.uses_fuel:
            head.insert(0, "(fuel : nat)")
        self.sig["fuel"] = self.uses_fuel
        return "\n\n".join(self.defs + ["Definition %s %s\n  : option (%s) :=\n%s." % (self.name, " ".join(head), rt, ind(term))])


# the functions of str.c / str.h this translator is run on, in translation order (callees first)
STAGE3 = ["a_str_rtrim_", "a_str_rtrim", "a_str_ltrim_", "a_str_ltrim", "a_str_trim_", "a_str_trim", "a_utf_catc", "a_str_catv"]
STAGE1 = ["a_str_setn_", "a_str_setn", "a_str_dtor", "a_str_swap", "a_str_setm_", "a_str_setm", "a_str_exit",
          "a_str_cmp_", "a_str_cmp", "a_str_cmpn", "a_str_cmps",
          "a_str_getc_", "a_str_getc", "a_str_catc_", "a_str_catc", "a_str_getn_", "a_str_getn",
          "a_str_catn_", "a_str_catn", "a_str_cats_", "a_str_cats", "a_str_cat_", "a_str_cat"]


def functions():
    return list(STAGE1) + list(STAGE3)


def translate(repo, cfg, names=None):
    """-> (text of the module Gen.StrGen, {function: error})"""
    repo = Path(repo).resolve()
    cfg = Path(cfg).resolve()
    names = names or functions()
    try:
        ast = load_ast(repo / "src" / "str.c", repo / "include", cfg)
        aast = load_ast(repo / "src" / "a.c", repo / "include", cfg)
    except Unsupported as e:
        return PRELUDE, {"src/str.c (all %d functions)" % len(names): str(e)}
    tr = Tr(ast, [aast])
    out, errs = [], {}
    for nm in names:
        try:
            out.append("(* %s *)\n%s" % (nm, tr.translate(nm)))
        except Unsupported as e:
            errs[nm] = str(e)
        except (KeyError, IndexError, TypeError, ValueError, AttributeError) as e:      # an AST shape this translator does not know
            errs[nm] = "unexpected AST shape in %s (%s: %s)" % (nm, type(e).__name__, e)
    return PRELUDE + "(* ---------------------------------------------------------------- src/str.c, include/a/str.h *)\n\n" + \
        "\n\n".join(out) + "\n", errs


if __name__ == "__main__":
    # c2str.py <repo> <configuration header> [function ...]
    t, e = translate(sys.argv[1], sys.argv[2], sys.argv[3:] or None)
    print(t)
    for k, v in e.items():
        print("(* ERROR %s: %s *)" % (k, v))
