#!/bin/bash
# tools/seedrun.sh <ID> <worktree> <first seeded index> : confirm and run the check on every _mut/<i>, save under seeded/<ID>-<n>/
ID=$1; WT=$2; N=${3:-1}; CHK=${4:-$ID}
mkdir -p /verif/build/seedlogs
for d in $WT/_mut/[0-9]*/; do
  i=$(basename $d)
  python3 /verif/tools/seedtest.py $CHK $d > /verif/build/seedlogs/${ID}_$N.json 2> /verif/build/seedlogs/${ID}_$N.err
  python3 /verif/tools/seedsave.py $ID $N $d /verif/build/seedlogs/${ID}_$N.json "$5"
  N=$((N+1))
done
