#!/usr/bin/env python3
"""Regenerate /verif/MANIFEST.json from the META dictionaries of checks/<ID>.py.
A property whose check module is missing or has no META is listed under not_applicable
with the reason given in NOT_YET below (kept current by hand)."""
import importlib
import json
import sys
from pathlib import Path

V = Path(__file__).resolve().parent.parent
sys.path.insert(0, str(V / "tools"))
sys.path.insert(0, str(V))

# properties whose check has been integrated (runs clean on the current tree); others stay under not_applicable
READY = ["C01", "C02", "C03", "C04", "C05", "C06", "C07", "C08", "C09", "C10", "C11", "C12", "C13", "C14", "C15", "C16", "C17", "C18", "C19", "C20"]
NOT_YET = {}
DEFAULT_REASON = "check not built yet (work in progress; DESIGN.md section 8 gives the build order)"


def main():
    props = [json.loads(l) for l in (V / "properties.jsonl").read_text().splitlines() if l.strip()]
    checks, na = [], []
    for p in props:
        pid = p["id"]
        meta = None
        if pid in READY and (V / "checks" / (pid + ".py")).exists():
            try:
                meta = getattr(importlib.import_module("checks." + pid), "META", None)
            except Exception as e:  # a broken module must not take the manifest down
                print("warning: cannot import checks.%s: %s" % (pid, e))
        if not meta:
            na.append({"property_id": pid, "reason": NOT_YET.get(pid, DEFAULT_REASON)})
            continue
        checks.append({
            "property_id": pid,
            "quick_cmd": "python3 tools/vcheck.py %s --tier quick" % pid,
            "thorough_cmd": "python3 tools/vcheck.py %s --tier thorough" % pid,
            "evidence_file": "/verif/evidence/%s.json" % pid,
            "replay_cmd_template": "python3 tools/vcheck.py %s --replay {path}" % pid,
            "engine": "rocq-proof+correspondence",
            "level_claimed": {"category": meta.get("category", "proof"), "text": meta["text"],
                              "design_ref": "DESIGN.md section 5, %s" % pid},
            "level_note": meta["note"],
            "technique": meta["technique"],
        })
    m = {"version": 1,
         "setup_cmd": "python3 tools/vcheck.py --setup",
         "hooks": {"guard": "TQFX_LIBA_VERIF",
                   "enable": "no source hook is needed: harnesses compile /repo/src/*.c directly with a generated A_HAVE_H "
                             "configuration header (all A_HAVE_* on / off, A_SIZE_REAL 4 / 8 / 16, A_SIZE_POINTER 8 / 4 / 1, plain char signed / unsigned) and replace the a_alloc "
                             "function pointer at run time",
                   "baseline_off_cmd": "cmake --build /repo/_build && ctest --test-dir /repo/_build -j8 --timeout 900",
                   "source_commits": [], "add_only": True},
         "engines": [{"name": "rocq-proof+correspondence", "path": "tools/vcheck.py",
                      "serves_properties": [c["property_id"] for c in checks],
                      "kind_free_text": "Rocq (Coq 8.16.1) theorems about executable Gallina models (coq/), tied to /repo on "
                                        "every run by a correspondence check (extracted OCaml / vm_compute vs C built from the "
                                        "current tree) or by regenerating the model from the source (translator)"}],
         "checks": checks,
         "notes": "See DESIGN.md. fix: commits in /repo are listed in KNOWN_FINDINGS.txt (fixed: lines).",
         "not_applicable": na}
    (V / "MANIFEST.json").write_text(json.dumps(m, indent=1) + "\n")
    print("MANIFEST: %d checks, %d not yet claimed" % (len(checks), len(na)))


if __name__ == "__main__":
    main()
