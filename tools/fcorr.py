"""Bit-exact float correspondence helpers: Gallina models instantiated with F64_ops are evaluated by vm_compute
inside coqc; the C implementation prints bit patterns; both are compared as 64-bit patterns (NaN as 'nan')."""
import math
import re
import struct

import vlib

WRAP = ["exp", "log", "sin", "cos", "tan", "atan", "asin", "acos", "sinh", "cosh", "tanh", "expm1", "log1p",
        "floor", "pow", "atan2", "hypot", "fmod"]
WRAP_FLAGS = ["-fno-builtin"] + ["-Wl,--wrap=" + w for w in WRAP]
LIBM_SUBST = vlib.VERIF / "harness" / "common" / "libm_subst.c"


def bits(x):
    if x != x:
        return "nan"
    return "%016x" % struct.unpack("<Q", struct.pack("<d", x))[0]


def argbits(x):
    """bit pattern for the C harness input (NaN gets the canonical quiet NaN)"""
    return "%016x" % struct.unpack("<Q", struct.pack("<d", x))[0]


def coqf(x):
    """Exact Coq literal of a double (float_scope)."""
    if x != x:
        return "nan"
    if x == math.inf:
        return "infinity"
    if x == -math.inf:
        return "neg_infinity"
    if x == 0:
        return "(-0)" if math.copysign(1, x) < 0 else "0"
    m, e = math.frexp(abs(x))          # abs(x) = m * 2^e, 0.5 <= m < 1
    mi = int(m * (1 << 53))            # exact
    s = "0x%xp%+d" % (mi, e - 53)
    return "(-%s)" % s if x < 0 else s


def coq_list(xs):
    return "[" + "; ".join(coqf(x) for x in xs) + "]"


_TOK = re.compile(r"\[|\]|S754_finite\s+(true|false)\s+(\d+)\s+\(?(-?\d+)\)?|S754_zero\s+(true|false)|S754_nan|"
                  r"S754_infinity\s+(true|false)|\b(true|false)\b|\(?(-?\d+)\)?%?Z?")


def parse_show(out):
    """Parse the printed value of `list (list spec_float)` into a list of lists of bit strings."""
    i = out.find("= [")
    if i < 0:
        raise vlib.CheckError("unexpected coqc output: " + out[-800:])
    txt = out[i + 2:]
    j = txt.rfind(": list")
    if j >= 0:
        txt = txt[:j]
    res, cur, depth = [], None, 0
    for m in re.finditer(r"\[|\]|S754_finite\s+(true|false)\s+(\d+)\s+\(?(-?\d+)\)?|S754_zero\s+(true|false)|S754_nan|"
                         r"S754_infinity\s+(true|false)", txt):
        t = m.group(0)
        if t == "[":
            depth += 1
            if depth == 2:
                cur = []
        elif t == "]":
            if depth == 2:
                res.append(cur)
                cur = None
            depth -= 1
        elif t.startswith("S754_finite"):
            neg, mant, ex = m.group(1) == "true", int(m.group(2)), int(m.group(3))
            v = math.ldexp(mant, ex)
            cur.append(bits(-v if neg else v))
        elif t.startswith("S754_zero"):
            cur.append(bits(-0.0 if m.group(4) == "true" else 0.0))
        elif t == "S754_nan":
            cur.append("nan")
        else:
            cur.append(bits(-math.inf if m.group(5) == "true" else math.inf))
    return res


def run_model(ctx, name, imports, exprs, shard=400, timeout=900):
    """exprs: Gallina expressions of type `list float` (float_scope open).  Returns list of lists of bit strings.
    Sharded over several coqc processes."""
    from concurrent.futures import ThreadPoolExecutor
    chunks = [exprs[i:i + shard] for i in range(0, len(exprs), shard)]

    def one(k):
        body = ["From Coq Require Import Floats List ZArith.",
                "From LibaV Require Import Common.NumOps Common.FloatOps %s." % " ".join(imports),
                "Import ListNotations.", "Local Open Scope float_scope.",
                "Definition cases : list (list float) := ["]
        body.append(";\n".join(chunks[k]))
        body.append("].")
        body.append("Eval vm_compute in map (map show) cases.")
        rc, out = ctx.coq_eval("%s_%d" % (name, k), "\n".join(body), timeout=timeout)
        if rc != 0:
            raise vlib.CheckError("model evaluation failed (%s shard %d): %s" % (name, k, out[-1500:]))
        r = parse_show(out)
        if len(r) != len(chunks[k]):
            raise vlib.CheckError("model evaluation: %d results for %d cases (%s shard %d)" % (len(r), len(chunks[k]), name, k))
        return r
    res = []
    with ThreadPoolExecutor(max_workers=vlib.NPROC) as ex:
        for r in ex.map(one, range(len(chunks))):
            res.extend(r)
    return res


def _run_c_raw(binary, lines, timeout):
    rc, out, err = vlib.sh2([str(binary)], stdin="\n".join(lines) + "\n", timeout=timeout)
    return rc, [ln.split() for ln in out.splitlines()], err


def run_c(binary, lines, timeout=600, crashes=None, max_crashes=3):
    """lines: 'fn hex hex ...' ; returns list of lists of bit strings (one list per line).
    If the harness aborts (sanitizer report, signal), the first crashing case is located by bisection, recorded in
    `crashes` as (index, stderr excerpt) with an empty result for it, and the run continues after it; without a
    `crashes` list (or after max_crashes) a crash raises CheckError."""
    res = []
    start = 0
    ncr = 0
    while start < len(lines):
        rc, out, err = _run_c_raw(binary, lines[start:], timeout)
        if rc == 0:
            res.extend(out)
            break
        if crashes is None:
            raise vlib.CheckError("C harness failed rc=%d: %s" % (rc, err[-1500:]))
        if ncr >= max_crashes:
            # too many aborts: the remaining cases are not run on the C side (empty results, listed as skipped)
            for j in range(start, len(lines)):
                res.append([])
                crashes.append((j, "skipped after %d aborts" % max_crashes))
            break
        lo, hi = 0, len(lines) - start          # smallest prefix length that crashes is in (lo, hi]
        while hi - lo > 1:
            mid = (lo + hi) // 2
            rc2, _, _ = _run_c_raw(binary, lines[start:start + mid], timeout)
            if rc2 == 0:
                lo = mid
            else:
                hi = mid
        rc3, out3, _ = _run_c_raw(binary, lines[start:start + lo], timeout) if lo else (0, [], "")
        rc4, _, err4 = _run_c_raw(binary, [lines[start + lo]], timeout)
        res.extend(out3)
        res.append([])
        m = [l for l in (err4 or err).splitlines() if "ERROR" in l or "runtime error" in l or "SUMMARY" in l]
        crashes.append((start + lo, (" | ".join(m[:3]) or (err4 or err)[-300:])[:500]))
        ncr += 1
        start = start + lo + 1
    return res


def fval(b):
    if b == "nan":
        return math.nan
    return struct.unpack("<d", struct.pack("<Q", int(b, 16)))[0]


def rand_double(r, kind=None):
    """Structured doubles: mostly moderate magnitudes, some tiny/huge/special."""
    k = kind or r.choice("mmmmmmssbbie")
    if k == "m":
        return r.uniform(-10, 10)
    if k == "s":
        return r.uniform(-1, 1) * 10.0 ** r.randint(-12, -1)
    if k == "b":
        return r.uniform(-1, 1) * 10.0 ** r.randint(1, 12)
    if k == "i":
        return float(r.randint(-20, 20))
    return r.choice([0.0, -0.0, 1.0, -1.0, 0.5, 2.0])
