"""vque: the translator tie of the queue of property C05 (src/que.c, include/a/que.h).

`que_translate_and_tie(ctx)` regenerates the functions listed in c2que.functions() from the CURRENT sources with
tools/c2que.py into build/C05/gen_que/QueGen.v (Gallina over a CONCRETE queue state: the recycle pool is an array with a fill
count and a capacity) and compiles harness/C05/TieQue*.v against it: every `Theorem tie_*` (the generated function SIMULATES
the hand-written proved model coq/C05/QueDefs.v under the abstraction relation R of TieQueR.v, for all related states,
arguments and allocator schedules) is one obligation; `Print Assumptions` under each must say "Closed under the global
context".  The list primitives que.c calls are mapped to the model functions that harness/C05/TieList.v ties them to (the
map is read from the statements of TieList.v, which is checked in the same run by ctx.heap_translate_and_tie).
Failures go to ctx.tie_broken with the name of the tie theorem.  Honours VERIF_REPO (vlib.REPO)."""
import hashlib
import re
import time
from pathlib import Path

try:
    from tools import vlib
except ImportError:  # pragma: no cover
    import vlib
try:
    from tools import c2que
except ImportError:  # pragma: no cover
    import c2que

TIE_DIR = vlib.VERIF / "harness" / "C05"
LIST_TIE = TIE_DIR / "TieList.v"
MODEL_DEPS = ["C05/QueProofs.v", "C05/AccDefs.v"]       # what the tie files import from LibaV (built by the mini-make)


def tie_files():
    """harness/C05/TieQue*.v in dependency order (a file comes after the files of the same set it imports)"""
    files = sorted(TIE_DIR.glob("TieQue*.v"))
    stems = {f.stem for f in files}
    deps = {}
    for f in files:
        src = f.read_text()
        d = set()
        for m in re.finditer(r"From\s+Gen\s+Require\s+(?:Import|Export)\s+([^.]*)\.", src):
            d |= {x for x in m.group(1).split() if x in stems and x != f.stem}
        deps[f.stem] = d
    out, done = [], set()
    while len(out) < len(files):
        ready = [f for f in files if f.stem not in done and deps[f.stem] <= done]
        if not ready:
            raise vlib.CheckError("circular imports among harness/C05/TieQue*.v")
        for f in ready:
            out.append(f)
            done.add(f.stem)
    return out


def list_primitives():
    """C name of a list primitive -> the model function TieList.v proves its regenerated body equal to"""
    src = LIST_TIE.read_text()
    prims = {}
    for m in re.finditer(r"Theorem\s+tie_(a_list_\w+)\s*:\s*forall\s+([\w\s]+),\s*gen_(a_list_\w+)\s+([\w\s]+?)\s*=\s*(l_\w+)\s+([\w\s]+?)\.", src):
        cname, binders, gname, gargs, model, margs = m.groups()
        if cname == gname and gargs.split() == margs.split() == binders.split():
            prims[cname] = model
    return prims


def first_error(out):
    m = re.search(r'line (\d+), characters [^\n]*\n((?:[^\n]*\n?){0,14})', out)
    if not m:
        return None, " ".join(out.split())[-500:]
    return int(m.group(1)), " ".join(m.group(2).split())[:500]


def owner_theorem(src, line):
    """(name of the lemma/theorem/definition the line belongs to, tie theorem it serves = itself or the first `Theorem tie_`
    after it)"""
    lines = src.splitlines()
    name = None
    for i in range(min(line, len(lines)) - 1, -1, -1):
        m = re.match(r"\s*(?:Theorem|Lemma|Corollary|Definition|Fixpoint|Example|Fact|Remark|Proposition|Ltac)\s+([\w']+)", lines[i])
        if m:
            name = m.group(1)
            break
    if name and name.startswith("tie_"):
        return name, name
    for i in range(max(line - 1, 0), len(lines)):
        m = re.match(r"\s*Theorem\s+(tie_[\w']+)", lines[i])
        if m:
            return name, m.group(1)
    return name, None


class _Pending:
    """the part of the tie that runs next to the rest of the check (its own directory, its own coqc processes)"""

    def __init__(self, fn):
        from concurrent.futures import ThreadPoolExecutor
        self.pool = ThreadPoolExecutor(max_workers=1)
        self.fut = self.pool.submit(fn)

    def result(self):
        try:
            return self.fut.result()
        finally:
            self.pool.shutdown()


def que_translate_and_tie(ctx, timeout=600, background=False):
    """Returns True iff every tie theorem was accepted.  background=True: the files of the model are brought up to date at once,
    translation and the coqc runs happen in a thread; the caller collects the verdict with `.result()` of the returned object."""
    t0 = time.time()
    files = tie_files()
    srcs = [f.read_text() for f in files]
    per_file = [re.findall(r"^\s*Theorem\s+(tie_[\w']+)", s, flags=re.M) for s in srcs]
    thms = [t for ts in per_file for t in ts]
    funcs = c2que.functions()
    ctx.cov["obligations"] += len(thms)
    ctx.cov.setdefault("translated_functions", []).extend(funcs)
    for f, s in zip(files, srcs):
        bad = ctx.scan_forbidden_text(s)
        if bad:
            ctx.tie_broken("forbidden construct in %s: %s" % (f, bad))
            return False
    missing = [f for f in funcs if "tie_" + f not in thms]
    if missing:
        ctx.tie_broken("harness/C05/TieQue*.v has no tie theorem for: %s" % ", ".join(missing))
        return False
    ok, outs, failed = ctx.coq_build(MODEL_DEPS, timeout=timeout)
    if not ok:
        ctx.tie_broken("coq/%s (used by the queue tie) does not build: %s" % (failed[0], " ".join(outs.get(failed[0], "").split())[-300:]))
        return False
    prims = list_primitives()

    def rest():
        try:
            return _tie(ctx, timeout, t0, files, srcs, per_file, thms, funcs, prims)
        except Exception as e:     # noqa: BLE001 - whatever goes wrong here means the tie was not checked
            import traceback
            ctx.tie_broken("queue translator tie could not be carried out (%s: %s): %s"
                           % (type(e).__name__, e, " ".join(traceback.format_exc().split())[-600:]))
            return False
    if background:
        return _Pending(rest)
    return rest()


def _tie(ctx, timeout, t0, files, srcs, per_file, thms, funcs, prims):
    # a run against a scratch copy (VERIF_REPO) gets its own directory: it may run at the same time as a run on /repo
    scratch = "" if str(vlib.REPO) == "/repo" else "_" + hashlib.md5(str(vlib.REPO).encode()).hexdigest()[:8]
    gd = ctx.build / ("gen_que" + scratch)
    gd.mkdir(parents=True, exist_ok=True)
    for old in [p for pat in ("*.vo", "*.glob", "*.vok", "*.vos") for p in gd.glob(pat)]:
        try:
            old.unlink()
        except OSError:
            pass
    cfg = ctx.cfg_header()
    text, errs = c2que.translate(vlib.REPO, str(Path(cfg).resolve()), prims)
    (gd / "QueGen.v").write_text(text)
    if errs:
        for k, v in errs.items():
            ctx.tie_broken("translator c2que: %s is outside the supported subset, tie theorem tie_%s cannot be checked: %s" % (k, k, v))
        return False
    args = ["coqc", "-Q", str(vlib.COQ), "LibaV", "-Q", str(gd), "Gen", "-w", "none"]
    rc, out = vlib.sh(args + [str(gd / "QueGen.v")], cwd=gd, timeout=timeout)
    if rc != 0:
        line, msg = first_error(out)
        name = owner_theorem(text, line)[0] if line else None
        name = re.sub(r"_loop\d+$", "", name or "?")
        ctx.tie_broken("generated queue functions QueGen.v do not compile (%s, tie theorem tie_%s cannot be checked): %s" % (name, name, msg))
        return False
    ok, done = True, 0
    from concurrent.futures import ThreadPoolExecutor
    pa_pool = ThreadPoolExecutor(max_workers=2)      # Print Assumptions of a file runs next to the compilation of the next one
    pa_jobs = []

    def print_assumptions(f, mine):
        paf = gd / ("PA_" + f.name)
        paf.write_text("From Gen Require Import %s.\n" % f.stem + "".join("Print Assumptions %s.\n" % t for t in mine))
        rc, pa = vlib.sh(args + [str(paf)], cwd=gd, timeout=timeout)
        return rc, pa

    for f, src, mine in zip(files, srcs, per_file):
        tf = gd / f.name
        tf.write_text(src)
        rc, out = vlib.sh(args + [str(tf)], cwd=gd, timeout=timeout)
        if rc != 0:
            line, msg = first_error(out)
            name, thm = owner_theorem(src, line) if line else (None, None)
            if thm and name and name != thm:
                which = "tie theorem %s (its lemma %s)" % (thm, name)
            elif thm or name:
                which = ("tie theorem %s" % thm) if thm else "lemma %s, used by the tie theorems" % name
            else:
                which = "tie theorem ?"
            ctx.tie_broken("regenerated queue function no longer simulates the proved model: %s of %s fails: %s" % (which, f.name, msg))
            done += mine.index(thm) if thm in mine else 0
            ok = False
            break
        pa_jobs.append((f, mine, pa_pool.submit(print_assumptions, f, mine) if mine else None))
    for f, mine, job in pa_jobs:
        if job is not None:
            rc, pa = job.result()
            closed = len(re.findall(r"^Closed under the global context", pa, flags=re.M))
            if rc != 0 or closed < len(mine):
                ctx.tie_broken("Print Assumptions under the tie theorems of %s: %d of %d closed: %s" % (f.name, closed, len(mine), " ".join(pa.split())[-300:]))
                ok = False
                continue
        done += len(mine)
        ctx.cov.setdefault("theorems", []).extend(mine)
    pa_pool.shutdown()
    ctx.cov["discharged"] += done
    ctx.cov["que_tie"] = {"functions": len(funcs), "tie_theorems_accepted": done, "of": len(thms),
                          "list_primitives_from_TieList": prims,
                          "generated_lines": text.count("\n"), "generated_loops": len(re.findall(r"^Fixpoint \w+_loop", text, flags=re.M)),
                          "seconds": round(time.time() - t0, 1)}
    if not ok:
        return False
    ctx.cov["trusted_base"].append(
        "translator tools/c2que.py (clang JSON AST -> Gallina over a concrete queue state: pool array with fill count and capacity, "
        "checked cell and link accesses, a_alloc through the model's request function `ask`, list primitives as the model functions "
        "TieList.v ties them to, loops on the model's fuel, a_size / a_diff arithmetic unbounded as in QueDefs.v); its output is "
        "re-tied on every run: %d simulation theorems (generated function ~ proved model under the abstraction relation R, for "
        "every related state, argument and schedule; tie_a_que_insert and tie_a_que_setz under the proved queue invariant QInv) accepted by coqc, all "
        "closed under the global context" % len(thms))
    ctx.log("queue translator tie: %d functions regenerated, %d simulation theorems accepted (%.1f s)" % (len(funcs), len(thms), time.time() - t0))
    return True
