"""varr: the all-lengths translator tie of the array loops of the numeric code (C11 math.c, C15 poly.c, C16 tf.c).

`arr_translate_and_tie(ctx, pid)` regenerates the functions listed in CONFIG[pid] from the CURRENT sources with tools/c2arr.py -
loops as Fixpoints (not unrolled), arrays as lists with checked access, integer counters as nat with every would-be wrap an
error - into build/<pid>/gen_arr/GenLoop.v, and compiles harness/<pid>/TieLoop*.v against it: every `Theorem tie_*` (generated
function = hand model, for every NumOps instance, every length, stride, offset, array length and content, under the no-wrap
hypotheses written in the statement) is one obligation; `Print Assumptions` under each must say "Closed under the global
context".  Failures go to ctx.tie_broken with the name of the tie theorem.  Honours VERIF_REPO (vlib.REPO)."""
import hashlib
import re
from concurrent.futures import ThreadPoolExecutor
from pathlib import Path

try:
    from tools import vlib
except ImportError:  # pragma: no cover
    import vlib
try:
    from tools import c2arr
except ImportError:  # pragma: no cover
    import c2arr

MATH_FUNCS = ["a_real_norm", "a_real_norm_", "a_real_sum", "a_real_sum_", "a_real_sum1", "a_real_sum1_", "a_real_sum2", "a_real_sum2_",
              "a_real_mean", "a_real_mean_", "a_real_dot", "a_real_dot_", "a_real_copy", "a_real_copy_", "a_real_swap", "a_real_swap_",
              "a_real_fill", "a_real_zero", "a_real_push_fore", "a_real_push_back", "a_real_push_fore_", "a_real_push_back_",
              "a_real_roll_fore", "a_real_roll_back", "a_real_roll_fore_", "a_real_roll_back_"]
# pointer parameters that may overlap share one array (the hand models take one memory and two offsets there)
MATH_REGIONS = {"a_real_copy": {"dst": "m", "src": "m"}, "a_real_copy_": {"dst": "m", "src": "m"},
                "a_real_swap": {"lhs": "m", "rhs": "m"}, "a_real_swap_": {"lhs": "m", "rhs": "m"}}

POLY_FUNCS = ["a_poly_swap_", "a_poly_eval_", "a_poly_evar_", "a_poly_swap", "a_poly_eval", "a_poly_evar"]
TF_FUNCS = ["a_tf_set_num", "a_tf_set_den", "a_tf_init", "a_tf_iter", "a_tf_zero"]

# "aux": functions regenerated because the others call them; their own tie theorem belongs to another property
CONFIG = {
    "C11": {"sources": [("src/math.c", MATH_FUNCS)], "regions": MATH_REGIONS, "fuel": {}, "helpers": "src/a.c", "have": 0, "real": 8,
            "aux": [], "what": "reductions and array helpers of src/math.c",
            "hyp": "none for the loops that count n down (sum, sum1, sum2, mean, dot, copy_, swap, fill, zero and strided forms); n*c < 2^64 "
                   "(norm, norm_) and 8*n < 2^64 (copy, push, roll: the byte count) where the generated code checks a product; norm also "
                   "under the instance laws DBL_MAX*DBL_MAX = 1/0 (or: no infinite value) and 0 <= 0"},
    "C15": {"sources": [("src/poly.c", POLY_FUNCS)],
            "regions": dict([(f, {"a": "c", "b": "c"}) for f in POLY_FUNCS[:3]] + [(f, {"a": "c"}) for f in POLY_FUNCS[3:]]),
            "fuel": {}, "helpers": "src/a.c", "have": 1, "real": 8, "aux": [],
            "what": "Horner evaluators and coefficient swap of src/poly.c, wrappers of a/poly.h",
            "hyp": "none on sizes; the range of coefficients is not empty (the empty range, undefined in C, is an error on both sides)"},
    "C08": {"sources": [("src/math.c", ["a_real_swap"]),
                        ("src/linalg.c", ["a_real_triL1", "a_real_triL", "a_real_triU", "a_real_diag1"]),
                        ("src/linalg_ldl.c", ["a_real_ldl" + k for k in
                                              " _L _D _lower _lower_ _upper _upper_ _solve _inv _inv_ _det _lndet _sgndet".split(" ")]),
                        ("src/linalg_llt.c", ["a_real_llt" + k for k in " _L _lower _lower_ _upper _upper_ _solve _inv _inv_ _det _lndet".split(" ")]),
                        ("src/linalg_plu.c", ["a_real_plu" + k for k in
                                              " _P _P_ _L _U _apply _lower _lower_ _upper _upper_ _solve _inv _inv_ _det _lndet _sgndet".split(" ")])],
            # a_real_plu swaps two rows of the same matrix: both pointer parameters of a_real_swap are views into one array
            "regions": {"a_real_swap": {"lhs": "m", "rhs": "m"}}, "fuel": {}, "helpers": "src/a.c", "have": 1, "real": 8,
            # functions whose int objects are carried in Z (sign flips): everything else keeps nat
            "signed": ["a_real_plu", "a_real_plu_det", "a_real_plu_sgndet", "a_real_ldl_sgndet"],
            "aux": ["a_real_swap", "a_real_triL1", "a_real_triL", "a_real_triU", "a_real_diag1"],
            "what": "PLU (partial pivoting), LDL^T and Cholesky families",
            "hyp": "the order is an a_uint value (U32); sgndet for a sign other than INT_MIN"},
    "C09": {"sources": [("src/linalg.c", ["a_real_" + k for k in
                                          "T1 T2 eye1 eye2 tri1 tri2 diag diag1 diag2 triL triL1 triL2 triU triU1 triU2 mulmm mulTm mulmT mulTT".split()])],
            "regions": {}, "fuel": {}, "helpers": "src/a.c", "have": 1, "real": 8,
            "aux": [], "what": "matrix kernels of src/linalg.c",
            "hyp": "the dimensions are a_uint values (U32), the hypothesis of the model's own theorems; with it neither the model's "
                   "wrapping offsets nor the generated code's checked offsets overflow"},
    "C13": {"sources": [("src/pid.c", ["a_pid_set_kpid", "a_pid_zero"]),
                        ("src/pid_fuzzy.c", ["a_pid_fuzzy_opr", "a_pid_fuzzy_set_opr", "a_pid_fuzzy_mf", "a_pid_fuzzy_out_", "a_pid_fuzzy_zero"])],
            "regions": {}, "fuel": {}, "helpers": "src/a.c", "have": 1, "real": 8,
            "aux": ["a_pid_set_kpid", "a_pid_zero"],
            # calls rendered as the hand model's functions (tied to src/mf.c and src/fuzzy.c by harness/C13/TieMf.v on the same run)
            "externs": dict([("a_mf_%s" % m, "mf_%s O" % m) for m in
                             "gauss gauss2 gbell sig dsig psig trap tri lins linz s z pi".split()] +
                            [("a_fuzzy_%s" % o, "fuzzy_%s O" % o) for o in
                             "equ cap cap_algebra cap_bounded cup cup_algebra cup_bounded".split()]),
            "imports": "From LibaV Require Import C13.MfDefs.",
            "what": "fuzzy PID controller src/pid_fuzzy.c",
            "hyp": "orders below 2^32 (unsigned int), nrule * nrule below 2^32 for the scaled row index"},
    "C16": {"sources": [("src/math.c", ["a_real_push_fore"]), ("src/tf.c", TF_FUNCS)], "regions": {}, "fuel": {}, "helpers": "src/a.c",
            "have": 1, "real": 8, "aux": ["a_real_push_fore"], "what": "transfer function src/tf.c with a_real_push_fore of src/math.c",
            "hyp": "orders below 2^32 (unsigned int), delay lines as long as the coefficient vectors, instance law zero = ofZ 0"},
}


def first_error(out):
    m = re.search(r'line (\d+), characters [^\n]*\n((?:[^\n]*\n?){0,12})', out)
    if not m:
        return None, " ".join(out.split())[-400:]
    return int(m.group(1)), " ".join(m.group(2).split())[:400]


def owner_theorem(src, line):
    """(name of the lemma/theorem the line belongs to, tie theorem it serves): a lemma names the tie theorem it is for in a
    comment `(* for tie_x *)` on its first line or the line above; otherwise the first `Theorem tie_` after it"""
    lines = src.splitlines()
    name, at = None, None
    for i in range(min(line, len(lines)) - 1, -1, -1):
        m = re.match(r"\s*(?:Theorem|Lemma|Corollary|Definition|Fixpoint|Example|Fact|Remark|Proposition|Ltac)\s+([\w']+)", lines[i])
        if m:
            name, at = m.group(1), i
            break
    if name and name.startswith("tie_"):
        return name, name
    if at is not None:
        for j in (at, at - 1):
            if j >= 0:
                m = re.search(r"\(\*\s*for\s+(tie_[\w']+)", lines[j])
                if m:
                    return name, m.group(1)
    for i in range(max(line - 1, 0), len(lines)):
        m = re.match(r"\s*Theorem\s+(tie_[\w']+)", lines[i])
        if m:
            return name, m.group(1)
    return name, None


def arr_translate_and_tie(ctx, pid, timeout=600):
    """Returns True iff every tie theorem was accepted."""
    conf = CONFIG[pid]
    hdir = vlib.VERIF / "harness" / pid
    tie_files = sorted(hdir.glob("TieLoop*.v"))
    tie_srcs = [f.read_text() for f in tie_files]
    per_file = [re.findall(r"^\s*Theorem\s+(tie_[\w']+)", src, flags=re.M) for src in tie_srcs]
    thms = [t for ts in per_file for t in ts]
    funcs = [n for _, ns in conf["sources"] for n in ns]
    ctx.cov["obligations"] += len(thms)
    ctx.cov.setdefault("translated_functions", []).extend("%s (loops as Fixpoints)" % f for f in funcs)
    for f, src in zip(tie_files, tie_srcs):
        bad = ctx.scan_forbidden_text(src)
        if bad:
            ctx.tie_broken("forbidden construct in %s: %s" % (f, bad))
            return False
    missing = [f for f in funcs if "tie_" + f not in thms and f not in conf["aux"]]
    if missing:
        ctx.tie_broken("harness/%s/TieLoop*.v has no tie theorem for: %s" % (pid, ", ".join(missing)))
        return False
    # a run against a scratch copy (VERIF_REPO) gets its own directory: it may run at the same time as a run on /repo
    scratch = "" if str(vlib.REPO) == "/repo" else "_" + hashlib.md5(str(vlib.REPO).encode()).hexdigest()[:8]
    gd = ctx.build / ("gen_arr" + scratch)
    gd.mkdir(parents=True, exist_ok=True)
    for old in [x for pat_ in ("*.vo", "*.glob", "*.vok", "*.vos") for x in gd.glob(pat_)]:
        try:
            old.unlink()
        except OSError:
            pass
    cfg = Path(ctx.cfg_header(conf["have"], conf["real"])).resolve()
    repo = Path(vlib.REPO).resolve()
    try:
        text, errs, sigs = c2arr.translate([(str(repo / rel), names) for rel, names in conf["sources"]], str(repo / "include"), str(cfg),
                                           regions=conf["regions"], fuel=conf["fuel"], helpers_source=str(repo / conf["helpers"]),
                                           externs=conf.get("externs"), signed=conf.get("signed"))
    except c2arr.Unsupported as ex:
        text, errs, sigs = "", {n: str(ex) for n in funcs}, {}
    prelude = c2arr.PRELUDE
    if conf.get("imports"):
        prelude = prelude.replace("Import ListNotations.", conf["imports"] + "\nImport ListNotations.", 1)
    (gd / "GenLoop.v").write_text(prelude + text)
    if errs:
        for k, v in errs.items():
            ctx.tie_broken("translator c2arr: %s is outside the supported subset (tie theorem tie_%s cannot be checked): %s" % (k, k, v))
        return False
    # project files the tie files rely on (lemmas about the hand models): built by the mini-make, scanned like the rest
    need = set()
    for src in tie_srcs:
        for m in re.finditer(r"From\s+LibaV\s+Require\s+(?:Import\s+|Export\s+)?(.*?)\.(?=\s|$)", src, flags=re.S):
            for mod in m.group(1).split():
                p = mod.replace(".", "/") + ".v"
                if (vlib.COQ / p).exists():
                    need.add(p)
    if need:
        deps = sorted(set(d for n in need for d in ctx.coq_deps(n)))
        bad = ctx.scan_forbidden([vlib.COQ / d for d in deps])
        if bad:
            ctx.tie_broken("forbidden construct in the files the loop tie relies on: " + "; ".join(bad[:10]))
            return False
        ok, outs, failed = ctx.coq_build(sorted(need), timeout=timeout)
        if not ok:
            ctx.tie_broken("lemma files of the loop tie do not build: %s: %s" % (",".join(failed), " ".join(outs.get(failed[0], "").split())[-400:]))
            return False
    args = ["coqc", "-Q", str(vlib.COQ), "LibaV", "-Q", str(gd), "Gen", "-w", "none"]
    rc, out = vlib.sh(args + [str(gd / "GenLoop.v")], cwd=gd, timeout=timeout)
    if rc != 0:
        line, msg = first_error(out)
        fn = vlib.enclosing_name(gd / "GenLoop.v", line) if line else "?"
        fn = re.sub(r"_loop\d+$", "", fn)
        ctx.tie_broken("generated loops GenLoop.v do not compile at %s (tie theorem tie_%s cannot be checked): %s"
                       % (fn, fn.replace("gen_", "", 1), msg))
        return False
    for f, src in zip(tie_files, tie_srcs):
        (gd / f.name).write_text(src)
    stems = [f.stem for f in tie_files]
    needs = {}
    for i, src in enumerate(tie_srcs):
        toks = set()
        for m in re.finditer(r"From\s+Gen\s+Require\s+(?:Import\s+|Export\s+)?(.*?)\.(?=\s|$)", src, flags=re.S):
            toks.update(m.group(1).split())
        needs[i] = {stems.index(t) for t in toks if t in stems and stems.index(t) != i}

    def one(i):
        f, mine = tie_files[i], per_file[i]
        rc1, out1 = vlib.sh(args + [str(gd / f.name)], cwd=gd, timeout=timeout)
        pa = ""
        if rc1 == 0 and mine:
            paf = gd / ("PA_" + f.stem + ".v")
            paf.write_text("From Gen Require Import %s.\n" % f.stem + "".join("Print Assumptions %s.\n" % t_ for t_ in mine))
            rc2, pa = vlib.sh(args + [str(paf)], cwd=gd, timeout=timeout)
            if rc2 != 0:
                rc1, out1 = 3, "Print Assumptions could not run for %s: %s" % (f.name, pa[-300:])
        return rc1, out1, pa

    results, done = {}, set()
    while len(done) < len(tie_files):
        wave = [i for i in range(len(tie_files)) if i not in done and needs[i] <= done]
        if not wave:
            wave = [i for i in range(len(tie_files)) if i not in done]
        blocked = [i for i in wave if any(results.get(j, (0,))[0] != 0 for j in needs[i])]
        for i in blocked:
            results[i] = (2, "not checked: it imports %s, which failed"
                          % ", ".join(tie_files[j].name for j in sorted(needs[i]) if results.get(j, (0,))[0] != 0), "")
        run = [i for i in wave if i not in blocked]
        if run:
            with ThreadPoolExecutor(max_workers=max(1, min(4, len(run)))) as ex:
                for i, r in zip(run, ex.map(one, run)):
                    results[i] = r
        done.update(wave)
    ok, n_closed = True, 0
    for i, f in enumerate(tie_files):
        rc1, out1, pa = results[i]
        mine = per_file[i]
        if rc1 == 2:
            ok = False
            ctx.log("tie file %s %s" % (f.name, out1))
            if mine:
                ctx.tie_broken("tie theorems of %s (%s ...) %s" % (f.name, mine[0], out1))
            continue
        if rc1 == 3:
            ok = False
            ctx.tie_broken(out1)
            continue
        if rc1 != 0:
            ok = False
            line, msg = first_error(out1)
            name, thm = owner_theorem(tie_srcs[i], line) if line else (None, None)
            which = "tie theorem %s (its lemma %s)" % (thm, name) if thm and name and name != thm else "tie theorem %s" % (thm or name or "?")
            ctx.tie_broken("regenerated loop no longer matches the proved model (%s): %s of %s fails: %s" % (conf["what"], which, f.name, msg))
            ctx.cov["discharged"] += mine.index(thm) if thm in mine else 0
            continue
        closed = len(re.findall(r"^Closed under the global context", pa, flags=re.M))
        if closed < len(mine):
            ok = False
            ctx.tie_broken("Print Assumptions under the tie theorems of %s: %d of %d closed under the global context: %s"
                           % (f.name, closed, len(mine), " ".join(pa.split())[-300:]))
            continue
        n_closed += closed
        ctx.cov["discharged"] += len(mine)
        ctx.cov.setdefault("theorems", []).extend(mine)
    gen_text = (gd / "GenLoop.v").read_text()
    ctx.cov["arr_tie"] = {"functions": len(funcs), "generated_loops": len(re.findall(r"^Fixpoint ", gen_text, flags=re.M)),
                          "generated_lines": gen_text.count("\n"), "tie_theorems": len(thms), "tie_files": [f.name for f in tie_files],
                          "hypotheses": conf["hyp"]}
    if not ok:
        return False
    ctx.cov["trusted_base"].append(
        "translator tools/c2arr.py (clang JSON AST -> Gallina: loops as Fixpoints on the counter or on fuel, arrays as lists with checked "
        "access, counters as nat with every would-be wrap an error, memcpy/memmove as read-all-then-write block moves after checking the "
        "bodies of a_copy/a_move/a_zero in src/a.c); its output is re-tied on every run: %d tie theorems (generated function = proved "
        "model, for every NumOps instance, every length, stride and array) accepted by coqc, all closed under the global context"
        % len(thms))
    ctx.log("loop translator tie (%s): %d functions regenerated with %d loops as Fixpoints, %d tie theorems accepted"
            % (conf["what"], len(funcs), ctx.cov["arr_tie"]["generated_loops"], len(thms)))
    return True
