#!/usr/bin/env python3
"""Entry point named by MANIFEST.json.

  tools/vcheck.py <ID> [--tier quick|thorough] [--replay <file>]
  tools/vcheck.py --setup          build the whole Rocq development once (full .vo)

Exit 0: property held on everything explored.  Exit 1: a line
"VIOLATION property=<ID> replay=<path>[ no-failing-input-found]" was printed.
VERIF_SEED / VERIF_TIER are honoured.
"""
import argparse
import importlib
import os
import sys
import traceback
from pathlib import Path

sys.path.insert(0, str(Path(__file__).resolve().parent))
sys.path.insert(0, str(Path(__file__).resolve().parent.parent))
import vlib  # noqa: E402


def setup():
    """Build every file of the Rocq development (full .vo).  A failing proof is reported by the
    individual checks; setup only fails when the tool chain is unusable."""
    ctx = vlib.Ctx("setup", "quick", 0)
    files = ctx.coq_setup()
    ok, outs, failed = ctx.coq_build(files, timeout=7200)
    print("built %d files, failed: %s" % (len(files) - len(failed), failed))
    for f in failed:
        print("==", f, "\n", outs.get(f, "")[-1500:])
    rc2, o2 = vlib.sh(["coqc", "--version"])
    return 0 if rc2 == 0 else 1


def main():
    ap = argparse.ArgumentParser()
    ap.add_argument("pid", nargs="?")
    ap.add_argument("--setup", action="store_true")
    ap.add_argument("--tier", default=os.environ.get("VERIF_TIER", "quick"))
    ap.add_argument("--replay", default=None)
    a = ap.parse_args()
    if a.setup:
        return setup()
    if not a.pid:
        ap.error("property id required")
    tier = a.tier if a.tier in ("quick", "thorough") else "quick"
    try:
        seed = int(os.environ.get("VERIF_SEED", "20260926"))
    except ValueError:
        seed = 20260926
    ctx = vlib.Ctx(a.pid, tier, seed)
    mod = importlib.import_module("checks." + a.pid)
    try:
        if a.replay and hasattr(mod, "replay"):
            mod.replay(ctx, a.replay)
        else:
            # no dedicated replayer: re-run the check (corpus and seed are deterministic)
            mod.run(ctx)
    except vlib.CheckError as e:
        # the check could not be carried out on this tree (e.g. the sources no longer compile in
        # the harness): the property is no longer shown to hold
        ctx.tie_broken("check could not run: " + str(e)[:1500])
    except Exception:
        ctx.tie_broken("internal error in check: " + traceback.format_exc()[-1500:])
    return ctx.finish()


if __name__ == "__main__":
    sys.exit(main())
