"""Glue around the modelled numeric cores of C12-C16 (DIFFERENTIAL TESTS, not theorems).

The Rocq models, the translator ties and the bit-exact correspondence of checks/C12.py .. C16.py cover the C API built with
a_real = double.  Two kinds of code sit around those cores and are covered here:

  cxx_wrappers(ctx, pid)   the C++ member functions the public headers add to their structs (`#if defined(__cplusplus)` inside
                           the struct).  harness/glue/cxx_<ID>.cpp calls every member on a generated object and the C function it
                           stands for on a byte-identical copy and compares all observable state bit for bit (returned value,
                           every field, caller-owned arrays).  The set of members is read from the header on every run (clang's
                           JSON AST in C++ mode and, independently, a regular expression); a member that is not in the harness's
                           table is reported through ctx.tie_broken as an "uncovered member".
  config_sweep(ctx, pid)   the non-default floating-point configurations.  harness/glue/cfg_<ID>.c is generic in a_real and is
                           built three times (A_SIZE_REAL 4, 8, 16) with ASan+UBSan from the current tree.  The cases are small
                           integers / dyadic rationals for which EVERY intermediate result of the documented equations is exactly
                           representable in binary32 (checked here with exact fractions, class X), so that all three builds must
                           print exactly the numbers computed here from the property's own statement.  Caller-owned arrays live in
                           one guarded pool (harness/glue/cfg_common.h).  What cannot be exact (pi, exp, pow, sqrt, the 1/6 of
                           the septic) is compared with a reference computed here, or between the configurations, with a tolerance
                           suited to float (1e-5 relative + 1e-6 absolute) on well-conditioned arguments only.  Two further kinds
                           of cases: PRECISION cases (inputs with full 24-bit mantissas, identical in the three builds) must agree
                           with the exact rational value of the documented equations within 2 x depth x machine epsilon OF THE
                           CONFIGURATION x size of the terms (class S) - a `double` local or constant in the long double build, a
                           `float` one in the double build, exceed that; EPSILON cases are fuzzy-controller steps whose only active
                           set has a degree between the machine epsilons of two configurations, so that the expected gains differ
                           between the builds (a set is active iff its degree exceeds A_REAL_EPSILON).  A `double` local in the
                           FLOAT build only adds precision and cannot be seen by any of these.

A difference is a VIOLATION with the failing case as replay (key "<function>/config-<real size>" or "<struct>::<member>/cxx-wrapper").

C08 and C09 (src/linalg*.c) use the same config_sweep: include/a/linalg.h carries no C++ member (cxx_wrappers only scans the header
and says so), cfg_C09.c runs every kernel of linalg.c on integer data against checks/C09.py `expected`, cfg_C08.c runs the PLU /
LDL^T / LL^T families on matrices constructed from dyadic factors (exact in binary32, verified with fractions), on exactly singular
ones, on pivots at A_REAL_MIN of each configuration and on full-mantissa matrices (precision cases); see gen_C09 / gen_C08 below.
"""
import json
import math
import random
import re
import time
from concurrent.futures import ThreadPoolExecutor
from fractions import Fraction

import fcorr
import vlib

G = vlib.VERIF / "harness" / "glue"

# property -> headers whose structs / `namespace a` may carry C++ members
HEADERS = {
    "C12": ["pid.h", "pid_neuro.h", "pid_fuzzy.h"],
    "C13": ["mf.h", "fuzzy.h", "pid_fuzzy.h"],
    "C14": ["trajtrap.h", "trajbell.h"],
    "C15": ["trajpoly3.h", "trajpoly5.h", "trajpoly7.h", "poly.h"],
    "C16": ["tf.h", "lpf.h", "hpf.h"],
}
# library sources the harnesses link (compiled as C from the current tree)
SRCS = {
    "C12": ["pid.c", "pid_neuro.c", "pid_fuzzy.c", "mf.c", "fuzzy.c", "math.c", "a.c"],
    "C13": ["pid.c", "pid_fuzzy.c", "mf.c", "fuzzy.c", "math.c", "a.c"],
    "C14": ["trajtrap.c", "trajbell.c", "math.c", "a.c"],
    "C15": ["trajpoly3.c", "trajpoly5.c", "trajpoly7.c", "poly.c", "math.c", "a.c"],
    "C16": ["tf.c", "math.c", "a.c"],
}
REALNAME = {4: "float", 8: "double", 16: "long double"}
MAX_REPORTS = 5
# runs against a scratch copy (VERIF_REPO) use their own binaries, so that they never race with a run on /repo
TREE = "" if str(vlib.REPO) == "/repo" else "_" + __import__("hashlib").sha1(str(vlib.REPO).encode()).hexdigest()[:6]


# =====================================================================================================================
# A. C++ member wrappers
# =====================================================================================================================
def _members_regex(text):
    """(struct, member) pairs and `namespace a` functions found by a plain scan of the header text."""
    found, ns = set(), set()
    # struct bodies: `struct a_x {` or `typedef struct a_x {` up to the closing brace at the start of a line
    for m in re.finditer(r"^(?:typedef\s+)?struct\s+(a_\w+)\s*\{(.*?)^\}", text, flags=re.M | re.S):
        st, body = m.group(1), m.group(2)
        for blk in re.finditer(r"#\s*if\s+defined\s*\(\s*__cplusplus\s*\)(.*?)#\s*endif", body, flags=re.S):
            for f in re.finditer(r"^\s*(?:A_INLINE|inline|static|template\s*<[^>]*>)?[\w\s\*&:<>,]*?\b(operator\s*\(\s*\)|operator\s*[^\s\w(]+|~?\w+)\s*\("
                                 r"[^;{}]*\)\s*(?:const\s*)?(?:noexcept\s*)?\{", blk.group(1), flags=re.M):
                name = re.sub(r"\s+", "", f.group(1))
                if name not in ("if", "for", "while", "switch", "return", "sizeof"):
                    found.add((st, name))
    for m in re.finditer(r"namespace\s+a\s*\{(.*?)\}\s*/\*\s*namespace a\s*\*/", text, flags=re.S):
        for f in re.finditer(r"\b(\w+)\s*\([^;{}]*\)\s*(?:const\s*)?\{", m.group(1)):
            ns.add(("namespace a", f.group(1)))
    return found, ns


def _members_clang(ctx, header):
    """The same through clang's JSON AST of the header parsed as C++11: explicit methods of every record named a_*, functions
    declared inside `namespace a`.  Returns (members, namespace functions, callee map) or None when clang cannot parse it."""
    cfg = ctx.cfg_header(1, 8)
    rc, out, err = vlib.sh2(["clang++", "-std=c++11", "-x", "c++", "-I", str(vlib.REPO / "include"), '-DA_HAVE_H="%s"' % cfg,
                             "-fsyntax-only", "-Xclang", "-ast-dump=json", str(header)], timeout=120)
    if rc != 0 or not out.lstrip().startswith("{"):
        return None
    try:
        root = json.loads(out)
    except ValueError:
        return None
    found, ns, callee = set(), set(), {}

    def calls(node, acc):
        if isinstance(node, dict):
            if node.get("kind") == "DeclRefExpr" and node.get("referencedDecl", {}).get("kind") == "FunctionDecl":
                acc.append(node["referencedDecl"].get("name"))
            for c in node.get("inner", []) or []:
                calls(c, acc)

    def walk(node, in_ns_a):
        k = node.get("kind")
        if k == "CXXRecordDecl" and str(node.get("name", "")).startswith("a_"):
            for c in node.get("inner", []) or []:
                ck = c.get("kind")
                if c.get("isImplicit"):
                    continue
                if ck in ("CXXMethodDecl", "CXXConstructorDecl", "CXXDestructorDecl", "CXXConversionDecl"):
                    found.add((node["name"], c.get("name", ck)))
                    acc = []
                    calls(c, acc)
                    callee[(node["name"], c.get("name", ck))] = acc
                elif ck == "FunctionTemplateDecl":
                    found.add((node["name"], c.get("name", ck)))
        if k == "NamespaceDecl" and node.get("name") == "a":
            in_ns_a = True
        elif in_ns_a and k in ("FunctionDecl", "FunctionTemplateDecl") and not node.get("isImplicit"):
            ns.add(("namespace a", node.get("name", "?")))
        for c in node.get("inner", []) or []:
            if isinstance(c, dict):
                walk(c, in_ns_a)
    walk(root, False)
    return found, ns, callee


def header_members(ctx, pid):
    """{(struct, member)} of every header of the property, with how each was found; namespace-a functions likewise."""
    members, how, callee = {}, [], {}
    for h in HEADERS[pid]:
        p = vlib.REPO / "include" / "a" / h
        try:
            text = p.read_text()
        except OSError:
            ctx.tie_broken("glue: header include/a/%s is missing" % h)
            continue
        rx, rx_ns = _members_regex(text)
        cl = _members_clang(ctx, p)
        if cl is None:
            how.append("%s: regex only (clang++ could not parse the header as C++11)" % h)
            cl_m, cl_ns = set(), set()
        else:
            cl_m, cl_ns, ce = cl
            # the AST also holds the records of the headers this one includes: keep what this header's own text defines
            own = set(re.findall(r"\bstruct\s+(a_\w+)\s*\{", text))
            cl_m = set(sm for sm in cl_m if sm[0] in own)
            cl_ns = set(sm for sm in cl_ns if re.search(r"\b%s\s*\(" % re.escape(sm[1]), text))
            callee.update(ce)
            how.append("%s: clang AST %d, regex %d" % (h, len(cl_m) + len(cl_ns), len(rx) + len(rx_ns)))
        for sm in rx | rx_ns | cl_m | cl_ns:
            members.setdefault(sm, set()).add(h)
    return members, how, callee


def _c_objects(ctx, tag, srcs, real, flags):
    """Compile the library sources AS C (the shipped library is C, its consumers are C++) into build/<ID>/<tag>/*.o."""
    d = ctx.build / tag
    d.mkdir(parents=True, exist_ok=True)
    for f in d.glob("*.o"):
        f.unlink()
    cfg = ctx.cfg_header(1, real)
    cmd = ["gcc", "-std=c11"] + flags + ["-w", "-I", str(vlib.REPO / "include"), "-DA_EXPORTS", '-DA_HAVE_H="%s"' % cfg, "-c"] + \
          [str(vlib.REPO / "src" / s) for s in srcs]
    rc, o = vlib.sh(cmd, cwd=str(d), timeout=300)
    if rc != 0:
        raise vlib.CheckError("C build failed (%s):\n%s" % (" ".join(cmd), o[-3000:]))
    return sorted(str(f) for f in d.glob("*.o"))


def _cxx_build(ctx, pid, real):
    objs = _c_objects(ctx, "glue_obj_r%d%s" % (real, TREE), SRCS[pid], real, ["-O2", "-ffp-contract=off", "-fno-fast-math", "-fexcess-precision=standard"])
    return ctx.cc("glue_cxx_%s_r%d%s" % (pid, real, TREE), [G / ("cxx_%s.cpp" % pid)], mode="plain", real=real, cxx=True,
                  extra=["-ffp-contract=off", "-fno-fast-math"] + objs)


def cxx_wrappers(ctx, pid):
    t0 = time.time()
    members, how, callee = header_members(ctx, pid)
    if not (G / ("cxx_%s.cpp" % pid)).exists():
        # a property whose headers carry no C++ member at all (C08, C09: include/a/linalg.h is plain C inside extern "C"): there is
        # nothing to compare and no harness.  The scan above still runs on every run, so a member added to the header later is
        # an uncovered member (broken tie), not a silent gap.
        for st, mem in sorted(members):
            ctx.tie_broken("glue: uncovered member %s::%s (include/a/%s): property %s has no C++ wrapper harness (harness/glue/cxx_%s.cpp) "
                           "because its headers had no C++ members when the glue runs were built; nothing compares this one with the C API"
                           % (st, mem, ",".join(sorted(members[(st, mem)])), pid, pid))
        ctx.cov["glue_cxx_members"] = 0
        ctx.cov["glue_cxx_members_in_headers"] = len(members)
        ctx.cov["glue_cxx_member_scan"] = how
        ctx.cov["glue_cxx_rule"] = ("no C++ member functions in %s (scanned on this run with clang's C++ AST and a regular expression): "
                                    "no wrapper comparison is needed" % ", ".join("include/a/" + h for h in HEADERS[pid]))
        ctx.log("glue cxx_wrappers: nothing to do for %s: %s declare%s no C++ member functions (%s)"
                % (pid, ", ".join("include/a/" + h for h in HEADERS[pid]), "s" if len(HEADERS[pid]) == 1 else "", "; ".join(how)))
        return
    reals = (8, 16) if ctx.quick else (8, 16, 4)
    n = 150 if ctx.quick else 1500
    bins = {}
    try:
        with ThreadPoolExecutor(max_workers=3) as ex:
            for real, b in zip(reals, ex.map(lambda r: _cxx_build(ctx, pid, r), reals)):
                bins[real] = b
    except vlib.CheckError as e:
        ctx.tie_broken("glue: the C++ wrapper harness harness/glue/cxx_%s.cpp no longer builds against the headers of the tree "
                       "(a member was removed, renamed or its signature changed?): %s" % (pid, " ".join(str(e).split())[-700:]))
        return
    # the table of the harness against the members present in the header
    rc, out = vlib.sh([str(bins[reals[0]]), "--list"], timeout=60)
    table = {}
    for ln in out.splitlines():
        t = ln.split()
        if len(t) == 4 and t[0] == "TABLE":
            table[(t[1], t[2])] = t[3]
    uncovered = sorted(sm for sm in members if sm not in table)
    stale = sorted(sm for sm in table if sm not in members)
    for st, mem in uncovered:
        ctx.tie_broken("glue: uncovered member %s::%s (include/a/%s): it is not in the table of harness/glue/cxx_%s.cpp, so nothing "
                       "compares it with the C API" % (st, mem, ",".join(sorted(members[(st, mem)])), pid))
    for st, mem in stale:
        ctx.tie_broken("glue: harness/glue/cxx_%s.cpp lists %s::%s but the headers %s no longer define it" % (pid, st, mem, HEADERS[pid]))
    # run
    seed = ctx.subseed("glue_cxx_" + pid) % (1 << 62)
    total, per_member, nrep, seen_keys = 0, {}, 0, set()
    for real in reals:
        cmd = [str(bins[real]), str(seed + real), str(n)]
        rc, out, err = vlib.sh2(cmd, timeout=600)
        diffs = [ln for ln in out.splitlines() if ln.startswith("DIFF ")]
        for ln in out.splitlines():
            t = ln.split()
            if t and t[0] == "COVERED" and len(t) == 6:
                per_member["%s::%s" % (t[1], t[2])] = per_member.get("%s::%s" % (t[1], t[2]), 0) + int(t[4])
                total += int(t[4])
            elif t and t[0] == "UNTESTED":
                ctx.tie_broken("glue: harness/glue/cxx_%s.cpp (%s): %s" % (pid, REALNAME[real], ln))
        by_member = {}
        for ln in diffs:
            m = re.match(r"DIFF (\S+?)::(\S+) args=(.*?) field=(.*?) cxx=(\S+) c=(\S+)\s*$", ln)
            if m:
                by_member.setdefault((m.group(1), m.group(2)), []).append(m)
            else:       # never drop a difference because its line has an unexpected shape
                m2 = re.match(r"DIFF (\S+?)::(\S+)", ln)
                key = "%s/cxx-wrapper" % (("%s::%s" % m2.groups()) if m2 else "unparsed")
                if key not in seen_keys and nrep < MAX_REPORTS:
                    seen_keys.add(key)
                    nrep += 1
                    ctx.report(key, "C++ member and C function differ (a_real = %s): %s" % (REALNAME[real], ln[:600]),
                               {"differences": diffs[:8], "rerun": " ".join(cmd)})
        for (st, mem), ms in by_member.items():
            key = "%s::%s/cxx-wrapper" % (st, mem)
            if key in seen_keys or nrep >= MAX_REPORTS:
                continue
            seen_keys.add(key)
            nrep += 1
            m = ms[0]
            ctx.report(key, "C++ member %s::%s(%s) leaves %s = %s, the C function it stands for (%s) leaves %s on an identical object "
                            "(a_real = %s; %d differing cells in this run)"
                       % (st, mem, m.group(3), m.group(4), m.group(5), table.get((st, mem), "?"), m.group(6), REALNAME[real], len(ms)),
                       {"member": "%s::%s" % (st, mem), "c_function": table.get((st, mem)), "arguments": m.group(3),
                        "differences": [x.group(0) for x in ms[:8]], "configuration": "A_SIZE_REAL=%d" % real,
                        "rerun": "%s   # built by tools/vglue.py cxx_wrappers from harness/glue/cxx_%s.cpp and the tree under test"
                                 % (" ".join(cmd), pid)})
        if rc not in (0, 1, 2) or (rc == 1 and not diffs):
            ctx.report("cxx-wrapper-harness/abort", "the C++ wrapper harness of %s aborted (rc=%d, a_real = %s): %s"
                       % (pid, rc, REALNAME[real], " ".join((err or out).split())[-600:]),
                       {"rerun": " ".join(cmd), "stderr": (err or "")[-1500:]})
    ctx.cov["glue_cxx_members"] = len(table)
    ctx.cov["glue_cxx_members_in_headers"] = len(members)
    ctx.cov["glue_cxx_trials"] = total
    ctx.cov["glue_cxx_trials_per_member"] = per_member
    ctx.cov["glue_cxx_configurations"] = [REALNAME[r] for r in reals]
    ctx.cov["glue_cxx_member_scan"] = how
    # what each member's body calls in the header of THIS tree (from the AST), next to the C function the harness compares it with
    ctx.cov["glue_cxx_header_callees"] = {"%s::%s" % sm: {"harness_compares_with": table.get(sm, "(not in the table)"),
                                                          "header_body_calls": sorted(set(callee.get(sm, [])))} for sm in sorted(members)}
    ctx.cov["glue_cxx_rule"] = ("differential test, not a theorem: every C++ member function of the structs of %s (list read from the "
                                "header by clang's C++ AST and by a regular expression on every run) is called on a generated object "
                                "and the C function it stands for on a byte-identical copy; %d trials per member and configuration, "
                                "arguments pairwise distinct, non-zero, full-width mantissas, defaulted arguments omitted and spelled "
                                "out; returned value, every field and every caller-owned array compared bit for bit"
                                % (", ".join("include/a/" + h for h in HEADERS[pid]), n))
    ctx.count(evaluations=total)
    ctx.assumptions.append("glue (C++ members): differential test on generated arguments, no proof; the C API is the reference")
    ctx.log("glue cxx_wrappers: %d members (%d in headers), %d trials, %d uncovered, %.1fs"
            % (len(table), len(members), total, len(uncovered), time.time() - t0))


# =====================================================================================================================
# B. configuration sweep
# =====================================================================================================================
BITS = 22       # mantissa budget of an exact case: two bits below binary32, so that a harmless re-association stays exact


class Inexact(Exception):
    pass


def fits(fr, bits=BITS):
    if fr == 0:
        return True
    n, d = abs(fr.numerator), fr.denominator
    if d & (d - 1):
        return False
    n >>= (n & -n).bit_length() - 1
    if n.bit_length() > bits:
        return False
    return Fraction(1, 1 << 90) <= abs(fr) <= (1 << 90)


class X:
    """A value of an exact case: a dyadic rational that fits binary32; every operation checks its result."""
    __slots__ = ("v",)

    def __init__(self, v):
        v = v.v if isinstance(v, X) else Fraction(v)
        if not fits(v):
            raise Inexact(str(v))
        self.v = v

    @staticmethod
    def _f(o):
        return o.v if isinstance(o, X) else Fraction(o)

    def __add__(self, o): return X(self.v + X._f(o))
    __radd__ = __add__
    def __sub__(self, o): return X(self.v - X._f(o))
    def __rsub__(self, o): return X(X._f(o) - self.v)
    def __mul__(self, o): return X(self.v * X._f(o))
    __rmul__ = __mul__

    def __truediv__(self, o):
        d = X._f(o)
        if d == 0:
            raise Inexact("division by zero")
        return X(self.v / d)

    def __rtruediv__(self, o):
        if self.v == 0:
            raise Inexact("division by zero")
        return X(X._f(o) / self.v)

    def __neg__(self): return X(-self.v)
    def __abs__(self): return X(abs(self.v))
    def __lt__(self, o): return self.v < X._f(o)
    def __le__(self, o): return self.v <= X._f(o)
    def __gt__(self, o): return self.v > X._f(o)
    def __ge__(self, o): return self.v >= X._f(o)
    def __eq__(self, o): return self.v == X._f(o)
    def __ne__(self, o): return self.v != X._f(o)
    def __hash__(self): return hash(self.v)
    def __repr__(self): return "X(%s)" % self.v


def xsqrt(x):
    """exact square root or Inexact"""
    v = X._f(x)
    if v < 0:
        raise Inexact("sqrt of a negative")
    n, d = v.numerator, v.denominator
    rn, rd = math.isqrt(n), math.isqrt(d)
    if rn * rn != n or rd * rd != d:
        raise Inexact("sqrt")
    return X(Fraction(rn, rd))


def sat(x, lo, hi):
    """#define A_SAT(x, min, max): min < x ? (x < max ? x : max) : min"""
    return (x if x < hi else hi) if lo < x else lo


def hexf(v):
    """C99 hex-float literal of a dyadic rational (exact)."""
    fr = X._f(v)
    f = float(fr)
    if Fraction(f) != fr:
        raise Inexact("not a double: %s" % fr)
    return re.sub(r"\.?0*p", "p", f.hex())


def dec(fr):
    """exact decimal text of a dyadic rational (or a plain fraction text)"""
    fr = X._f(fr) if not isinstance(fr, (str, tuple)) else fr
    if isinstance(fr, (str, tuple)):
        return str(fr)
    d = fr.denominator
    if d & (d - 1):
        return "%d/%d" % (fr.numerator, d)
    k = d.bit_length() - 1
    if k > 1100:        # beyond binary64 (long double pivots of the C08 threshold cases): no decimal expansion
        return "%d*2^-%d" % (fr.numerator, k)
    n = fr.numerator * 5 ** k
    s = "%d" % abs(n)
    if k:
        s = s.rjust(k + 1, "0")
        s = (s[:-k] + "." + s[-k:]).rstrip("0").rstrip(".")
    return ("-" if n < 0 else "") + s


_HEX = re.compile(r"^(-?)0x([0-9a-f]*)\.?([0-9a-f]*)p([+-]?\d+)$")


def parse_tok(t):
    """output token -> Fraction | 'nan' | 'inf' | '-inf' | ('guard', text) | ('bad', text)"""
    if t.startswith("i") and (t[1:].lstrip("-").isdigit()):
        return Fraction(int(t[1:]))
    m = _HEX.match(t)
    if m:
        a, b = m.group(2), m.group(3)
        v = Fraction(int((a + b) or "0", 16)) * Fraction(2) ** (int(m.group(4)) - 4 * len(b))
        return -v if m.group(1) else v
    if t in ("nan", "-nan"):
        return "nan"
    if t in ("inf", "-inf"):
        return t
    if t.startswith("GUARD@"):
        return ("guard", t[6:])
    return ("bad", t)


class Case:
    """line: what the driver reads.  expect: [(function, mode, value)] aligned with the driver's output tokens (or a dict
    {real size: such a list} when the documented result depends on the configuration, e.g. through A_REAL_EPSILON);
    mode '=' exact, '~' within the float tolerance of value (a python reference), 'p' within the rounding-error bound of the
    configuration (value = S: exact result, size of the terms, depth), 'x' compared between the configurations (value None or the
    size of the terms), '?' ignored.  desc: human-readable inputs for the replay.  post: optional (real, values)->message."""
    __slots__ = ("line", "fn", "expect", "desc", "post")

    def __init__(self, line, fn, expect, desc, post=None):
        self.line, self.fn, self.expect, self.desc, self.post = line, fn, expect, desc, post

    def exp(self, real):
        return self.expect[real] if isinstance(self.expect, dict) else self.expect



def E(fn, vals):
    return [(fn, "=", X._f(v)) for v in vals]


def A(fn, vals):
    return [(fn, "~", v) for v in vals]


def close(real, got, ref):
    """tolerance suited to the configuration: float 1e-5 relative + 1e-6 absolute; double / long double against a binary64
    python reference 1e-9 relative + 1e-12 absolute"""
    if not isinstance(got, Fraction):
        return False
    rel, ab = (1e-5, 1e-6) if real == 4 else (1e-9, 1e-12)
    scale = 0
    if isinstance(ref, tuple):      # (reference, size of the terms it is the sum of)
        ref, scale = ref
    ref = Fraction(ref)
    return abs(got - ref) <= Fraction(rel) * max(abs(ref), Fraction(scale)) + Fraction(ab)


EPS = {4: Fraction(1, 1 << 23), 8: Fraction(1, 1 << 52), 16: Fraction(1, 1 << 63)}


class Unstable(Exception):
    """a comparison of a precision case is too close to call in rounded arithmetic: the case is dropped"""


class S:
    """A value of a precision case: exact result v of the documented equations, m = what the same expression gives with every term
    replaced by its magnitude (the size of the terms), d = depth of the expression.  Rounded evaluation in a format with machine
    epsilon eps differs from v by at most about d * eps/2 * m; the comparison allows 2 * d * eps * m."""
    __slots__ = ("v", "m", "d")

    def __init__(self, v, m=None, d=0):
        if isinstance(v, S):
            v, m, d = v.v, v.m, v.d
        self.v = Fraction(v)
        self.m = abs(self.v) if m is None else Fraction(m)
        self.d = d

    @staticmethod
    def of(o):
        return o if isinstance(o, S) else S(o)

    def __add__(self, o):
        o = S.of(o)
        return S(self.v + o.v, self.m + o.m, max(self.d, o.d) + 1)
    __radd__ = __add__

    def __sub__(self, o):
        o = S.of(o)
        return S(self.v - o.v, self.m + o.m, max(self.d, o.d) + 1)

    def __rsub__(self, o):
        return S.of(o) - self

    def __mul__(self, o):
        o = S.of(o)
        return S(self.v * o.v, self.m * o.m, max(self.d, o.d) + 1)
    __rmul__ = __mul__

    def __truediv__(self, o):
        o = S.of(o)
        if o.v == 0 or o.m > 4 * abs(o.v):
            raise Unstable("divisor suffers cancellation")
        return S(self.v / o.v, (self.m * abs(o.v) + abs(self.v) * o.m) / (o.v * o.v), max(self.d, o.d) + 1)

    def __rtruediv__(self, o):
        return S.of(o) / self

    def __neg__(self):
        return S(-self.v, self.m, self.d)

    def cmp(self, o):
        o = S.of(o)
        if abs(self.v - o.v) <= (self.m + o.m) / (1 << 16):
            if self.v == o.v and self.d == 0 and o.d == 0:
                return 0            # two inputs: compared exactly by every configuration
            raise Unstable("comparison too close")
        return -1 if self.v < o.v else 1

    def __lt__(self, o): return self.cmp(o) < 0
    def __le__(self, o): return self.cmp(o) <= 0
    def __gt__(self, o): return self.cmp(o) > 0
    def __ge__(self, o): return self.cmp(o) >= 0


def ssqrt(a):
    """square root of a precision value: the exact root to 2^-160 relative, the size of the terms d(sqrt a) = da / (2 sqrt a)"""
    a = S.of(a)
    if a.v <= 0 or a.m > 4 * a.v:
        raise Unstable("sqrt of a cancelled or non-positive value")
    k = 400
    n = (a.v.numerator << k) // a.v.denominator
    r = Fraction(math.isqrt(n << k), 1 << k)
    return S(r, a.m / (2 * r) + r, a.d + 1)


def P(fn, vals):
    return [(fn, "p", S.of(v)) for v in vals]


def close_p(real, got, ref, eps=None):
    if not isinstance(got, Fraction):
        return False
    return abs(got - ref.v) <= 2 * max(ref.d, 1) * (eps or EPS[real]) * ref.m


def f24(rng, lo, hi, sign=True):
    """a value with a full 24-bit mantissa (exact in every configuration, not in fewer bits), magnitude in [lo, hi)"""
    v = math.exp(rng.uniform(math.log(lo), math.log(hi)))
    m, e = math.frexp(v)
    fr = Fraction((int(m * (1 << 24)) | 1) , 1 << 24) * Fraction(2) ** e
    return -fr if sign and rng.random() < 0.5 else fr


def _build_cfg(ctx, pid, real, noalign=False):
    """noalign: the same ASan+UBSan build without UBSan's alignment check (for the long double runs with an odd nfuzz, where the
    documented layout of the fuzzy scratch block puts the values at 8 mod 16 - an observation outside the property)"""
    return ctx.cc("glue_cfg_%s_r%d%s%s" % (pid, real, "na" if noalign else "", TREE), [G / ("cfg_%s.c" % pid)], repo_srcs=SRCS[pid],
                  mode="asan", real=real, extra=["-fno-sanitize=alignment"] if noalign else [])


def run_cases(ctx, pid, cases, reals=(4, 8, 16), bins=None):
    """Build the driver for every configuration (unless the binaries are given), run the cases, compare.
    Returns ({real: number of cases run}, {real: binary})."""
    bins = dict(bins or {})
    try:
        todo = [r for r in reals if r not in bins]
        with ThreadPoolExecutor(max_workers=3) as ex:
            for real, b in zip(todo, ex.map(lambda r: _build_cfg(ctx, pid, r), todo)):
                bins[real] = b
    except vlib.CheckError as e:
        ctx.tie_broken("glue: the configuration-sweep driver harness/glue/cfg_%s.c does not build in one of the configurations "
                       "A_SIZE_REAL=4/8/16: %s" % (pid, " ".join(str(e).split())[-700:]))
        return {}, {}
    lines = [c.line for c in cases]
    outs, crashes = {}, {}

    def run_one(real):
        cr = []
        o = fcorr.run_c(bins[real], lines, crashes=cr, timeout=900)
        return real, o, cr
    with ThreadPoolExecutor(max_workers=3) as ex:
        for real, o, cr in ex.map(run_one, reals):
            outs[real], crashes[real] = o, cr
    nrep, seen = [0], set()

    def report(key, what, replay):
        if key in seen or nrep[0] >= MAX_REPORTS:
            return
        seen.add(key)
        nrep[0] += 1
        ctx.report(key, what, replay)

    def replay_of(c, real, got, i=None):
        exp = [("%s %s" % (m, dec(v) if isinstance(v, Fraction) and m == "=" else repr(float(v[0])) if isinstance(v, tuple) else
                           repr(float(v)) if m == "~" else "" if m == "?" else
                           "%r (size of the terms %.6g, depth %d)" % (float(v.v), float(v.m), v.d) if m == "p" else
                           "(between the configurations)")).strip() for _, m, v in c.exp(real)]
        return {"case_line": c.line, "inputs": c.desc, "configuration": "A_SIZE_REAL=%d (a_real = %s)" % (real, REALNAME[real]),
                "expected": exp, "got": [dec(g) if isinstance(g, Fraction) else str(g) for g in got], "first_difference_at_output": i,
                "rerun": "printf '%%s\\n' '%s' | %s   # driver harness/glue/cfg_%s.c built by tools/vglue.py with -DA_SIZE_REAL=%d, "
                         "-fsanitize=address,undefined from the tree under test" % (c.line, bins[real], pid, real)}

    parsed = {}
    for real in reals:
        crashed = {}
        for idx, msg in crashes[real]:
            crashed[idx] = msg
            if msg.startswith("skipped"):
                continue
            c = cases[idx]
            report("%s/config-%d" % (c.fn, real), "%s built with a_real = %s: the sanitizers abort the run on this case: %s"
                   % (c.fn, REALNAME[real], msg), dict(replay_of(c, real, []), stderr=msg))
        res = []
        for idx, c in enumerate(cases):
            if idx in crashed:
                res.append(None)
                continue
            toks = [parse_tok(t) for t in outs[real][idx]]
            guards = [t[1] for t in toks if isinstance(t, tuple) and t[0] == "guard"]
            bad = [t[1] for t in toks if isinstance(t, tuple) and t[0] == "bad"]
            vals = [t for t in toks if not isinstance(t, tuple)]
            res.append(vals)
            if bad:
                ctx.tie_broken("glue: driver cfg_%s (%s) printed %s for case %s" % (pid, REALNAME[real], bad[:3], c.line[:80]))
                continue
            if guards:
                where = guards[0].split(":")[0]
                fn = where if where.startswith("a_") else c.fn
                report("%s/config-%d" % (fn, real),
                       "%s built with a_real = %s writes outside the caller's array: guard cells of the pool damaged at %s "
                       "(block name, byte offset from its start, block size)" % (fn, REALNAME[real], guards[0]),
                       dict(replay_of(c, real, vals), damaged_guards=guards))
                continue
            if len(vals) != len(c.exp(real)):
                # (a return code that differs changes what the driver prints after it: name the first output that differs)
                first = next((i for i, ((fn_, m_, v_), g_) in enumerate(zip(c.exp(real), vals)) if m_ == "=" and g_ != v_), None)
                report("%s/config-%d" % (c.fn, real), "%s built with a_real = %s: %d output values, %d expected%s"
                       % (c.fn, REALNAME[real], len(vals), len(c.exp(real)),
                          "" if first is None else "; the first output that differs is output %d (%s): %s, the documented equations give exactly %s; inputs %s"
                          % (first, c.exp(real)[first][0], dec(vals[first]) if isinstance(vals[first], Fraction) else vals[first],
                             dec(c.exp(real)[first][2]), c.desc)), replay_of(c, real, vals, first))
                continue
            for i, ((fn, mode, v), g) in enumerate(zip(c.exp(real), vals)):
                if mode == "p" and not close_p(real, g, v):
                    report("%s/config-%d" % (fn, real),
                           "%s built with a_real = %s: output %d of the case is %s, the exact value of the documented equations is %r; the "
                           "difference %.3g is %.1f times the rounding-error allowance of this configuration (2 x depth %d x epsilon 2^%d x "
                           "size of the terms %.6g): precision is being lost (a narrower local, constant or cast?); inputs %s"
                           % (fn, REALNAME[real], i, ("%.21g" % float(g)) if isinstance(g, Fraction) else g, float(v.v),
                              float(abs(g - v.v)) if isinstance(g, Fraction) else float("nan"),
                              float(abs(g - v.v) / (2 * max(v.d, 1) * EPS[real] * v.m)) if isinstance(g, Fraction) and v.m else float("inf"),
                              v.d, {4: -23, 8: -52, 16: -63}[real], float(v.m), c.desc), replay_of(c, real, vals, i))
                    break
                if mode == "=" and g != v:
                    report("%s/config-%d" % (fn, real),
                           "%s built with a_real = %s: output %d of the case is %s, the documented equations give exactly %s (every "
                           "intermediate of this case fits binary32); inputs %s"
                           % (fn, REALNAME[real], i, dec(g) if isinstance(g, Fraction) else g, dec(v), c.desc), replay_of(c, real, vals, i))
                    break
                if mode == "~" and not close(real, g, v):
                    report("%s/config-%d" % (fn, real),
                           "%s built with a_real = %s: output %d of the case is %s, the reference value is %r (tolerance %s); inputs %s"
                           % (fn, REALNAME[real], i, float(g) if isinstance(g, Fraction) else g, float(v[0] if isinstance(v, tuple) else v),
                              ("1e-5 x size of the terms + 1e-6" if real == 4 else "1e-9 x size of the terms + 1e-12") +
                              (" (size of the terms %g)" % float(v[1]) if isinstance(v, tuple) else ""), c.desc), replay_of(c, real, vals, i))
                    break
            else:
                if c.post:
                    why = c.post(real, vals)
                    if why:
                        report("%s/config-%d" % (c.fn, real), "%s built with a_real = %s: %s; inputs %s" % (c.fn, REALNAME[real], why, c.desc),
                               replay_of(c, real, vals))
        parsed[real] = res
    # between the configurations: float and long double against double
    if 8 in parsed:
        for real in reals:
            if real == 8:
                continue
            for idx, c in enumerate(cases):
                a, b = parsed[real][idx], parsed[8][idx]
                if a is None or b is None or len(a) != len(c.exp(real)) or len(b) != len(c.exp(8)):
                    continue
                for i, (fn, mode, v) in enumerate(c.exp(real)):
                    if mode != "x":
                        continue
                    tol = 4 if real == 4 else 8
                    sc = v(b) if callable(v) else (v or 0)     # size of the terms (may depend on the double build's own outputs)
                    if not (isinstance(a[i], Fraction) and isinstance(b[i], Fraction) and close(4 if real == 4 else 8, a[i], (b[i], sc))):
                        report("%s/config-%d" % (fn, real),
                               "%s: output %d of the case is %s with a_real = %s but %s with a_real = double (well-conditioned arguments, "
                               "tolerance %s); inputs %s"
                               % (fn, i, float(a[i]) if isinstance(a[i], Fraction) else a[i], REALNAME[real],
                                  float(b[i]) if isinstance(b[i], Fraction) else b[i],
                                  "1e-5 rel + 1e-6 abs" if tol == 4 else "1e-9 rel + 1e-12 abs", c.desc),
                               dict(replay_of(c, real, a, i), double_build_output=[dec(g) if isinstance(g, Fraction) else str(g) for g in b]))
                        break
    return {real: len(cases) - len([1 for i, m in crashes[real]]) for real in reals}, bins


# fixed probes of observations outside the properties' statements: function(ctx, bins) -> None | (what, replay)
def probe_bfuzz_alignment(ctx, bins):
    """long double build: a_pid_fuzzy_set_bfuzz(ctx, ptr, num) puts the value region at ptr + 2 * sizeof(unsigned) * num; for an odd num
    that is 8 mod 16, misaligned for long double.  C13 speaks of values, gains and of the scratch block not being overrun, not of
    alignment: this is an observation, not a violation; the regular sweep uses even num only."""
    c = gen_fuzzy_cases(random.Random(13), 1)[0]
    t = c.line.split()
    t[2] = "3"
    line = " ".join(t)
    res = {}
    for real in (4, 8, 16):
        rc, out, err = vlib.sh2([str(bins[real])], stdin=line + "\n", timeout=60)
        res[real] = (rc, [l for l in err.splitlines() if "runtime error" in l or "ERROR" in l][:2])
    if res[16][0] != 0 and any("misaligned" in l for l in res[16][1]):
        return ("a_pid_fuzzy_set_bfuzz with an odd num (3) in the long double build places the value region at ptr + 8 * num, which is not a "
                "multiple of 16: %s (block of exactly A_PID_FUZZY_BFUZZ(3) bytes, 16-byte aligned; float and double builds: rc %d / %d)"
                % (re.sub(r"0x[0-9a-f]{6,}", "<address>", " ".join(res[16][1][0].split()))[:300], res[4][0], res[8][0]),
                {"case_line": line, "configuration": "A_SIZE_REAL=16", "stderr": res[16][1],
                 "rerun": "printf '%%s\\n' '%s' | %s" % (line, bins[16])})
    return None


PROBES = {"C13": [("a_pid_fuzzy_set_bfuzz/config-16-odd-num-misaligned", probe_bfuzz_alignment)]}


def config_sweep(ctx, pid):
    t0 = time.time()
    rng = random.Random(ctx.subseed("glue_cfg_" + pid))
    scale = 1 if ctx.quick else 10
    cases, note = GENERATORS[pid](rng, scale)
    ran, bins = run_cases(ctx, pid, cases)
    # fuzzy-controller histories in which EVERY one of the nfuzz sets of e and of ec is active, nfuzz = 1..5 (odd included): the last cell
    # of the nfuzz x nfuzz joint-membership matrix is written, the scratch block has exactly A_PID_FUZZY_BFUZZ(nfuzz) bytes with guard
    # bytes directly behind it.  Float and double builds as above; the long double build is compiled without UBSan's alignment check
    # (ASan and the rest of UBSan stay), because the documented layout misaligns the values for an odd nfuzz there
    n_full = 0
    if bins and pid in FULL_FUZZY:
        full = gen_full_fuzzy_cases(random.Random(ctx.subseed("glue_cfg_full_" + pid)), FULL_FUZZY[pid] * scale)
        try:
            b16 = _build_cfg(ctx, pid, 16, noalign=True)
            ran2, _ = run_cases(ctx, pid, full, bins={4: bins[4], 8: bins[8], 16: b16})
            n_full = len(full)
            for r, k in ran2.items():
                ran[r] = ran.get(r, 0) + k
            cases = cases + full
            ctx.cov["glue_cfg_all_sets_active_cases"] = {"cases": len(full), "nfuzz": sorted(set(int(c.line.split()[2]) for c in full)),
                                                         "long double build": "-fsanitize=address,undefined -fno-sanitize=alignment"}
        except vlib.CheckError as e:
            ctx.tie_broken("glue: the long double driver without the alignment check does not build: %s" % " ".join(str(e).split())[-500:])
    # fixed probes of things seen on the unchanged tree that lie OUTSIDE the property's statement: never a violation, never a known
    # finding - an observation in the evidence and one log line
    for key, fn in (PROBES.get(pid, []) if bins else []):
        r = fn(ctx, bins)
        if r is not None:
            ctx.cov.setdefault("glue_cfg_observations_outside_property", []).append("%s: %s" % (key, r[0]))
            ctx.log("observation outside the property (recorded in the evidence, not reported): %s: %s" % (key, r[0][:400]))
    kinds = {}
    for c in cases:
        kinds[c.fn] = kinds.get(c.fn, 0) + 1
    nexact = sum(1 for c in cases if all(m in "=?" for _, m, _ in c.exp(8)))
    nprec = sum(1 for c in cases if any(m == "p" for _, m, _ in c.exp(8)))
    ctx.cov["glue_cfg_cases_per_configuration"] = {REALNAME[r]: n for r, n in ran.items()}
    ctx.cov["glue_cfg_cases_by_entry_point"] = kinds
    ctx.cov["glue_cfg_exact_cases"] = nexact
    ctx.cov["glue_cfg_precision_cases"] = nprec
    ctx.cov["glue_cfg_tolerance_cases"] = len(cases) - nexact - nprec
    ctx.cov["glue_cfg_rule"] = ("differential test, not a theorem: one driver generic in a_real built with A_SIZE_REAL = 4, 8, 16 and "
                                "-fsanitize=address,undefined from the current tree; exact cases (small integers / dyadic rationals, every "
                                "intermediate of the documented equations within %d bits of mantissa, computed here with exact fractions) "
                                "must print exactly the expected numbers in all three builds; caller-owned arrays in one pool with guard "
                                "bytes between and around them, histories pre-filled with the poison value 777; precision cases (inputs with full 24-bit "
                                "mantissas, identical in every build) must agree with the exact rational value of the documented equations within "
                                "2 x depth x machine epsilon of the configuration x size of the terms, which a narrower local, constant or cast "
                                "in the double / long double build exceeds; " % BITS + note +
                                ("; %d fuzzy-controller histories in which every one of the nfuzz = 1..5 sets of e and of ec is active (wide "
                                 "triangles with chosen dyadic degrees), so that the last cell of the nfuzz x nfuzz matrix is written into a block of "
                                 "exactly A_PID_FUZZY_BFUZZ(nfuzz) bytes with guard bytes directly behind it - odd nfuzz included; for these the long "
                                 "double build is compiled with -fno-sanitize=alignment (ASan and the rest of UBSan kept), because the documented "
                                 "layout misaligns the values for an odd nfuzz there" % n_full if n_full else ""))
    ctx.count(evaluations=sum(ran.values()))
    ctx.assumptions.append("glue (configurations): differential test on generated exact cases and toleranced comparisons, no proof; the "
                           "float and long double builds are not modelled in Rocq")
    ctx.log("glue config_sweep: %d cases x %d configurations (%d exact), %.1fs" % (len(cases), len(ran), nexact, time.time() - t0))


def glue(ctx, pid):
    """Both glue runs of a property: the one line the checks call at the end of run(ctx)."""
    cxx_wrappers(ctx, pid)
    config_sweep(ctx, pid)


# ---------------------------------------------------------------------------------------------------------------------
# case generators (one per property)
# ---------------------------------------------------------------------------------------------------------------------
def dy(rng, lo, hi, q):
    """a multiple of 2^-q in [lo, hi]"""
    return Fraction(rng.randint(lo << q, hi << q), 1 << q)


def f32ish(rng, lo, hi):
    """a positive value in [lo, hi] with at most 12 significant bits (exact in every configuration)"""
    v = math.exp(rng.uniform(math.log(lo), math.log(hi)))
    m, e = math.frexp(v)
    return Fraction(int(m * 4096), 4096) * Fraction(2) ** e


# ------------------------------------------------------------------------------------------------------------ C16
def gen_C16(rng, scale):
    cases = []
    # transfer function: y(k) = sum num[i] u(k-i) - sum den[j] y(k-1-j), from zero state (delay lines most recent first)
    ntf = 0
    while ntf < 220 * scale:
        nn, nd = rng.choice([0, 1, 2, 3, 4, 6]), rng.choice([0, 1, 2, 3, 5])
        num = [dy(rng, -4, 4, rng.choice([0, 0, 1, 2])) for _ in range(nn)]
        den = [dy(rng, -1, 1, rng.choice([1, 2])) for _ in range(nd)]
        toks = ["tf", str(nn), str(nd)] + [hexf(v) for v in num + den]
        exp, desc_ops = [], []
        hu, hy = [Fraction(777)] * nn, [Fraction(777)] * nd

        def dump(fn):
            exp.extend(E(fn, hu + hy))
        plan = [0]
        for _ in range(rng.choice([1, 2, 3])):
            plan += [1] * rng.randint(1, 7)
            plan += rng.choice([[], [2], [5, 3, 4], [5, 4, 3], [3], [4]])
        steps = 0
        try:
            for op in plan:
                if op == 0:
                    hu, hy = [Fraction(0)] * nn, [Fraction(0)] * nd
                    toks.append("0")
                    dump("a_tf_init")
                elif op == 1:
                    u = dy(rng, -6, 6, rng.choice([0, 0, 1]))
                    hu2 = ([u] + hu)[:nn]
                    y = X(0)
                    for i in range(nn):
                        y = y + X(num[i]) * X(hu2[i])
                    for j in range(nd):
                        y = y - X(den[j]) * X(hy[j])
                    hu, hy = hu2, ([y.v] + hy)[:nd]
                    toks += ["1", hexf(u)]
                    exp.extend(E("a_tf_iter", [y]))
                    steps += 1
                elif op == 2:
                    hu, hy = [Fraction(0)] * nn, [Fraction(0)] * nd
                    toks.append("2")
                    dump("a_tf_zero")
                elif op == 3:
                    hu = [Fraction(0)] * nn
                    toks.append("3")
                    dump("a_tf_set_num")
                elif op == 4:
                    hy = [Fraction(0)] * nd
                    toks.append("4")
                    dump("a_tf_set_den")
                else:
                    hu, hy = [Fraction(777)] * nn, [Fraction(777)] * nd
                    toks.append("5")
                desc_ops.append(op)
        except Inexact:
            pass        # the history is cut before the first step whose result would not fit
        exp.extend(E("a_tf_iter", hu + hy))
        exp.extend(E("a_tf_init", [nn, nd, 1]))
        cases.append(Case(" ".join(toks), "a_tf_iter", exp,
                          {"num": [dec(v) for v in num], "den": [dec(v) for v in den], "ops": "0 init, 1 iter x, 2 zero, 3 set_num, 4 set_den, "
                           "5 refill both delay lines with 777: " + " ".join(toks[3 + nn + nd:])}))
        ntf += 1
    # low pass: out = (1 - alpha) out + alpha x ; high pass: out = alpha (out + x - x_prev)
    for k in range(110 * scale):
        alpha = rng.choice([Fraction(0), Fraction(1), Fraction(1, 2), Fraction(1, 4), Fraction(3, 4), Fraction(1, 8), Fraction(5, 8), Fraction(7, 8)])
        for nm in ("lpf", "hpf"):
            xs, outs = [], []
            out, xin = X(0), X(0)
            try:
                for _ in range(rng.randint(1, 14)):
                    x = X(dy(rng, -8, 8, rng.choice([0, 0, 1])))
                    if nm == "lpf":
                        o2 = out * (1 - X(alpha)) + x * X(alpha)
                    else:
                        o2 = X(alpha) * (out + x - xin)
                    out, xin = o2, x
                    xs.append(x)
                    outs.append(o2)
            except Inexact:
                pass
            fn = "a_%s_iter" % nm
            exp = E(fn, outs) + E("a_%s_init" % nm, [alpha]) + E(fn, [out] + ([xin if xs else 0] if nm == "hpf" else []))
            exp += E("a_%s_zero" % nm, [0] + ([0] if nm == "hpf" else []))
            cases.append(Case(" ".join([nm, hexf(alpha)] + [hexf(x) for x in xs]), fn, exp, {"alpha": dec(alpha), "inputs": [dec(x) for x in xs]}))
    # coefficient generators (pi: not exact): alpha_lp = ts / (1/(2 pi fc) + ts), alpha_hp = 1 / (2 pi fc ts + 1)
    for k in range(60 * scale):
        fc, ts = f32ish(rng, 0.1, 1000), f32ish(rng, 1e-4, 1)
        if not (1e-3 <= fc * ts <= 1e2):
            continue
        lp = float(ts) / (1 / (2 * math.pi * float(fc)) + float(ts))
        hp = 1 / (2 * math.pi * float(fc) * float(ts) + 1)
        exp = A("a_lpf_gen", [lp]) + A("a_hpf_gen", [hp]) + A("A_LPF_GEN", [lp]) + A("A_HPF_GEN", [hp]) + E("A_LPF_2", [0]) + E("A_HPF_2", [0, 0])
        # the same macros called with compound argument expressions (C16-16: a parameter used without parentheses)
        exp += A("A_LPF_GEN(f1 + f2, t1 - t0)", [lp]) + A("A_HPF_GEN(f1 + f2, t1 - t0)", [hp]) + A("A_LPF_2(f1 + f2, t1 - t0)", [lp]) + A("A_HPF_2(f1 + f2, t1 - t0)", [hp]) + E("A_LPF_1(a/2 + a/2)", [0]) + E("A_HPF_1(a/2 + a/2)", [0])
        cases.append(Case("gen %s %s" % (hexf(fc), hexf(ts)), "a_lpf_gen", exp, {"fc": dec(fc), "ts": dec(ts)}))
    cases += prec_C16(rng, 80 * scale)
    return cases, ("C16: precision cases: a_tf_iter, a_lpf_iter, a_hpf_iter on full-mantissa coefficients and inputs.  a_tf_init/set_num/set_den/iter/zero with orders 0..6 x 0..5 (delay lines re-poisoned before the setters), "
                   "a_lpf/a_hpf init/iter/zero exact; a_lpf_gen/a_hpf_gen and the A_LPF_2/A_HPF_2 initialisers use pi and are compared with "
                   "a binary64 reference (1e-3 <= fc*ts <= 1e2) within 1e-5 relative + 1e-6 absolute for float, 1e-9 + 1e-12 otherwise")


# ------------------------------------------------------------------------------------------------------------ C15
def solve_boundary(order, ts, bc0, bc1):
    """Coefficients c0..c_order of the polynomial whose derivatives 0..(order-1)/2 at 0 are bc0 and at ts are bc1 (exact
    fractions, Gaussian elimination): the property's own statement, independent of the closed forms in the C."""
    n = order + 1
    half = n // 2
    rows = []
    for d in range(half):        # d-th derivative at 0 and at ts
        r0, r1 = [Fraction(0)] * n, [Fraction(0)] * n
        for i in range(d, n):
            f = Fraction(math.factorial(i), math.factorial(i - d))
            if i == d:
                r0[i] = f
            r1[i] = f * ts ** (i - d)
        rows.append(r0 + [bc0[d]])
        rows.append(r1 + [bc1[d]])
    m = [list(r) for r in rows]
    for c in range(n):
        piv = next(r for r in range(c, n) if m[r][c] != 0)
        m[c], m[piv] = m[piv], m[c]
        pv = m[c][c]
        m[c] = [v / pv for v in m[c]]
        for r in range(n):
            if r != c and m[r][c] != 0:
                f = m[r][c]
                m[r] = [a - f * b for a, b in zip(m[r], m[c])]
    return [m[i][n] for i in range(n)]


def horner(cs, x):
    """S_n = a_n, S_i = x S_{i+1} + a_i (a/poly.h), every step checked"""
    y = X(cs[-1])
    for c in reversed(cs[:-1]):
        y = y * X(x) + X(c)
    return y


def deriv(cs, d):
    out = list(cs)
    for _ in range(d):
        out = [out[i] * i for i in range(1, len(out))]
    return out


def gen_C15(rng, scale):
    cases = []
    names = {3: ("pos", "vel", "acc"), 5: ("pos", "vel", "acc"), 7: ("pos", "vel", "acc", "jer")}
    want = {3: 130 * scale, 5: 130 * scale, 7: 90 * scale}
    for order in (3, 5, 7):
        got = 0
        while got < want[order]:
            half = (order + 1) // 2
            ts = Fraction(2) ** rng.choice([-2, -1, 0, 0, 1, 1, 2])
            lim = 6 if order < 7 else 4
            # pairwise distinct, non-zero boundary data: p0 p1 v0 v1 [a0 a1 [j0 j1]]
            vals = rng.sample([v for v in range(-lim * 2, lim * 2 + 1) if v != 0], 2 * half)
            bc = [Fraction(v, rng.choice([1, 1, 2])) for v in vals]
            bc0, bc1 = bc[0::2], bc[1::2]
            cs = solve_boundary(order, ts, bc0, bc1)
            fn = "a_trajpoly%d" % order
            xs_pool = [Fraction(0), ts, ts / 2, ts / 4, Fraction(1), Fraction(2), -ts / 2, ts * 3 / 4, ts + 1]
            args = [ts]
            for a, b in zip(bc0, bc1):
                args += [a, b]
            desc = {"ts": dec(ts), "boundary (value at 0, value at ts) for p, v, a, j": [(dec(a), dec(b)) for a, b in zip(bc0, bc1)]}
            if order < 7:
                if not all(fits(c) for c in cs):
                    continue
                exp = E(fn + "_gen", cs)
                xs = []
                for x in rng.sample(xs_pool, 5):
                    try:
                        row = [horner(deriv(cs, d), x) for d in range(len(names[order]))]
                    except Inexact:
                        continue
                    xs.append(x)
                    for nm, v in zip(names[order], row):
                        exp.extend(E("%s_%s" % (fn, nm), [v]))
                try:
                    for d in range(3):
                        exp.extend(E("%s_c%d" % (fn, d), [X(c) for c in deriv(cs, d)]))
                except Inexact:
                    continue
            else:
                # the septic multiplies by (a_real)(1.0/6): never exact; reference = the exact solution, tolerance scaled by the size of
                # the terms (the property allows rounding error proportional to the size of the boundary data)
                exp = [(fn + "_gen", "~", (c, max(abs(v) for v in cs))) for c in cs]
                xs = rng.sample(xs_pool, 4)
                for x in xs:
                    for d, nm in enumerate(names[order]):
                        dc = deriv(cs, d)
                        ref = sum(c * x ** i for i, c in enumerate(dc))
                        mag = sum(abs(c * x ** i) for i, c in enumerate(dc))
                        exp.append(("%s_%s" % (fn, nm), "~", (ref, mag)))
                for d in range(4):
                    dc = deriv(cs, d)
                    exp.extend(("%s_c%d" % (fn, d), "~", (c, max(abs(v) for v in dc))) for c in dc)
            cases.append(Case(" ".join(["p%d" % order] + [hexf(v) for v in args + xs]), fn + "_gen", exp, dict(desc, x=[dec(x) for x in xs])))
            got += 1
    # Horner evaluation in both coefficient orders, order reversal
    for k in range(90 * scale):
        n = rng.choice([0, 1, 1, 2, 3, 4, 5, 6, 8])
        a = [dy(rng, -5, 5, rng.choice([0, 0, 1, 2])) for _ in range(n)]
        x = dy(rng, -3, 3, rng.choice([0, 1, 2]))
        try:
            ev = horner(a, x) if n else X(0)
            er = horner(a[::-1], x) if n else X(0)
        except Inexact:
            continue
        exp = E("a_poly_eval", [ev]) + E("a_poly_evar", [er])
        if n:
            exp += E("a_poly_eval_", [ev]) + E("a_poly_evar_", [er])
        exp += E("a_poly_swap", a[::-1]) + E("a_poly_swap_", a)
        cases.append(Case(" ".join(["poly", str(n)] + [hexf(v) for v in a] + [hexf(x)]), "a_poly_eval", exp,
                          {"coefficients": [dec(v) for v in a], "x": dec(x)}))
    # normal-equation helpers: A[r][c] = sum_i x_i^(r+c), b[d] = sum_i x_i^d y_i (integer data: powers and sums exact)
    for k in range(40 * scale):
        m, n = rng.randint(0, 5), rng.randint(0, 4)
        xv = [Fraction(rng.choice([-3, -2, -1, 1, 2, 3, 4])) for _ in range(m)]
        yv = [Fraction(rng.randint(-6, 6)) for _ in range(m)]
        try:
            A_ = [X(sum(X(v ** (r + c)).v for v in xv)) for r in range(n) for c in range(n)]
            b_ = [X(sum((X(v ** d) * X(y)).v for v, y in zip(xv, yv))) for d in range(n)]
        except Inexact:
            continue
        cases.append(Case(" ".join(["xtx", str(m)] + [hexf(v) for v in xv] + [str(n)]), "a_poly_xTx", E("a_poly_xTx", A_),
                          {"x": [dec(v) for v in xv], "n": n}))
        cases.append(Case(" ".join(["xty", str(m)] + [hexf(v) for v in xv + yv] + [str(n)]), "a_poly_xTy", E("a_poly_xTy", b_),
                          {"x": [dec(v) for v in xv], "y": [dec(v) for v in yv], "n": n}))
    cases += prec_C15(rng, 90 * scale)
    return cases, ("C15: precision cases: Horner in both orders and the cubic / quintic / septic generators, evaluators and coefficient "
                   "accessors on full-mantissa data against the exact solution (the septic's binary64 constants (a_real)(1.0/2), (a_real)(1.0/6) "
                   "limit its long double build to binary64 accuracy: allowance 2^11 larger there).  cubic and quintic generators with ts a power of two and small dyadic boundary data (all pairwise distinct, non-zero), "
                   "expected coefficients from an exact solve of the boundary conditions (not from the closed forms in the C), pos/vel/acc by "
                   "the documented Horner recurrences at x in {0, ts/4, ts/2, 3ts/4, ts, ts+1, 1, 2, -ts/2}, c0/c1/c2 into exactly sized guarded "
                   "arrays; a_poly_eval/evar/swap (and the pointer-pair forms) for 0..8 coefficients, a_poly_xTx/xTy on integer data: all "
                   "exact. The septic multiplies by (a_real)(1.0/6) and is never exact: its coefficients, pos/vel/acc/jer and c0..c3 are compared "
                   "with the exact solution within 1e-5 (float; 1e-9 otherwise) of the size of the terms")


# ------------------------------------------------------------------------------------------------------------ C12 / C13
def pid_step(st, par, mode, set_, fdb, N=X):
    """One step of the documented difference equations (a/pid.h) on exact values.  st: dict sum out var fdb err (X);
    par: dict kp ki kd summax summin outmax outmin.  mode 0 run, 1 pos, 2 inc, 3 zero.  Returns the value the C returns.
    N: X (exact case, every step checked) or S (precision case: value, size of the terms, depth)."""
    if mode == 3:
        for k in ("sum", "out", "var", "fdb", "err"):
            st[k] = N(0)
        return st["out"]
    set_, fdb = N(set_), N(fdb)
    err = set_ - fdb
    var = st["fdb"] - fdb
    if mode == 0:
        out = sat(set_, par["outmin"], par["outmax"])
    elif mode == 1:
        # the integrator stops once outside its clamp unless the error drives it back
        if (st["sum"] > par["summin"] and st["sum"] < par["summax"]) or st["sum"].v * err.v < 0:
            st["sum"] = st["sum"] + par["ki"] * err
        out = sat(par["kp"] * err + st["sum"] + par["kd"] * var, par["outmin"], par["outmax"])
    else:
        out = sat(st["out"] + par["kp"] * (err - st["err"]) + par["ki"] * err + par["kd"] * (var - st["var"]), par["outmin"], par["outmax"])
    st["out"], st["var"], st["fdb"], st["err"] = N(out), var, fdb, err
    return st["out"]


def c_abs(x):
    return -x if x < 0 else x


def neuro_step(st, n, mode, set_, fdb):
    """the recurrences of the proved model coq/C12/PidDefs.v (neuro_run / neuro_inc / neuro_zero); mode 0 run, 1 inc, 2 zero"""
    if mode == 2:
        pid_step(st, n, 3, 0, 0)
        n["ec"] = X(0)
        return st["out"]
    set_, fdb = X(set_), X(fdb)
    e = set_ - fdb
    ec = e - st["err"]
    if mode == 0:
        pid_step(st, n, 0, set_, fdb)
        n["ec"] = ec
        return st["out"]
    v = ec - n["ec"]
    o = e * st["out"]
    wp = n["wp"] + n["kp"] * o * n["ec"]
    wi = n["wi"] + n["ki"] * o * st["err"]
    wd = n["wd"] + n["kd"] * o * st["var"]
    den = c_abs(wp) + c_abs(wi) + c_abs(wd)
    o2 = n["k"] * (wp * ec + wi * e + wd * v) / den
    st["out"], st["var"], st["fdb"], st["err"] = X(sat(o2, n["outmin"], n["outmax"])), v, fdb, e
    n["wp"], n["wi"], n["wd"], n["ec"] = wp, wi, wd, ec
    return st["out"]


NPAR = {1: 2, 2: 4, 3: 3, 4: 2, 5: 4, 6: 4, 7: 4, 8: 3, 9: 2, 10: 2, 11: 2, 12: 2, 13: 4}


def mf_exact(tag, x, p, N=X):
    """documented piecewise shapes of a/mf.h for the polynomial families (exact values; N as in pid_step)"""
    X = N       # noqa: N806 - the body below is written with X
    x = X(x)
    p = [X(v) for v in p]
    if tag == 7:        # trap a b c d
        a, b, c, d = p
        if x < b:
            return (x - a) / (b - a) if x > a else X(0)
        if x > c:
            return (d - x) / (d - c) if x < d else X(0)
        return X(1)
    if tag == 8:        # tri a b c
        a, b, c = p[:3]
        if x < b:
            return (x - a) / (b - a) if x > a else X(0)
        if x > b:
            return (c - x) / (c - b) if x < c else X(0)
        return X(1)
    if tag == 9:        # lins
        a, b = p[:2]
        return X(0) if x < a else X(1) if x >= b else (x - a) / (b - a)
    if tag == 10:       # linz
        a, b = p[:2]
        return X(1) if x < a else X(0) if x >= b else (b - x) / (b - a)
    if tag == 11:       # s
        a, b = p[:2]
        if x <= a:
            return X(0)
        if x >= b:
            return X(1)
        if x > (a + b) / 2:
            t = (b - x) / (b - a)
            return 1 - 2 * (t * t)
        t = (x - a) / (b - a)
        return 2 * (t * t)
    if tag == 12:       # z
        a, b = p[:2]
        if x >= b:
            return X(0)
        if x <= a:
            return X(1)
        if x < (a + b) / 2:
            t = (x - a) / (b - a)
            return 1 - 2 * (t * t)
        t = (b - x) / (b - a)
        return 2 * (t * t)
    if tag == 13:       # pi a b c d
        a, b, c, d = p
        if x < b:
            return mf_exact(11, x, [a, b], N)
        if x > c:
            return mf_exact(12, x, [c, d], N)
        return X(1)
    raise ValueError(tag)


def mf_float(tag, x, p):
    """binary64 reference of the exp / pow families"""
    sig = lambda x, a, c: 1 / (1 + math.exp(-a * (x - c)))
    gauss = lambda x, s, c: math.exp(-((x - c) ** 2) / (2 * s * s))
    if tag == 1:
        return gauss(x, p[0], p[1])
    if tag == 2:
        return gauss(x, p[0], p[1]) if x < p[1] else gauss(x, p[2], p[3]) if x > p[3] else 1.0
    if tag == 3:
        return 1 / (1 + abs((x - p[2]) / p[0]) ** (2 * p[1]))
    if tag == 4:
        return sig(x, p[0], p[1])
    if tag == 5:
        return sig(x, p[0], p[1]) - sig(x, p[2], p[3])
    if tag == 6:
        return sig(x, p[0], p[1]) * sig(x, p[2], p[3])
    raise ValueError(tag)


def fuzzy_op(k, a, b):
    """exact fuzzy operators of a/fuzzy.h (equ is not exact: None)"""
    if k == 1:
        return a if a < b else b
    if k == 2:
        return a * b
    if k == 3:
        c = a + b - 1
        return c if c > 0 else X(0)
    if k == 4:
        return a if a > b else b
    if k == 5:
        return a + b - a * b
    if k == 6:
        c = a + b
        return c if c < 1 else X(1)
    return None


def fuzzy_table(rng, nrule, w):
    """Ordered sets on the grid of width w (a power of two): a falling shoulder, triangles, a rising shoulder - the breakpoints of
    neighbours coincide, so at most two sets are active and their degrees add up to one.  Returns (flat table, [(tag, params)])."""
    c0 = -w * (nrule - 1) / 2
    if nrule % 2 == 0:
        c0 = -w * (nrule // 2) + w * rng.choice([0, 1])
    sets = []
    for i in range(nrule):
        c = Fraction(c0 + i * w)
        if i == 0:
            sets.append(rng.choice([(10, [c, c + w]), (7, [c - 8 * w, c - 4 * w, c, c + w])]))
        elif i == nrule - 1:
            sets.append(rng.choice([(9, [c - w, c]), (7, [c - w, c, c + 4 * w, c + 8 * w])]))
        else:
            sets.append((8, [c - w, c, c + w]))
    flat = []
    for t, ps in sets:
        flat += [Fraction(t)] + ps
    return flat, sets


def fuzzy_gains(f, e, ec):
    """base gains + weighted mean of the consequents of the active rules (exact), or Inexact"""
    act_e = [(i, mf_exact(t, e, ps)) for i, (t, ps) in enumerate(f["me"])]
    act_e = [(i, y) for i, y in act_e if y > 0]
    act_c = [(i, mf_exact(t, ec, ps)) for i, (t, ps) in enumerate(f["mec"])]
    act_c = [(i, y) for i, y in act_c if y > 0]
    for _, y in act_e + act_c:
        if y < Fraction(1, 1024):       # far above every configuration's A_REAL_EPSILON: the active sets do not depend on a_real
            raise Inexact("degree too close to epsilon")
    if len(act_e) > f["nfuzz"] or len(act_c) > f["nfuzz"]:
        raise Inexact("more active sets than the scratch block was sized for")
    d = [X(0), X(0), X(0)]
    if act_e and act_c:
        mat = [[fuzzy_op(f["opr"], ye, yc) for _, yc in act_c] for _, ye in act_e]
        tot = X(0)
        for row in mat:
            for m in row:
                tot = tot + m
        if tot > 0:
            inv = 1 / tot
            for k, tab in enumerate((f["mkp"], f["mki"], f["mkd"])):
                if tab is None:
                    continue
                acc = X(0)
                for (i, _), row in zip(act_e, mat):
                    for (j, _), m in zip(act_c, row):
                        acc = acc + m * X(tab[i * f["nrule"] + j])
                d[k] = acc * inv
    return f["kp"] + d[0], f["ki"] + d[1], f["kd"] + d[2]


def gen_fuzzy_cases(rng, count):
    cases = []
    tries = 0
    while len(cases) < count and tries < count * 60:
        tries += 1
        nrule = rng.choice([2, 3, 3, 4, 5])
        w = Fraction(rng.choice([1, 2, 2, 4]))
        me_flat, me = fuzzy_table(rng, nrule, w)
        mec_flat, mec = fuzzy_table(rng, nrule, w * rng.choice([1, 2]))
        nfuzz = rng.choice([2, 2, 4])
        opr = rng.choice([1, 2, 2, 2, 3, 4, 5, 6])
        mask = rng.choice([7, 7, 7, 1, 2, 4, 5, 0])
        nn = nrule * nrule
        vals = rng.sample(range(-3 * nn - 3, 3 * nn + 4), 3 * nn)
        tabs = [[Fraction(v, 2) for v in vals[k * nn:(k + 1) * nn]] for k in range(3)]
        base = [Fraction(v, 2) for v in rng.sample(range(1, 12), 3)]
        tight = rng.random() < 0.25
        lim = [Fraction(rng.randint(2, 6)), -Fraction(rng.randint(2, 6)), Fraction(rng.randint(4, 9)), -Fraction(rng.randint(4, 9))] if tight else \
              [Fraction(rng.randint(40, 60)), -Fraction(rng.randint(40, 60)), Fraction(rng.randint(200, 300)), -Fraction(rng.randint(200, 300))]
        f = {"nrule": nrule, "nfuzz": nfuzz, "opr": opr, "me": me, "mec": mec, "kp": X(base[0]), "ki": X(base[1]), "kd": X(base[2]),
             "mkp": tabs[0] if mask & 1 else None, "mki": tabs[1] if mask & 2 else None, "mkd": tabs[2] if mask & 4 else None}
        par = {"kp": f["kp"], "ki": f["ki"], "kd": f["kd"], "summax": X(lim[0]), "summin": X(lim[1]), "outmax": X(lim[2]), "outmin": X(lim[3])}
        st = {k: X(0) for k in ("sum", "out", "var", "fdb", "err")}
        toks = ["fuzzy", str(nrule), str(nfuzz), str(opr), str(mask), str(len(me_flat)), str(len(mec_flat))]
        toks += [hexf(v) for v in base + lim + me_flat + mec_flat + tabs[0] + tabs[1] + tabs[2]]
        exp = E("a_pid_fuzzy_bfuzz", [1])
        steps, active = [], 0
        try:
            for _ in range(rng.randint(2, 7)):
                mode = rng.choice([0, 1, 1, 2, 2, 3])
                set_, fdb = dy(rng, -4, 4, 2) * w / 2, dy(rng, -4, 4, 2) * w / 2
                fn = "a_pid_fuzzy_" + ("run", "pos", "inc", "zero")[mode]
                if mode == 3:
                    r = pid_step(st, par, 3, 0, 0)
                else:
                    e = X(set_) - X(fdb)
                    g = fuzzy_gains(f, e, e - st["err"])
                    if (g[0], g[1], g[2]) != (f["kp"], f["ki"], f["kd"]):
                        active += 1
                    par["kp"], par["ki"], par["kd"] = g
                    r = pid_step(st, par, mode, set_, fdb)
                row = [r, par["kp"], par["ki"], par["kd"], st["sum"], st["out"], st["var"], st["fdb"], st["err"]]
                steps.append((mode, set_, fdb))
                exp.extend(E(fn, row))
        except Inexact:
            pass
        if not steps or not active:
            continue
        for mode, a, b in steps:
            toks += [str(mode), hexf(a), hexf(b)]
        exp.extend(E("a_pid_fuzzy_set_kpid", base))
        cases.append(Case(" ".join(toks), "a_pid_fuzzy_pos", exp,
                          {"nrule": nrule, "nfuzz": nfuzz, "operator": opr, "tables present (bit 0 mkp, 1 mki, 2 mkd)": mask,
                           "base kp ki kd": [dec(v) for v in base], "summax summin outmax outmin": [dec(v) for v in lim],
                           "me": [dec(v) for v in me_flat], "mec": [dec(v) for v in mec_flat], "mkp": [dec(v) for v in tabs[0]],
                           "mki": [dec(v) for v in tabs[1]], "mkd": [dec(v) for v in tabs[2]],
                           "steps (mode 0 run 1 pos 2 inc 3 zero, set, fdb)": [(m, dec(a), dec(b)) for m, a, b in steps]}))
    return cases


def gen_C12(rng, scale):
    cases = []
    # plain controller
    while len(cases) < 230 * scale:
        q = rng.choice([0, 0, 1, 2])
        kp, ki, kd = dy(rng, 0, 4, q), dy(rng, 0, 3, q), dy(rng, 0, 3, q)
        tight = rng.random() < 0.4
        lim = [Fraction(rng.randint(1, 6)), -Fraction(rng.randint(1, 6)), Fraction(rng.randint(2, 12)), -Fraction(rng.randint(2, 12))] if tight else \
              [Fraction(rng.randint(30, 60)), -Fraction(rng.randint(30, 60)), Fraction(rng.randint(100, 300)), -Fraction(rng.randint(100, 300))]
        par = dict(zip(("kp", "ki", "kd", "summax", "summin", "outmax", "outmin"), [X(v) for v in [kp, ki, kd] + lim]))
        st = {k: X(0) for k in ("sum", "out", "var", "fdb", "err")}
        steps, exp = [], []
        style = rng.choice(["mixed", "pos", "inc", "mixed"])
        try:
            for _ in range(rng.randint(2, 12)):
                mode = {"mixed": rng.choice([0, 1, 1, 2, 2, 3]), "pos": rng.choice([1, 1, 1, 1, 3]), "inc": rng.choice([2, 2, 2, 2, 3])}[style]
                set_, fdb = dy(rng, -6, 6, rng.choice([0, 1])), dy(rng, -6, 6, rng.choice([0, 1]))
                r = pid_step(st, par, mode, set_, fdb)
                steps.append((mode, set_, fdb))
                exp.extend(E("a_pid_" + ("run", "pos", "inc", "zero")[mode], [r, st["sum"], st["out"], st["var"], st["fdb"], st["err"]]))
        except Inexact:
            pass
        if not steps:
            continue
        exp.extend(E("a_pid_set_kpid", [kp, ki, kd] + lim))
        toks = ["pid"] + [hexf(v) for v in [kp, ki, kd] + lim]
        for m, a, b in steps:
            toks += [str(m), hexf(a), hexf(b)]
        cases.append(Case(" ".join(toks), "a_pid_pos", exp, {"kp ki kd": [dec(kp), dec(ki), dec(kd)], "summax summin outmax outmin": [dec(v) for v in lim],
                                                             "steps (mode 0 run 1 pos 2 inc 3 zero, set, fdb)": [(m, dec(a), dec(b)) for m, a, b in steps]}))
    # single neuron (the normalising quotient is exact when one channel carries all the weight, or when the learning rates are
    # zero and the weights' magnitudes add up to a power of two)
    n0 = len(cases)
    tries = 0
    while len(cases) - n0 < 110 * scale and tries < 6000 * scale:
        tries += 1
        k = Fraction(rng.choice([1, 2, 3, 1]), rng.choice([1, 2, 4]))
        style = rng.choice(["p", "i", "d", "fixed", "fixed"])
        if style == "fixed":
            kk = [Fraction(0)] * 3
            mags = rng.choice([[1, 2, 1], [2, 1, 1], [1, 1, 2], [4, 2, 2], [1, 4, 3], [3, 4, 1], [5, 2, 1], [1, 1, 6]])
            ww = [Fraction(m * rng.choice([-1, 1]), 4) for m in mags]
        else:
            ch = "pid".index(style)
            kk = [Fraction(0)] * 3
            kk[ch] = Fraction(1, rng.choice([1, 2, 4, 8]))
            ww = [Fraction(0)] * 3
            ww[ch] = Fraction(rng.choice([-3, -2, -1, 1, 2, 3]), 2)
        lim = [Fraction(rng.randint(2, 40)), -Fraction(rng.randint(2, 40))]
        n = {"k": X(k), "kp": X(kk[0]), "ki": X(kk[1]), "kd": X(kk[2]), "wp": X(ww[0]), "wi": X(ww[1]), "wd": X(ww[2]), "ec": X(0),
             "outmax": X(lim[0]), "outmin": X(lim[1])}
        st = {x: X(0) for x in ("sum", "out", "var", "fdb", "err")}
        steps, exp, learned = [], [], False
        try:
            for _ in range(rng.randint(2, 8)):
                mode = rng.choice([0, 1, 1, 1, 2])
                set_, fdb = dy(rng, -4, 4, rng.choice([0, 1])), dy(rng, -4, 4, rng.choice([0, 1]))
                w_before = (n["wp"], n["wi"], n["wd"])
                r = neuro_step(st, n, mode, set_, fdb)
                learned = learned or w_before != (n["wp"], n["wi"], n["wd"])
                steps.append((mode, set_, fdb))
                exp.extend(E("a_pid_neuro_" + ("run", "inc", "zero")[mode], [r, st["out"], n["wp"], n["wi"], n["wd"], n["ec"], st["var"], st["fdb"], st["err"]]))
        except Inexact:
            pass
        if len(steps) < 2 or (style != "fixed" and not learned and rng.random() < 0.8):
            continue
        exp.extend(E("a_pid_neuro_set_kpid", [k] + kk))
        toks = ["neuro"] + [hexf(v) for v in [k] + kk + ww + lim]
        for m, a, b in steps:
            toks += [str(m), hexf(a), hexf(b)]
        cases.append(Case(" ".join(toks), "a_pid_neuro_inc", exp, {"k kp ki kd": [dec(v) for v in [k] + kk], "wp wi wd": [dec(v) for v in ww],
                                                                   "outmax outmin": [dec(v) for v in lim],
                                                                   "steps (mode 0 run 1 inc 2 zero, set, fdb)": [(m, dec(a), dec(b)) for m, a, b in steps]}))
    cases += gen_fuzzy_cases(rng, 90 * scale)
    cases += gen_eps_cases(rng, 18 * scale)
    cases += prec_C12(rng, 60 * scale)
    return cases, ("C12: precision cases: a_pid run/pos/inc histories with inactive limits; epsilon cases: one-step fuzzy histories whose only "
                   "active set has a degree 2^-20 .. 2^-70, so that it is kept or dropped according to the configuration's A_REAL_EPSILON "
                   "(expected gains differ between the builds, exactly).  a_pid run/pos/inc/zero histories (wide and tight limits, pos-only, inc-only, mixed) against the documented difference "
                   "equations; a_pid_neuro run/inc/zero against the recurrences of the proved model coq/C12/PidDefs.v (one weight channel "
                   "learning at a time, or fixed weights whose magnitudes add up to a power of two, so that the normalising quotient is exact); "
                   "a_pid_fuzzy histories (see C13) with every table and the scratch block of exactly A_PID_FUZZY_BFUZZ(nfuzz) bytes in the "
                   "guarded pool: all exact")


def gen_C13(rng, scale):
    cases = []
    # polynomial membership families: exact
    n0 = 0
    while n0 < 170 * scale:
        tag = rng.choice([7, 8, 9, 10, 11, 12, 13])
        w1, w2 = Fraction(2) ** rng.choice([-1, 0, 1, 2]), Fraction(2) ** rng.choice([-1, 0, 1, 2])
        a = dy(rng, -4, 4, 1)
        if tag in (7, 13):
            b = a + w1
            c = b + dy(rng, 0, 3, 1)
            p = [a, b, c, c + w2]
        elif tag == 8:
            p = [a, a + w1, a + w1 + w2, Fraction(0)]
        else:
            p = [a, a + w1, Fraction(0), Fraction(0)]
        lo, hi = p[0] - 1, max(p[:NPAR[tag]]) + 1
        x = rng.choice([dy(rng, int(lo) - 1, int(hi) + 1, 3)] * 3 + p[:NPAR[tag]])
        try:
            y = mf_exact(tag, x, p[:NPAR[tag]])
        except Inexact:
            continue
        cases.append(Case(" ".join(["mf", str(tag)] + [hexf(v) for v in [x] + p]), "a_mf_" + {7: "trap", 8: "tri", 9: "lins", 10: "linz", 11: "s", 12: "z", 13: "pi"}[tag],
                          E("a_mf_" + {7: "trap", 8: "tri", 9: "lins", 10: "linz", 11: "s", 12: "z", 13: "pi"}[tag], [y]) + E("a_mf", [y]),
                          {"tag": tag, "x": dec(x), "parameters": [dec(v) for v in p[:NPAR[tag]]]}))
        n0 += 1
    # exp / pow families: binary64 reference, moderate arguments
    for k in range(90 * scale):
        tag = rng.choice([1, 2, 3, 4, 5, 6])
        nm = {1: "gauss", 2: "gauss2", 3: "gbell", 4: "sig", 5: "dsig", 6: "psig"}[tag]
        x = dy(rng, -3, 3, 4)
        if tag == 1:
            p = [dy(rng, 1, 3, 2) + Fraction(1, 4), dy(rng, -2, 2, 2), Fraction(0), Fraction(0)]
        elif tag == 2:
            c1 = dy(rng, -2, 0, 2)
            p = [dy(rng, 1, 2, 2) + Fraction(1, 4), c1, dy(rng, 1, 2, 2) + Fraction(1, 2), c1 + dy(rng, 0, 2, 2)]
        elif tag == 3:
            p = [dy(rng, 1, 3, 2) + Fraction(1, 4), Fraction(rng.choice([1, 2, 3, 4]), 2), dy(rng, -2, 2, 2), Fraction(0)]
        else:
            p = [dy(rng, 1, 3, 2) * rng.choice([-1, 1]) + Fraction(1, 4), dy(rng, -2, 2, 2), dy(rng, 1, 3, 2) + Fraction(1, 2), dy(rng, -2, 2, 2)]
        ref = mf_float(tag, float(x), [float(v) for v in p])
        cases.append(Case(" ".join(["mf", str(tag)] + [hexf(v) for v in [x] + p]), "a_mf_" + nm,
                          [("a_mf_" + nm, "~", (ref, 1.0)), ("a_mf", "~", (ref, 1.0))], {"tag": tag, "x": dec(x), "parameters": [dec(v) for v in p[:NPAR[tag]]]}))
    # operators
    for k in range(80 * scale):
        a, b, g = X(dy(rng, 0, 1, 4)), X(dy(rng, 0, 1, 4)), dy(rng, 0, 1, 2)
        fa, fb = float(a.v), float(b.v)
        equ = math.sqrt(fa * fb) * math.sqrt(1 - (1 - fa) * (1 - fb))
        if fa * fb == 0 and float(g) == 1:
            continue            # 0 ** 0
        equg = (fa * fb) ** (1 - float(g)) * (1 - (1 - fa) * (1 - fb)) ** float(g)
        exp = E("a_fuzzy_not", [1 - a]) + [("a_fuzzy_" + nm, "=", fuzzy_op(i, a, b).v) for i, nm in
                                           ((1, "cap"), (2, "cap_algebra"), (3, "cap_bounded"), (4, "cup"), (5, "cup_algebra"), (6, "cup_bounded"))]
        exp += [("a_fuzzy_equ", "~", (equ, 1.0)), ("a_fuzzy_equ_", "~", (equg, 1.0)), ("a_pid_fuzzy_opr", "~", (equ, 1.0))]
        exp += [("a_pid_fuzzy_opr", "=", fuzzy_op(i, a, b).v) for i in range(1, 7)] + [("a_pid_fuzzy_opr", "~", (equ, 1.0))]
        cases.append(Case("op %s %s %s" % (hexf(a), hexf(b), hexf(g)), "a_fuzzy_cap", exp, {"a": dec(a), "b": dec(b), "gamma": dec(g)}))
    cases += gen_fuzzy_cases(rng, 120 * scale)
    cases += gen_eps_cases(rng, 24 * scale)
    cases += prec_C13(rng, 70 * scale)
    return cases, ("C13: precision cases: trap/tri/lins/linz/s/z/pi on full-mantissa parameters; epsilon cases: one-step fuzzy histories whose "
                   "only active set has a degree 2^-20 .. 2^-70, kept or dropped according to the configuration's A_REAL_EPSILON (expected gains "
                   "differ between the builds, exactly).  trap/tri/lins/linz/s/z/pi and the dispatcher a_mf on dyadic parameters with power-of-two widths (break points "
                   "included), the min/max/algebraic/bounded operators and a_pid_fuzzy_opr, and fuzzy-controller histories whose membership "
                   "tables are ordered partitions (shoulders + triangles on a power-of-two grid), with the operators min, product, bounded "
                   "product, max, algebraic sum, bounded sum, present and NULL rule tables, and only histories kept whose joint membership sums "
                   "are powers of two and in which the scheduling changes a gain - expected gains = base + weighted mean of the consequents of "
                   "the active rules, then the documented PID equations: all exact; every table and the scratch block of exactly "
                   "A_PID_FUZZY_BFUZZ(nfuzz) bytes live in the guarded pool (nfuzz even: an odd count misaligns the value region of the block for long double, an observation outside the property "
                   "recorded under glue_cfg_observations_outside_property). gauss/gauss2/gbell/sig/dsig/psig (exp, pow) and the equilibrium "
                   "operators (sqrt, pow) are compared with a binary64 reference on moderate arguments within 1e-5 + 1e-6 (float; 1e-9 + 1e-12 "
                   "otherwise)")


# ------------------------------------------------------------------------------------------------------------ C14
def trap_ref(vm, ac, de, p0, p1, v0, v1, N=X, xsqrt=xsqrt):
    """a_trajtrap_gen by the equations documented in a/trajtrap.h, on exact values (Inexact when a step does not fit).
    Returns (duration, [t p0 p1 v0 v1 vc ta td pa pd ac de]) for a positive duration, else None.  N, xsqrt: X and the exact square
    root (exact case) or S and ssqrt (precision case)."""
    X = N       # noqa: N806
    vm, ac, de, p0, p1, v0, v1 = [X(v) for v in (vm, ac, de, p0, p1, v0, v1)]
    half = Fraction(1, 2)
    if ac == de:
        return None
    if vm < 0:
        vm = -vm
    if vm == 0:
        return None
    v0, v1 = sat(v0, -vm, vm), sat(v1, -vm, vm)
    p = p1 - p0
    rev = p < 0
    v02, v12 = v0 * v0, v1 * v1
    vc2 = (v12 * ac - v02 * de - 2 * p * ac * de) / (ac - de)
    if vc2 <= 0:
        return None
    if vc2 > vm * vm:                                   # acceleration, constant velocity, deceleration
        vc = -vm if rev else vm
        ta = (vc - v0) / ac
        t_d = (v1 - vc) / de
        pa = p0 + v0 * ta + half * ac * ta * ta
        pd = p1 - vc * t_d - half * de * t_d * t_d
        td = ta + (pd - pa) / vc
        t = t_d + td
    elif vc2 > v02 and vc2 <= v12:                      # acceleration only
        v1 = xsqrt(v02 + 2 * p * ac)
        v1 = -v1 if rev else v1
        vc = v1
        t = (v1 - v0) / ac
        ta = td = t
        pa = p0 + v0 * t + half * ac * t * t
        pd = p1
    elif vc2 <= v02 and vc2 > v12:                      # deceleration only
        v1 = xsqrt(v02 + 2 * p * de)
        v1 = -v1 if rev else v1
        vc = v0
        t = (v1 - v0) / de
        ta = td = X(0)
        pa = pd = p0
    else:                                               # acceleration, deceleration
        vc = xsqrt(vc2)
        vc = -vc if rev else vc
        ta = (vc - v0) / ac
        td = ta
        pa = p0 + v0 * ta + half * ac * ta * ta
        t = ta + (v1 - vc) / de
        pd = pa
    if not t > 0:
        return None
    return t, [t, p0, p1, v0, v1, vc, ta, td, pa, pd, ac, de]


def trap_eval(f, x, N=X):
    """position, velocity, acceleration at x (acceleration None on a phase boundary, where it is a convention)"""
    X = N       # noqa: N806
    t, p0, p1, v0, v1, vc, ta, td, pa, pd, ac, de = f
    x = X(x)
    half = Fraction(1, 2)
    on_edge = False if N is S else (x == 0 or x == ta or x == td or x == t)
    if x <= 0:
        return p0, v0, (None if on_edge else X(0))
    if x < ta:
        return p0 + v0 * x + half * ac * x * x, v0 + ac * x, (None if on_edge else ac)
    if x < td:
        return pa + vc * (x - ta), vc, (None if on_edge else X(0))
    if x < t:
        y = x - td
        return pd + vc * y + half * de * y * y, vc + de * y, (None if on_edge else de)
    return p1, v1, (None if on_edge else X(0))


def bell_ref(jm, am, vm, p0, p1, v0, v1):
    """binary64 reference of a_trajbell_gen when both limits' tests are decided with a margin and a constant-velocity phase exists
    (the documented double-S equations); None otherwise (those requests go through the bisection and are only judged by the
    property's own clauses).  Returns [t tv ta td taj tdj p0 p1 v0 v1 vm jm am dm]."""
    jm, am, vm = abs(jm), abs(am), abs(vm)
    v0, v1 = min(max(v0, -vm), vm), min(max(v1, -vm), vm)
    q0, q1, w0, w1 = (p0, p1, v0, v1) if p0 <= p1 else (-p0, -p1, -v0, -v1)
    res = []
    for w in (w0, w1):
        d = (vm - w) * jm - am * am
        if abs(d) < 0.08 * am * am:
            return None
        if d < 0:
            tj = math.sqrt((vm - w) / jm)
            res.append((tj, 2 * tj, jm * tj))
        else:
            tj = am / jm
            res.append((tj, tj + (vm - w) / am, am))
    (taj, ta, amax), (tdj, td, dmax) = res
    tv = (q1 - q0) / vm - 0.5 * ta * (1 + w0 / vm) - 0.5 * td * (1 + w1 / vm)
    if tv < 0.05 * (ta + td) + 0.02:
        return None
    return [ta + tv + td, tv, ta, td, taj, tdj, p0, p1, v0, v1, vm, jm, amax, -dmax]


def gen_C14(rng, scale):
    cases = []
    # ---- trapezoid, exact: built from a chosen cruise/peak velocity and phase durations, judged by trap_ref
    tries = 0
    kinds = {"cruise": 0, "peak": 0, "acc": 0, "dec": 0}
    while len(cases) < 200 * scale and tries < 40000 * scale:
        tries += 1
        dr = rng.choice([1, -1])
        am, dm = rng.choice([(1, 1), (1, 3), (3, 1), (2, 2), (Fraction(1, 2), Fraction(1, 2)), (Fraction(1, 2), Fraction(3, 2)), (2, 6), (6, 2), (4, 4), (1, 7)])
        ac, de = dr * Fraction(am), -dr * Fraction(dm)
        shape = rng.choice(["cruise", "cruise", "peak", "peak", "acc", "dec"])
        vc = dr * dy(rng, 1, 6, 1)
        ta = Fraction(0) if shape == "dec" else Fraction(rng.randint(1, 12), 4)
        t_d = Fraction(0) if shape == "acc" else Fraction(rng.randint(1, 12), 4)
        v0, v1 = vc - ac * ta, vc + de * t_d
        if abs(v0) > abs(vc) or abs(v1) > abs(vc) or (shape in ("peak", "acc", "dec") and (abs(v0) == abs(v1))):
            continue
        tc = Fraction(rng.randint(1, 12), 4) if shape == "cruise" else Fraction(0)
        vm = abs(vc) if shape == "cruise" else abs(vc) + Fraction(rng.randint(1, 8), 2)
        if rng.random() < 0.2:
            vm = -vm
        p0 = dy(rng, -6, 6, 1)
        p1 = p0 + v0 * ta + ac * ta * ta / 2 + vc * tc + vc * t_d + de * t_d * t_d / 2
        if kinds[shape] > 70 * scale:
            continue
        try:
            ref = trap_ref(vm, ac, de, p0, p1, v0, v1)
            if ref is None:
                continue
            T, f = ref
            exp = E("a_trajtrap_gen", [T] + f)
            xs = []
            cand = [Fraction(0), f[6].v / 2, f[6].v, (f[6].v + f[7].v) / 2, f[7].v, (f[7].v + T.v) / 2, T.v, T.v + 1, Fraction(-1), T.v / 4, T.v * 3 / 4]
            for x in rng.sample(cand, 6):
                try:
                    y, v, a = trap_eval(f, x)
                except Inexact:
                    continue
                xs.append(x)
                exp += E("a_trajtrap_pos", [y]) + E("a_trajtrap_vel", [v]) + ([("a_trajtrap_acc", "?", None)] if a is None else E("a_trajtrap_acc", [a]))
        except Inexact:
            continue
        kinds[shape] += 1
        args = [vm, ac, de, p0, p1, v0, v1]
        cases.append(Case(" ".join(["trap"] + [hexf(v) for v in args + xs]), "a_trajtrap_gen", exp,
                          {"vm ac de p0 p1 v0 v1": [dec(v) for v in args], "profile": shape, "query times": [dec(x) for x in xs]}))
    ntrap_exact = len(cases)
    # ---- requests that must be refused (nothing written but the request itself)
    for k in range(12 * scale):
        a = dy(rng, 1, 4, 1)
        args = rng.choice([[Fraction(3), a, a, Fraction(0), Fraction(5), Fraction(1), Fraction(1)],
                           [Fraction(0), a, -a, Fraction(0), Fraction(5), Fraction(1), Fraction(1)]])
        cases.append(Case(" ".join(["trap"] + [hexf(v) for v in args]), "a_trajtrap_gen", E("a_trajtrap_gen", [0] + [777] * 12),
                          {"vm ac de p0 p1 v0 v1": [dec(v) for v in args], "profile": "refused (ac == de or vm == 0): the object must stay untouched"}))
    # ---- trapezoid, general feasible requests (sqrt not exact): between the configurations + the property's end-state clauses
    fr = ["@0", "@0x1p-3", "@0x1p-2", "@0x1.8p-2", "@0x1p-1", "@0x1.4p-1", "@0x1.8p-1", "@0x1.cp-1", "@0x1.ffp-1", "@0x1p+0", "@0x1.2p+0"]

    def trap_post(p0, p1, vmax):
        def post(real, vals):
            T = vals[0]
            if not isinstance(T, Fraction) or T <= 0:
                return "a feasible request was refused (duration %s)" % (T,)
            tol = Fraction(1e-4 if real == 4 else 1e-9) * (abs(p0) + abs(p1) + 1)
            rows = [vals[13 + 3 * i:16 + 3 * i] for i in range(len(fr))]
            if any(not isinstance(v, Fraction) for r in rows for v in r):
                return "a queried value is not finite"
            if rows[0][0] != p0 or rows[9][0] != p1 or rows[10][0] != p1:
                return "position at 0 / at the end / after the end is %s / %s / %s, requested %s / %s" % (float(rows[0][0]), float(rows[9][0]), float(rows[10][0]), float(p0), float(p1))
            if abs(rows[8][0] - p1) > abs(vmax) * T / 400 + tol:
                return "position just before the end is %s, the end position is %s" % (float(rows[8][0]), float(p1))
            for r in rows:
                if abs(r[1]) > abs(vmax) * (1 + Fraction(1e-5)) + tol:
                    return "speed %s exceeds the limit %s" % (float(r[1]), float(vmax))
            return None
        return post
    for k in range(70 * scale):
        dr = rng.choice([1, -1])
        vm, ac, de = f32ish(rng, 3, 6), dr * f32ish(rng, 1, 2), -dr * f32ish(rng, 2.2, 3.2)
        p0 = dy(rng, -9, 9, 2)
        p1 = p0 + dr * f32ish(rng, 2, 40)
        v0, v1 = dr * f32ish(rng, 0.2, 1), dr * f32ish(rng, 1.1, 2)
        args = [vm, ac, de, p0, p1, v0, v1]
        exp = [("a_trajtrap_gen", "x", None)] * 13
        for _ in fr:
            exp += [("a_trajtrap_pos", "x", abs(p0) + abs(p1)), ("a_trajtrap_vel", "x", vm), ("a_trajtrap_acc", "?", None)]
        cases.append(Case(" ".join(["trap"] + [hexf(v) for v in args] + fr), "a_trajtrap_gen", exp,
                          {"vm ac de p0 p1 v0 v1": [dec(v) for v in args], "query times": "fractions of the duration: " + " ".join(fr)},
                          post=trap_post(p0, p1, vm)))
    # ---- trapezoid, precision cases: full-mantissa requests against the exact value of the documented equations
    nprec = 0
    while nprec < 60 * scale:
        dr = rng.choice([1, -1])
        vm, ac, de = f24(rng, 3, 6, sign=False), dr * f24(rng, 1, 2, sign=False), -dr * f24(rng, 2.2, 3.2, sign=False)
        p0 = f24(rng, 0.5, 9)
        p1 = p0 + dr * f24(rng, 2, 40, sign=False)
        v0, v1 = dr * f24(rng, 0.2, 1, sign=False), dr * f24(rng, 1.1, 2, sign=False)
        args = [vm, ac, de, p0, p1, v0, v1]
        try:
            if not all(fits(v, 24) for v in args):
                continue
            ref = trap_ref(*args, N=S, xsqrt=ssqrt)
            if ref is None:
                continue
            T, f = ref
            exp = P("a_trajtrap_gen", [T] + f)
            xs = [Fraction(int(T.v * q * (1 << 18)), 1 << 18) for q in (rng.uniform(0.02, 0.2), rng.uniform(0.3, 0.6), rng.uniform(0.8, 0.98))]
            for x in xs:
                y, v, a = trap_eval(f, x, S)
                exp += P("a_trajtrap_pos", [y]) + P("a_trajtrap_vel", [v]) + [("a_trajtrap_acc", "?", None)]
        except Unstable:
            continue
        cases.append(Case(" ".join(["trap"] + [hexf(v) for v in args + xs]), "a_trajtrap_gen", exp,
                          {"vm ac de p0 p1 v0 v1": [dec(v) for v in args], "query times": [dec(x) for x in xs]}))
        nprec += 1
    # ---- double S
    def bell_post(p0, p1, vmax, amax, jmax):
        def post(real, vals):
            T = vals[0]
            if not isinstance(T, Fraction) or T <= 0:
                return "a feasible request was refused (duration %s)" % (T,)
            tol = Fraction(1e-4 if real == 4 else 1e-9) * (abs(p0) + abs(p1) + 1)
            f = vals[1:15]
            if any(not isinstance(v, Fraction) for v in vals):
                return "a value is not finite"
            t, tv, ta, td, taj, tdj = f[:6]
            if min(tv, ta, td, taj, tdj) < 0 or abs(ta + tv + td - t) > tol + Fraction(1e-5) * t:
                return "phase durations tv=%s ta=%s td=%s taj=%s tdj=%s do not add up to t=%s or are negative" % tuple(float(v) for v in (tv, ta, td, taj, tdj, t))
            rows = [vals[15 + 4 * i:19 + 4 * i] for i in range(len(fr))]
            if rows[0][0] != p0 or rows[9][0] != p1 or rows[10][0] != p1:
                return "position at 0 / at the end / after the end is %s / %s / %s, requested %s / %s" % (float(rows[0][0]), float(rows[9][0]), float(rows[10][0]), float(p0), float(p1))
            if abs(rows[8][0] - p1) > abs(vmax) * T / 400 + tol:
                return "position just before the end is %s, the end position is %s" % (float(rows[8][0]), float(p1))
            slack = 1 + Fraction(1e-4 if real == 4 else 1e-9)
            for r in rows:
                if abs(r[1]) > vmax * slack + tol or abs(r[2]) > amax * slack + tol or abs(r[3]) > jmax * slack:
                    return "speed / acceleration / jerk %s / %s / %s exceed the limits %s / %s / %s" % tuple(float(v) for v in (r[1], r[2], r[3], vmax, amax, jmax))
            return None
        return post
    nb = 0
    ncruise = 0
    while nb < 150 * scale:
        dr = rng.choice([1, -1])
        jm, am, vm = f32ish(rng, 4, 12), f32ish(rng, 1.5, 4), f32ish(rng, 2.5, 6)
        p0 = dy(rng, -9, 9, 2)
        long_ = rng.random() < 0.75
        p1 = p0 + dr * (f32ish(rng, 25, 80) if long_ else f32ish(rng, 3, 12))
        v0, v1 = dr * f32ish(rng, 0.1, 1.2), dr * f32ish(rng, 0.1, 1.2)
        args = [jm, am, vm, p0, p1, v0, v1]
        ref = bell_ref(*[float(v) for v in args])
        if long_ and ref is None:
            continue
        if ref is not None:
            exp = A("a_trajbell_gen", [ref[0]] + ref)
            mode = "x"
            ncruise += 1
        else:
            exp = [("a_trajbell_gen", "?", None)] * 15      # the bisection decides: judged by the property's clauses below only
            mode = "?"
        for _ in fr:
            # a query time is a fraction of the duration computed in a_real: it carries a relative error of one unit in the last place,
            # which the acceleration (slope up to jm) turns into jm * t * eps: the size of the terms of an acceleration is jm * t
            exp += [("a_trajbell_pos", mode, abs(p0) + abs(p1)), ("a_trajbell_vel", mode, vm), ("a_trajbell_acc", mode, (lambda d, j=jm: j * d[0])),
                    ("a_trajbell_jer", "?", None)]
        cases.append(Case(" ".join(["bell"] + [hexf(v) for v in args] + fr), "a_trajbell_gen", exp,
                          {"jm am vm p0 p1 v0 v1": [dec(v) for v in args], "query times": "fractions of the duration: " + " ".join(fr),
                           "kind": "limits reached with a constant-velocity phase" if ref is not None else "short move (acceleration reduced by the bisection)"},
                          post=bell_post(p0, p1, vm, am, jm)))
        nb += 1
    return cases, ("C14: precision cases: the trapezoid generator and its position / velocity on full-mantissa requests (square roots to 2^-400). "
                   "%d trapezoid requests built from dyadic phase durations (cruise, peak, acceleration-only, deceleration-only, both "
                   "directions, perfect-square peak velocities) judged exactly by the equations documented in a/trajtrap.h, position / velocity / "
                   "acceleration at phase boundaries, mid-phases and outside [0, t]; refused requests must leave the object untouched. "
                   "Requests whose square roots are not exact: the trapezoid's duration, fields, position and velocity at 11 fractions of the "
                   "duration are compared between the configurations (1e-5 + 1e-6 for float, 1e-9 + 1e-12 for long double, against the double "
                   "build) and judged by the property's clauses (starts at p0, ends at p1, speed within the limit); the double-S generator "
                   "(sqrt, data-dependent bisection) is compared with a binary64 reference of the documented limit-reached equations when a "
                   "constant-velocity phase exists and the limit tests are decided with a margin (%d of %d requests), position / velocity / "
                   "acceleration then also between the configurations; short moves that go through the bisection are judged only by the "
                   "property's clauses (non-negative phases adding up to t, end points, limits) in each configuration"
                   % (ntrap_exact, ncruise, nb))


# ------------------------------------------------------------------------------------------------------------ precision cases
def prec_C16(rng, n):
    cases = []
    while len(cases) < n:
        kind = rng.choice(["tf", "tf", "lpf", "hpf"])
        try:
            if kind == "tf":
                nn, nd = rng.randint(1, 4), rng.randint(0, 3)
                num = [f24(rng, 0.1, 2) for _ in range(nn)]
                den = [f24(rng, 0.05, 0.4) for _ in range(nd)]
                toks = ["tf", str(nn), str(nd)] + [hexf(v) for v in num + den] + ["0"]
                exp = E("a_tf_init", [0] * (nn + nd))
                hu, hy = [S(0)] * nn, [S(0)] * nd
                us = []
                for _ in range(rng.randint(3, 6)):
                    u = f24(rng, 0.1, 5)
                    hu = ([S(u)] + hu)[:nn]
                    y = S(0)
                    for i in range(nn):
                        y = y + S(num[i]) * hu[i]
                    for j in range(nd):
                        y = y - S(den[j]) * hy[j]
                    hy = ([y] + hy)[:nd]
                    toks += ["1", hexf(u)]
                    exp += P("a_tf_iter", [y])
                    us.append(u)
                exp += P("a_tf_iter", hu + hy) + E("a_tf_init", [nn, nd, 1])
                cases.append(Case(" ".join(toks), "a_tf_iter", exp, {"num": [dec(v) for v in num], "den": [dec(v) for v in den], "inputs": [dec(v) for v in us]}))
            else:
                alpha = f24(rng, 0.05, 0.95, sign=False)
                out, xin, xs, exp = S(0), S(0), [], []
                for _ in range(rng.randint(2, 8)):
                    x = f24(rng, 0.1, 8)
                    out = out * (1 - S(alpha)) + S(x) * S(alpha) if kind == "lpf" else S(alpha) * (out + S(x) - xin)
                    xin = S(x)
                    xs.append(x)
                    exp += P("a_%s_iter" % kind, [out])
                exp += E("a_%s_init" % kind, [alpha]) + P("a_%s_iter" % kind, [out]) + (E("a_hpf_iter", [xs[-1]]) if kind == "hpf" else [])
                exp += E("a_%s_zero" % kind, [0] + ([0] if kind == "hpf" else []))
                cases.append(Case(" ".join([kind, hexf(alpha)] + [hexf(x) for x in xs]), "a_%s_iter" % kind, exp, {"alpha": dec(alpha), "inputs": [dec(x) for x in xs]}))
        except Unstable:
            continue
    return cases


def _inverse_rows(order, ts):
    """row k: the coefficients with which the boundary values [p0 p1 v0 v1 ...] enter c_k (exact)"""
    n = order + 1
    half = n // 2
    cols = []
    for j in range(n):
        b0, b1 = [Fraction(0)] * half, [Fraction(0)] * half
        (b0 if j % 2 == 0 else b1)[j // 2] = Fraction(1)
        cols.append(solve_boundary(order, ts, b0, b1))
    return [[cols[j][k] for j in range(n)] for k in range(n)]


def s_horner(cs, x):
    y = cs[-1]
    for c in reversed(cs[:-1]):
        y = y * S(x) + c
    return y


def s_deriv(cs, d):
    out = list(cs)
    for _ in range(d):
        out = [out[i] * i for i in range(1, len(out))]
    return out


def prec_C15(rng, n):
    cases = []
    while len(cases) < n:
        kind = rng.choice(["poly", "p3", "p5", "p7"])
        try:
            if kind == "poly":
                k = rng.randint(1, 8)
                a = [f24(rng, 0.1, 4) for _ in range(k)]
                x = f24(rng, 0.25, 2)
                ev, er = s_horner([S(v) for v in a], x), s_horner([S(v) for v in a[::-1]], x)
                exp = P("a_poly_eval", [ev]) + P("a_poly_evar", [er]) + P("a_poly_eval_", [ev]) + P("a_poly_evar_", [er])
                exp += E("a_poly_swap", a[::-1]) + E("a_poly_swap_", a)
                cases.append(Case(" ".join(["poly", str(k)] + [hexf(v) for v in a] + [hexf(x)]), "a_poly_eval", exp,
                                  {"coefficients": [dec(v) for v in a], "x": dec(x)}))
                continue
            order = int(kind[1])
            half = (order + 1) // 2
            ts = f24(rng, 0.5, 4, sign=False)
            bc = [f24(rng, 0.2, 6) for _ in range(2 * half)]          # p0 p1 v0 v1 ...
            bc0, bc1 = bc[0::2], bc[1::2]
            val = solve_boundary(order, ts, bc0, bc1)
            inv = _inverse_rows(order, ts)
            fn = "a_trajpoly%d" % order
            names = ("pos", "vel", "acc", "jer")[:3 if order < 7 else 4]
            # query times: 0, ts and two interior times cut to 20 fractional bits (below 4: exact in binary32)
            xs = [Fraction(0), ts] + [Fraction(int(ts * rng.uniform(0.1, 0.9) * (1 << 20)), 1 << 20) for _ in range(2)]

            def build(loss):
                cs = [S(val[k], sum(abs(inv[k][j] * bc[j]) for j in range(order + 1)) * loss, 10 + order) for k in range(order + 1)]
                exp = P(fn + "_gen", cs)
                for x in xs:
                    for d, nm in enumerate(names):
                        exp += P("%s_%s" % (fn, nm), [s_horner(s_deriv(cs, d), x)])
                for d in range(len(names)):
                    exp += P("%s_c%d" % (fn, d), s_deriv(cs, d))
                return exp
            # the septic multiplies by the binary64 constants (a_real)(1.0/2), (a_real)(1.0/6): in the long double build its coefficients are
            # only as accurate as binary64 (2^11 epsilons of long double)
            exp = build(1) if order < 7 else {4: build(1), 8: build(1), 16: build(1 << 11)}
            args = [ts]
            for a_, b_ in zip(bc0, bc1):
                args += [a_, b_]
            cases.append(Case(" ".join([kind] + [hexf(v) for v in args + xs]), fn + "_gen", exp,
                              {"ts": dec(ts), "boundary (value at 0, value at ts) for p, v, a, j": [(dec(a_), dec(b_)) for a_, b_ in zip(bc0, bc1)],
                               "x": [dec(x) for x in xs]}))
        except Unstable:
            continue
    return cases


def prec_C12(rng, n):
    cases = []
    while len(cases) < n:
        kp, ki, kd = f24(rng, 0.2, 4, sign=False), f24(rng, 0.1, 2, sign=False), f24(rng, 0.1, 2, sign=False)
        lim = [Fraction(1000), Fraction(-1000), Fraction(100000), Fraction(-100000)]
        par = dict(zip(("kp", "ki", "kd", "summax", "summin", "outmax", "outmin"), [S(v) for v in [kp, ki, kd] + lim]))
        st = {k: S(0) for k in ("sum", "out", "var", "fdb", "err")}
        steps, exp = [], []
        try:
            for _ in range(rng.randint(3, 7)):
                mode = rng.choice([0, 1, 1, 2, 2])
                set_, fdb = f24(rng, 0.2, 6), f24(rng, 0.2, 6)
                r = pid_step(st, par, mode, set_, fdb, S)
                steps.append((mode, set_, fdb))
                exp += P("a_pid_" + ("run", "pos", "inc")[mode], [r, st["sum"], st["out"], st["var"], st["fdb"], st["err"]])
        except Unstable:
            continue
        exp += E("a_pid_set_kpid", [kp, ki, kd] + lim)
        toks = ["pid"] + [hexf(v) for v in [kp, ki, kd] + lim]
        for m, a, b in steps:
            toks += [str(m), hexf(a), hexf(b)]
        cases.append(Case(" ".join(toks), "a_pid_pos", exp, {"kp ki kd": [dec(kp), dec(ki), dec(kd)], "limits": "inactive",
                                                             "steps (mode 0 run 1 pos 2 inc, set, fdb)": [(m, dec(a), dec(b)) for m, a, b in steps]}))
    return cases


def prec_C13(rng, n):
    cases = []
    names = {7: "trap", 8: "tri", 9: "lins", 10: "linz", 11: "s", 12: "z", 13: "pi"}
    while len(cases) < n:
        tag = rng.choice(list(names))
        ps = sorted(f24(rng, 0.2, 8) for _ in range(NPAR[tag]))
        if any(b - a < Fraction(1, 4) for a, b in zip(ps, ps[1:])):
            continue
        x = f24(rng, 0.1, 9)
        try:
            y = mf_exact(tag, x, ps, S)
        except Unstable:
            continue
        if y.d == 0:
            if rng.random() < 0.8:
                continue            # outside the support / on the core: nothing is computed
        p4 = ps + [Fraction(0)] * (4 - len(ps))
        item = [("a_mf_" + names[tag], "p", y), ("a_mf", "p", y)] if y.d else E("a_mf_" + names[tag], [y.v]) + E("a_mf", [y.v])
        cases.append(Case(" ".join(["mf", str(tag)] + [hexf(v) for v in [x] + p4]), "a_mf_" + names[tag], item,
                          {"tag": tag, "x": dec(x), "parameters": [dec(v) for v in ps]}))
    return cases


def gen_eps_cases(rng, n):
    """Fuzzy-controller histories of ONE step in which the only set the error activates has a degree between the machine epsilons of two
    configurations: a set is active iff its degree exceeds A_REAL_EPSILON (float 2^-23, double 2^-52, long double 2^-63), so the scheduled
    gains are the base gains in the narrower configuration and base + consequent in the wider one - exactly, in both."""
    cases = []
    while len(cases) < n:
        k = rng.choice([20, 26, 30, 40, 50, 56, 58, 62, 70])      # degree 2^-k of the error's only active set
        w = Fraction(4)
        nrule = 3
        # e-sets: triangles (0,4,8), (-16,-12,-8), (16,20,24): only the first is reached by e = 4 * 2^-k; ec-sets: a partition around 0
        me = [(8, [Fraction(0), w, 2 * w]), (8, [-4 * w, -3 * w, -2 * w]), (8, [4 * w, 5 * w, 6 * w])]
        mec_flat, mec = fuzzy_table(rng, nrule, Fraction(2))
        me_flat = []
        for t, ps in me:
            me_flat += [Fraction(t)] + ps
        opr = rng.choice([1, 2])
        nn = nrule * nrule
        vals = rng.sample(range(-3 * nn - 3, 3 * nn + 4), 3 * nn)
        tabs = [[Fraction(v, 2) for v in vals[j * nn:(j + 1) * nn]] for j in range(3)]
        base = [Fraction(v, 2) for v in rng.sample(range(1, 12), 3)]
        lim = [Fraction(50), Fraction(-50), Fraction(300), Fraction(-300)]
        e = w * Fraction(1, 1 << k)
        # first step from the zero state: ec = e as well; the ec-partition gives e a degree close to one in its middle set... keep it simple:
        # ec-sets must give exact degrees for ec = e: only a set with a flat core at 0 does
        mec = [(7, [-2 * w, -w, w, 2 * w]), (8, [3 * w, 4 * w, 5 * w]), (8, [-5 * w, -4 * w, -3 * w])]
        mec_flat = []
        for t, ps in mec:
            mec_flat += [Fraction(t)] + ps
        toks = ["fuzzy", str(nrule), "2", str(opr), "7", str(len(me_flat)), str(len(mec_flat))]
        toks += [hexf(v) for v in base + lim + me_flat + mec_flat + tabs[0] + tabs[1] + tabs[2]]
        mode = rng.choice([1, 2])
        toks += [str(mode), hexf(e), hexf(0)]
        exp = {}
        for real in (4, 8, 16):
            active = Fraction(1, 1 << k) > EPS[real]
            g = [base[j] + (tabs[j][0 * nrule + 0] if active else 0) for j in range(3)]      # rule (e-set 0, ec-set 0), joint degree 2^-k, normalised
            par = dict(zip(("kp", "ki", "kd", "summax", "summin", "outmax", "outmin"), [Fraction(v) for v in g + lim]))
            # one step from zero state, exact rational (the products with 2^-k are exact in every configuration that keeps the set)
            err = e
            if mode == 1:
                sm = par["ki"] * err
                out = par["kp"] * err + sm
            else:
                sm = Fraction(0)
                out = par["kp"] * err + par["ki"] * err
            fn = "a_pid_fuzzy_" + ("run", "pos", "inc")[mode]
            exp[real] = E("a_pid_fuzzy_bfuzz", [1]) + [(fn, "=", v) for v in [out] + g + [sm, out, Fraction(0), Fraction(0), err]] + E("a_pid_fuzzy_set_kpid", base)
        cases.append(Case(" ".join(toks), "a_pid_fuzzy_pos", exp,
                          {"degree of the only active e-set": "2^-%d" % k, "operator": opr, "base kp ki kd": [dec(v) for v in base],
                           "consequents of rule (0,0)": [dec(tabs[j][0]) for j in range(3)], "step": (mode, dec(e), "0"),
                           "expected": "gains = base + consequent where 2^-%d > A_REAL_EPSILON of the configuration, else base" % k}))
    return cases


FULL_FUZZY = {"C12": 30, "C13": 45}        # property -> number of all-sets-active histories in the quick tier
DEGREES = {1: [[Fraction(1, 2)], [Fraction(1, 4)]],
           2: [[Fraction(1, 2), Fraction(1, 2)], [Fraction(3, 4), Fraction(1, 4)]],
           3: [[Fraction(1, 2), Fraction(1, 4), Fraction(1, 4)]],
           4: [[Fraction(1, 4)] * 4, [Fraction(1, 2), Fraction(1, 4), Fraction(1, 8), Fraction(1, 8)]],
           5: [[Fraction(1, 4), Fraction(1, 4), Fraction(1, 4), Fraction(1, 8), Fraction(1, 8)], [Fraction(1, 2)] + [Fraction(1, 8)] * 4]}


def full_table(rng, n, x0):
    """n wide triangles (flank width 32) ALL of which contain x0, with chosen dyadic degrees there that add up to one
    (n = 1: one half or one quarter): every set is active at x0"""
    ds = list(rng.choice(DEGREES[n]))
    rng.shuffle(ds)
    sets = []
    for d in ds:
        if rng.random() < 0.5:      # x0 on the rising flank
            a = x0 - 32 * d
            sets.append((8, [a, a + 32, a + 64]))
        else:                       # x0 on the falling flank
            c = x0 + 32 * d
            sets.append((8, [c - 64, c - 32, c]))
    flat = []
    for t, ps in sets:
        flat += [Fraction(t)] + ps
    return flat, sets


def gen_full_fuzzy_cases(rng, count):
    """histories of steps that all see the same error e = x0 and, after a_pid_fuzzy_zero, the same error change ec = x0"""
    cases = []
    tries = 0
    per_n = {}
    while len(cases) < count and tries < count * 80:
        tries += 1
        n = rng.choice([1, 3, 5, 3, 5, 2, 4])
        if per_n.get(n, 0) > count // 3:
            continue
        x0 = Fraction(rng.choice([-8, -6, -5, -3, -2, -1, 1, 2, 3, 5, 6, 8]), 4)
        me_flat, me = full_table(rng, n, x0)
        mec_flat, mec = full_table(rng, n, x0)
        opr = rng.choice([2, 2, 2, 1, 4, 5, 6, 3])
        mask = rng.choice([7, 7, 7, 1, 2, 4, 0])
        nn = n * n
        vals = rng.sample(range(-3 * nn - 3, 3 * nn + 4), 3 * nn)
        tabs = [[Fraction(v, 2) for v in vals[k * nn:(k + 1) * nn]] for k in range(3)]
        base = [Fraction(v, 2) for v in rng.sample(range(1, 12), 3)]
        lim = [Fraction(rng.randint(40, 60)), -Fraction(rng.randint(40, 60)), Fraction(rng.randint(200, 300)), -Fraction(rng.randint(200, 300))]
        f = {"nrule": n, "nfuzz": n, "opr": opr, "me": me, "mec": mec, "kp": X(base[0]), "ki": X(base[1]), "kd": X(base[2]),
             "mkp": tabs[0] if mask & 1 else None, "mki": tabs[1] if mask & 2 else None, "mkd": tabs[2] if mask & 4 else None}
        par = {"kp": f["kp"], "ki": f["ki"], "kd": f["kd"], "summax": X(lim[0]), "summin": X(lim[1]), "outmax": X(lim[2]), "outmin": X(lim[3])}
        st = {k: X(0) for k in ("sum", "out", "var", "fdb", "err")}
        exp = E("a_pid_fuzzy_bfuzz", [1])
        steps = []
        try:
            for k in range(rng.choice([1, 2, 3])):
                if k:
                    r = pid_step(st, par, 3, 0, 0)
                    steps.append((3, Fraction(0), Fraction(0)))
                    exp.extend(E("a_pid_fuzzy_zero", [r, par["kp"], par["ki"], par["kd"], st["sum"], st["out"], st["var"], st["fdb"], st["err"]]))
                mode = rng.choice([0, 1, 1, 2, 2])
                fdb = dy(rng, -3, 3, 2)
                set_ = fdb + x0
                e = X(set_) - X(fdb)
                g = fuzzy_gains(f, e, e - st["err"])
                if len([1 for t, ps in me if mf_exact(t, e, ps) > 0]) != n:
                    raise AssertionError("not every set is active")
                par["kp"], par["ki"], par["kd"] = g
                r = pid_step(st, par, mode, set_, fdb)
                steps.append((mode, set_, fdb))
                exp.extend(E("a_pid_fuzzy_" + ("run", "pos", "inc")[mode], [r, par["kp"], par["ki"], par["kd"], st["sum"], st["out"], st["var"], st["fdb"], st["err"]]))
        except Inexact:
            continue
        toks = ["fuzzy", str(n), str(n), str(opr), str(mask), str(len(me_flat)), str(len(mec_flat))]
        toks += [hexf(v) for v in base + lim + me_flat + mec_flat + tabs[0] + tabs[1] + tabs[2]]
        for mode, a, b in steps:
            toks += [str(mode), hexf(a), hexf(b)]
        exp.extend(E("a_pid_fuzzy_set_kpid", base))
        per_n[n] = per_n.get(n, 0) + 1
        cases.append(Case(" ".join(toks), "a_pid_fuzzy_pos", exp,
                          {"nrule = nfuzz (every set of e and of ec is active: the whole nfuzz x nfuzz matrix is written)": n, "operator": opr,
                           "tables present (bit 0 mkp, 1 mki, 2 mkd)": mask, "scratch block": "exactly A_PID_FUZZY_BFUZZ(%d) bytes, 16-byte aligned, guard bytes directly behind" % n,
                           "error and error change at every stepping call": dec(x0), "base kp ki kd": [dec(v) for v in base],
                           "me": [dec(v) for v in me_flat], "mec": [dec(v) for v in mec_flat], "mkp": [dec(v) for v in tabs[0]],
                           "mki": [dec(v) for v in tabs[1]], "mkd": [dec(v) for v in tabs[2]],
                           "steps (mode 0 run 1 pos 2 inc 3 zero, set, fdb)": [(m, dec(a), dec(b)) for m, a, b in steps]}))
    return cases


GENERATORS = {"C12": gen_C12, "C13": gen_C13, "C14": gen_C14, "C15": gen_C15, "C16": gen_C16}


# =====================================================================================================================
# C09 / C08: the linear-algebra kernels and factorisations (src/linalg*.c) in the float and long double configurations
# =====================================================================================================================
HEADERS.update({"C08": ["linalg.h"], "C09": ["linalg.h"]})
SRCS.update({"C08": ["linalg_plu.c", "linalg_ldl.c", "linalg_llt.c", "linalg.c", "math.c", "a.c"],
             "C09": ["linalg.c", "math.c", "a.c"]})

TILE_EDGE = (15, 16, 17, 31, 32, 33)


# ------------------------------------------------------------------------------------------------------------ C09
MANT = {4: 24, 8: 53, 16: 64}


def rne(fr, bits):
    """fr rounded to nearest (ties to even) with a mantissa of `bits` bits - what `(a_real)strtold(text)` yields for a value that is
    exact in long double (magnitudes far from the exponent limits)"""
    fr = Fraction(fr)
    if fr == 0:
        return fr
    a = abs(fr)
    sh = bits - 1 - (a.numerator.bit_length() - a.denominator.bit_length())
    q = a * Fraction(2) ** sh
    while q >= 1 << bits:
        sh -= 1
        q /= 2
    while q < 1 << (bits - 1):
        sh += 1
        q *= 2
    n = q.numerator // q.denominator
    r = q - n
    if r > Fraction(1, 2) or (r == Fraction(1, 2) and n & 1):
        n += 1
    v = Fraction(n) / Fraction(2) ** sh
    return -v if fr < 0 else v


def hextok(m, e):
    """C99 hex-float text of the integer m times 2^e (exact for |m| < 2^64: strtold returns exactly this value)"""
    return "%s0x%xp%+d" % ("-" if m < 0 else "", abs(m), e)


def prec_C09(rng, C9, cases, scale):
    """Precision cases of the linalg.c kernels (appended to cases); returns the number of cases by class."""
    count = {}

    def wide():
        """(text, value): full 64-bit mantissa (top and bottom bit set), magnitude in [1/4, 4), either sign"""
        m = (1 << 63) | (rng.getrandbits(62) << 1) | 1
        m = -m if rng.random() < 0.5 else m
        e = -63 + rng.choice([-2, -1, 0, 0, 1])
        return hextok(m, e), Fraction(m) * Fraction(2) ** e

    def int60():
        m = (1 << 59) | (rng.getrandbits(58) << 1) | 1
        m = -m if rng.random() < 0.5 else m
        return str(m), Fraction(m)

    def tiny():
        m = rng.choice([1, -1, 2, -2, 3, -3, 5, -5, 7, -7])
        return str(m), Fraction(m)

    def add(op, d, gx, gy, tag):
        d = tuple(d) + (0,) * (3 - len(d))
        nx, ny, no = C9.sizes(op, d)
        inplace = op == "T1"
        X = [gx() for _ in range(nx)]
        Y = [gy() for _ in range(ny)]
        O = [gx() for _ in range(no)] if inplace else [(str(v), Fraction(v)) for v in (rng.randint(1000, 9999) for _ in range(no))]
        line = " ".join([op] + [str(v) for v in d] + [str(nx)] + [t for t, _ in X] + [str(ny)] + [t for t, _ in Y] + [str(no)] + [t for t, _ in O])
        fn = "a_real_" + op
        exp = {}
        for real, bits in MANT.items():
            Xr, Yr, Or = [rne(v, bits) for _, v in X], [rne(v, bits) for _, v in Y], [rne(v, bits) for _, v in O]
            val = C9.expected(op, d, Xr, Yr, Or)
            if op in C9.OPS3:
                mag = C9.expected(op, d, [abs(v) for v in Xr], [abs(v) for v in Yr], Or)
                k = {"mulmm": d[1], "mulTm": d[0], "mulmT": d[2], "mulTT": d[1]}[op]
                # every partial sum, in any order, is an integer multiple of the common unit below 2^64 times it: exact in this format
                unit = min([Fraction(1)] + [abs(v) / (abs(v).numerator) for v in Xr + Yr if v])
                fits = all(mg / (unit * unit) < 1 << bits for mg in mag) and all(v.denominator == 1 for v in Xr + Yr)
                if fits:
                    e_ = E(fn, val)
                else:
                    e_ = P(fn, [S(v, mg, k + 1) for v, mg in zip(val, mag)])
            else:
                e_ = E(fn, [Fraction(v) for v in val])
            exp[real] = e_ + E("a_real_%s (input arrays unchanged)" % op, [1])
        cases.append(Case(line, fn, exp,
                          {"routine": fn, "dimensions in parameter order": list(d[:1] if op in C9.OPS1 else d[:2] if op in C9.OPS2 else d),
                           "X": [t for t, _ in X], "Y": [t for t, _ in Y], "initial contents of the result array": [t for t, _ in O], "class": tag,
                           "note": "every configuration reads the entries rounded to nearest in its own a_real; the expectation is computed from the values as read"}))
        count[tag] = count.get(tag, 0) + 1

    reps = 2 * scale
    for rep in range(reps):
        for op in C9.OPS3:
            for d in [(1, 1, 1), (2, 2, 2), (2, 3, 2), (3, 2, 4), (1, 4, 3), (4, 1, 2), (3, 3, 1), (4, 4, 4), (2, 5, 3), (5, 3, 2)]:
                add(op, d, wide, wide, "precision: products, 64-bit mantissas")
                add(op, d, int60, tiny, "precision: products, X 60-bit integers, Y at most 3 bits (exact in long double)")
                add(op, d, tiny, int60, "precision: products, Y 60-bit integers, X at most 3 bits (exact in long double)")
        for op in C9.MOVE_OPS if hasattr(C9, "MOVE_OPS") else ["T1", "T2", "triL", "triL1", "triL2", "triU", "triU1", "triU2", "diag", "diag1", "diag2"]:
            for d in ([(2,), (3,), (5,)] if op in C9.OPS1 else [(2, 3), (3, 2), (4, 4), (1, 5)]):
                add(op, d, wide, wide, "precision: copy / move kernels, 64-bit mantissas, exact copy demanded")
    return count


def gen_C09(rng, scale):
    """Every kernel of src/linalg.c on integer data.  The expectation is checks/C09.py `expected` - the property's own statement of
    each routine on exact integers - imported, not copied.  Contents are small enough that every product and every partial sum of
    a product kernel, in any order, is an integer below 2^24 (checked here), so all three builds must print exactly these integers."""
    import importlib
    C9 = importlib.import_module("checks.C09")
    cases, nshape = [], {}

    def add(op, d, kind, tag):
        c = C9.make_case(rng, op, d, kind, tag)
        if op in C9.OPS3:
            # sum of |x||y| bounds every partial sum of every cell whatever the order of accumulation
            big = max(C9.expected(op, c.d, [abs(v) for v in c.X], [abs(v) for v in c.Y], c.O) or [0])
            if big >= 1 << 24:
                c = C9.make_case(rng, op, d, "small", tag)
        assert all(abs(v) < 1 << 24 for v in c.X + c.Y + c.O)
        exp = E("a_real_" + op, C9.expected(op, c.d, c.X, c.Y, c.O)) + E("a_real_%s (input arrays unchanged)" % op, [1])
        cases.append(Case(c.line(), "a_real_" + op, exp,
                          {"routine": "a_real_" + op, "dimensions in parameter order": list(c.dims_used()), "X": c.X, "Y": c.Y,
                           "initial contents of the result array": c.O, "class": tag}))
        nshape[tag] = nshape.get(tag, 0) + 1

    hi = 5 if scale == 1 else 7
    reps = 1 if scale == 1 else 3
    for rep in range(reps):
        for op in C9.OPS1:
            for n in range(0, hi + 1):
                for kind in ("small", "canon"):
                    add(op, (n,), kind, "box")
            for n in TILE_EDGE:
                add(op, (n,), "canon" if rep == 0 else "small", "tile-edge")
        for op in C9.OPS2:
            for m in range(0, hi + 1):
                for n in range(0, hi + 1):
                    add(op, (m, n), "small", "box")
                    if rep == 0:
                        add(op, (m, n), "canon", "box")
            for big in TILE_EDGE:
                for small in (1, 3):
                    add(op, (small, big), "canon" if rep == 0 else "small", "tile-edge")
                    add(op, (big, small), "canon" if rep == 0 else "small", "tile-edge")
        for op in C9.OPS3:
            for d1 in range(0, hi + 1):
                for d2 in range(0, hi + 1):
                    for d3 in range(0, hi + 1):
                        add(op, (d1, d2, d3), "small" if (d1 + d2 + d3 + rep) % 3 else "canon", "box")
            for big in TILE_EDGE:
                for s1, s2 in ((1, 1), (3, 3), (1, 3), (3, 1)):
                    for d in ((big, s1, s2), (s1, big, s2), (s1, s2, big)):
                        add(op, d, "small" if (big + s1 + rep) % 2 else "canon", "tile-edge")
    nprec = prec_C09(rng, C9, cases, scale)
    return cases, ("C09: precision cases (%s): " % nprec +
                   "entries with full 64-bit mantissas (hex-float text, magnitudes 1/4..4; each configuration reads them rounded to nearest "
                   "in its own a_real, modelled here, so every build works on full mantissas of its own format): the copy / move kernels (T1, "
                   "T2, diag*, triL*, triU*) must reproduce the values as read EXACTLY in every configuration; the four products must agree "
                   "with the exact rational sum of products of the values as read within 2 x (inner dimension + 1) x machine epsilon of the "
                   "configuration x sum of |products| - a `double` local in the long double build (or a `float` one in the double build) "
                   "exceeds that by orders of magnitude; a second class gives one operand 60-bit odd integers and the other integers of at "
                   "most 3 bits (both ways round), so that every product and sum is exact in long double, where exactly the integers are "
                   "demanded.  "
                   "C09: all %d kernels of src/linalg.c (%s); every shape with dimensions 0..%d and the tile-edge shapes (one dimension 1 or 3 - "
                   "for the square routines the order itself - the other 15..17 and 31..33): %s; integer contents (-9..9 or distinct "
                   "positive values), stale values in the result array, each array a block of exactly its size with guard bytes "
                   "around it in one allocation per case; expectation = checks/C09.py expected() (the exact integer definition the "
                   "main check uses), inputs must be unchanged" % (len(C9.ALL_OPS), " ".join(C9.ALL_OPS), hi, nshape))


GENERATORS.update({"C09": gen_C09})


# ------------------------------------------------------------------------------------------------------------ C08
# The documented algorithms, generic in the number class: X (exact case: every intermediate must fit binary32, else Inexact) or
# S (precision case: exact value, size of the terms, depth).  They QUALIFY a case (X) or give the allowance of a precision
# case (S); the expectations of the exact cases come from the constructed factors and from fr_solve / fr_det below
# (exact rational Gaussian elimination on the ORIGINAL matrix), not from these.
def _nabs(x):
    return S(abs(x.v), x.m, x.d) if isinstance(x, S) else abs(x)


def _nzero(x):
    """the pivot test `|x| < A_REAL_MIN` of an exact / precision case: an exact zero fails, anything else is far above the threshold"""
    return x.cmp(0) == 0 if isinstance(x, S) else x == 0


def _nsqrt(x):
    return ssqrt(x) if isinstance(x, S) else xsqrt(x)


def la_plu(N, n, A0):
    """a_real_plu: for every column the FIRST entry of largest magnitude on or below the diagonal is the pivot (strict >), the
    rows are exchanged (permutation entry and sign with them), multipliers stored below the diagonal.
    Returns (rc, p, sign, storage, a tie between candidates of a pivot search was seen)."""
    A = [N(v) for v in A0]
    p, sign, tie = list(range(n)), 1, False
    for i in range(n):
        mi, mx = i, A[n * i + i]
        ax = _nabs(mx)
        for r in range(i + 1, n):
            v = A[n * r + i]
            av = _nabs(v)
            if av > ax:
                ax, mx, mi = av, v, r
            elif N is X and av == ax and not ax == 0:
                tie = True
        if _nzero(ax):
            return 1, p, sign, A, tie
        if mi != i:
            p[i], p[mi] = p[mi], p[i]
            sign = -sign
            for c in range(n):
                A[n * i + c], A[n * mi + c] = A[n * mi + c], A[n * i + c]
        for r in range(i + 1, n):
            x = A[n * r + i] / mx
            for c in range(i + 1, n):
                A[n * r + c] = A[n * r + c] - A[n * i + c] * x
            A[n * r + i] = x
    return 0, p, sign, A, tie


def la_ldl(N, n, A0):
    A = [N(v) for v in A0]
    for c in range(n):
        for i in range(c):
            A[n * c + c] = A[n * c + c] - A[n * c + i] * A[n * c + i] * A[n * i + i]
        if _nzero(A[n * c + c]):
            return 1, A
        for r in range(c + 1, n):
            for i in range(c):
                A[n * r + c] = A[n * r + c] - A[n * r + i] * A[n * c + i] * A[n * i + i]
            A[n * r + c] = A[n * r + c] / A[n * c + c]
    return 0, A


def la_llt(N, n, A0):
    A = [N(v) for v in A0]
    for r in range(n):
        for c in range(r):
            for i in range(c):
                A[n * r + c] = A[n * r + c] - A[n * r + i] * A[n * c + i]
            A[n * r + c] = A[n * r + c] / A[n * c + c]
        for i in range(r):
            A[n * r + r] = A[n * r + r] - A[n * r + i] * A[n * r + i]
        d = A[n * r + r]
        if (d.cmp(0) <= 0) if isinstance(d, S) else d <= 0:
            return 1, A
        A[n * r + r] = _nsqrt(d)
    return 0, A


def la_lower_unit(n, L, y, lo=0):
    """a_real_plu_lower, a_real_ldl_lower (lo = 0) and the forward sweep inside a_real_ldl_inv (rows and columns from lo)"""
    for r in range(lo, n):
        for c in range(lo, r):
            y[r] = y[r] - L[n * r + c] * y[c]


def la_plu_upper(n, U, x):
    for r in reversed(range(n)):
        for c in range(r + 1, n):
            x[r] = x[r] - U[n * r + c] * x[c]
        x[r] = x[r] / U[n * r + r]


def la_ldl_upper(n, L, x):
    for c in reversed(range(n)):
        x[c] = x[c] / L[n * c + c]
        for r in range(c + 1, n):
            x[c] = x[c] - L[n * r + c] * x[r]


def la_llt_lower(n, L, y, lo=0):
    for r in range(lo, n):
        for c in range(lo, r):
            y[r] = y[r] - L[n * r + c] * y[c]
        y[r] = y[r] / L[n * r + r]


def la_llt_upper(n, L, x):
    for c in reversed(range(n)):
        for r in range(c + 1, n):
            x[c] = x[c] - L[n * r + c] * x[r]
        x[c] = x[c] / L[n * c + c]


def la_derived(N, fam, n, F, p, sign, b0):
    """Every derived routine of one family on the factor storage F (list of N), in the driver's order.  Returns a dict
    routine -> list of N, or routine -> the exception (Inexact / Unstable) that disqualifies it on this matrix."""
    out = {}

    def attempt(names, fn):
        try:
            res = fn()
        except (Inexact, Unstable) as e:
            res = [e] * len(names)
        for k, v in zip(names, res):
            out[k] = v
    b = [N(v) for v in b0]
    if fam == "plu":
        def chain():
            v = [b[p[i]] for i in range(n)]
            ap = list(v)
            la_lower_unit(n, F, v)
            lo = list(v)
            la_plu_upper(n, F, v)
            return ap, lo, list(v), list(v)

        def inv():
            I = [None] * (n * n)
            col = []
            for c in range(n):
                col = [N(1 if p[r] == c else 0) for r in range(n)]
                la_lower_unit(n, F, col)
                la_plu_upper(n, F, col)
                for r in range(n):
                    I[n * r + c] = col[r]
            return col, I

        def det():
            r = N(sign)
            for i in range(n):
                r = r * F[n * i + i]
            return [[r]]
        attempt(["apply", "lower", "upper", "solve"], chain)
    else:
        lower, upper = (la_lower_unit, la_ldl_upper) if fam == "ldl" else (la_llt_lower, la_llt_upper)

        def chain():
            v = list(b)
            lower(n, F, v)
            lo = list(v)
            upper(n, F, v)
            return lo, list(v), list(v)

        def inv():
            I = [None] * (n * n)
            col = []
            for i in range(n):
                col = [N(1 if r == i else 0) for r in range(n)]
                lower(n, F, col, i)
                upper(n, F, col)
                for r in range(n):
                    I[n * r + i] = col[r]
            return col, I

        def det():
            r = N(1)
            for i in range(n):
                r = r * F[n * i + i]
            return [[r * r if fam == "llt" else r]]
        attempt(["lower", "upper", "solve"], chain)
    attempt(["scratch", "inv"], inv)
    attempt(["det"], det)
    return out


def fr_solve(n, A, B, k):
    """X with A X = B (A n x n, B n x k, row major lists of Fraction), exact Gaussian elimination; None when A is singular"""
    M = [[Fraction(A[n * r + c]) for c in range(n)] + [Fraction(B[k * r + j]) for j in range(k)] for r in range(n)]
    for i in range(n):
        piv = next((r for r in range(i, n) if M[r][i] != 0), None)
        if piv is None:
            return None
        M[i], M[piv] = M[piv], M[i]
        M[i] = [v / M[i][i] for v in M[i]]
        for r in range(n):
            if r != i and M[r][i] != 0:
                f = M[r][i]
                M[r] = [a - f * b for a, b in zip(M[r], M[i])]
    return [M[r][n + j] for r in range(n) for j in range(k)]


def fr_det(n, A):
    M = [[Fraction(A[n * r + c]) for c in range(n)] for r in range(n)]
    det = Fraction(1)
    for i in range(n):
        piv = next((r for r in range(i, n) if M[r][i] != 0), None)
        if piv is None:
            return Fraction(0)
        if piv != i:
            M[i], M[piv] = M[piv], M[i]
            det = -det
        det *= M[i][i]
        for r in range(i + 1, n):
            f = M[r][i] / M[i][i]
            if f:
                M[r] = [a - f * b for a, b in zip(M[r], M[i])]
    return det


def _perm_parity(p):
    s, seen = 1, [False] * len(p)
    for i in range(len(p)):
        j, ln = i, 0
        while not seen[j]:
            seen[j] = True
            j = p[j]
            ln += 1
        if ln and ln % 2 == 0:
            s = -s
    return s


def _mm(n, A, B):
    return [sum(A[n * r + k] * B[n * k + c] for k in range(n)) for r in range(n) for c in range(n)]


def _tr(n, A):
    return [A[n * c + r] for r in range(n) for c in range(n)]


def _eye(n):
    return [Fraction(1 if r == c else 0) for r in range(n) for c in range(n)]


def _lnref(diag, scale):
    """reference of a log-determinant: exactly 0 when every |d| is 1, else (binary64 value, size of the terms)"""
    if all(abs(d) == 1 for d in diag):
        return None
    logs = [math.log(abs(float(d))) for d in diag]
    return (scale * math.fsum(logs), scale * math.fsum(abs(v) for v in logs))


FAM_FN = {"plu": "a_real_plu", "ldl": "a_real_ldl", "llt": "a_real_llt"}
POW2 = [Fraction(1), Fraction(-1), Fraction(2), Fraction(-2), Fraction(4), Fraction(1, 2), Fraction(-1, 2), Fraction(1, 4)]


def c08_case(fam, n, A, b, tag, must_be, precision=False, selfcheck=None):
    """One case of a family on the matrix A (Fractions, row major) and right-hand side b.

    exact cases (precision False): the matrix comes with what its factorisation must be - must_be = None (failure expected:
    the matrix has an exactly vanishing / non-positive pivot) or (p, sign, storage) from the construction A = P^T L U,
    A = L D L^T, A = L L^T.  The documented algorithm is run on X numbers: Inexact anywhere in the factorisation drops the
    case (returns None), Inexact in a derived routine leaves that routine out (rmask).  Expected values of the derived
    routines: exact rational solves with the ORIGINAL matrix and with the constructed triangles.
    precision cases: everything from the algorithm on S numbers (value of the real-number algorithm, size of the terms, depth)."""
    fn = FAM_FN[fam]
    N = S if precision else X
    try:
        if fam == "plu":
            rc, p, sign, F, tie = la_plu(N, n, A)
        else:
            (rc, F), p, sign, tie = (la_ldl if fam == "ldl" else la_llt)(N, n, A), list(range(n)), 1, False
    except (Inexact, Unstable):
        return None
    desc = {"routine family": fn, "order": n, "A (row major)": [dec(v) for v in A], "b": [dec(v) for v in b], "class": tag}
    head = "%s %d" % (fam, n)
    nums = " ".join(hexf(v) for v in list(A) + list(b))
    if not precision:
        if must_be is None:
            if rc != 1:
                raise AssertionError("glue C08 generator: %s accepted by the reference algorithm: %s" % (tag, desc))
            desc["expected"] = "failure (return value 1): a pivot of this matrix vanishes / is not positive in exact arithmetic"
            return Case("%s 15 %s" % (head, nums), fn, E(fn, [1]), desc)
        ep, esign, eF = must_be
        if rc != 0 or tie or [v.v for v in F] != list(eF) or (fam == "plu" and (p != list(ep) or sign != esign)):
            if tie:
                return None
            raise AssertionError("glue C08 generator: the reference algorithm does not reproduce the constructed factors: %s" % desc)
    elif rc != 0:
        return None
    mode = (lambda f, vals: P(f, vals)) if precision else (lambda f, vals: E(f, [v.v if isinstance(v, X) else v for v in vals]))
    sim = la_derived(N, fam, n, F, p, sign, b)
    ok = lambda k: not isinstance(sim[k], Exception) and not any(isinstance(v, Exception) for v in sim[k])
    rmask = 8 | (1 if ok("solve") else 0) | (2 if ok("inv") else 0) | (4 if ok("det") else 0)
    Fv = [v.v for v in F]
    exp = E(fn, [0])
    if fam == "plu":
        exp += E(fn, [sign] + p)
    exp += mode(fn, F)
    one = Fraction(1)
    Lunit = [Fv[n * r + c] if c < r else Fraction(1 if r == c else 0) for r in range(n) for c in range(n)]
    Lfull = [Fv[n * r + c] if c <= r else Fraction(0) for r in range(n) for c in range(n)]
    Uppr = [Fv[n * r + c] if c >= r else Fraction(0) for r in range(n) for c in range(n)]
    diag = [Fv[n * i + i] for i in range(n)]
    sub = lambda M: [F[n * r + c] if M[n * r + c] == Fv[n * r + c] and M[n * r + c] != 0 and (r != c or M is not Lunit) else M[n * r + c]
                     for r in range(n) for c in range(n)]      # read-outs of a precision case keep the S of the cell they copy
    As = [A[n * max(r, c) + min(r, c)] for r in range(n) for c in range(n)] if fam != "plu" else list(A)      # what the routine reads
    if fam == "plu":
        Pm = [Fraction(1 if c == p[r] else 0) for r in range(n) for c in range(n)]
        exp += E(fn + "_P", Pm) + E(fn + "_P_", _tr(n, Pm)) + mode(fn + "_L", sub(Lunit)) + mode(fn + "_U", sub(Uppr))
    elif fam == "ldl":
        exp += mode(fn + "_L", sub(Lunit)) + mode(fn + "_D", [F[n * i + i] for i in range(n)])
    else:
        exp += mode(fn + "_L", sub(Lfull))
    if not precision:
        # independent expectations (exact rational), compared with the qualifying run where that ran
        if fam == "plu":
            Pb = [b[p[i]] for i in range(n)]
            y = fr_solve(n, Lunit, Pb, 1)
            x = fr_solve(n, As, b, 1)
            ind = {"apply": Pb, "lower": y, "upper": x, "solve": x}
            det = esign
        else:
            y = fr_solve(n, Lunit if fam == "ldl" else Lfull, b, 1)
            x = fr_solve(n, As, b, 1)
            ind = {"lower": y, "upper": x, "solve": x}
            det = 1
        for d in diag:
            det = det * d * (d if fam == "llt" else 1)
        inv = fr_solve(n, As, _eye(n), n)
        ind["inv"], ind["scratch"], ind["det"] = inv, [inv[n * r + n - 1] for r in range(n)], [det]
        if fr_det(n, As) != det:
            raise AssertionError("glue C08 generator: determinant of the constructed factors differs from the determinant of A: %s" % desc)
        for k, v in ind.items():
            if ok(k) and [q.v for q in sim[k]] != list(v):
                raise AssertionError("glue C08 generator: %s of the reference algorithm differs from the exact rational solution: %s" % (k, desc))
        val = lambda k: ind[k]
    else:
        val = lambda k: sim[k]
    if rmask & 1:
        for k in (["apply"] if fam == "plu" else []) + ["lower", "upper", "solve"]:
            exp += mode("%s_%s" % (fn, k), val(k))
    if rmask & 2:
        if fam == "plu":
            exp += mode(fn + "_inv", val("scratch"))
        else:
            exp += [(fn + "_inv", "?", None)] * n          # contents of the scratch vector: unspecified for ldl / llt
        exp += mode(fn + "_inv", val("inv")) + mode(fn + "_inv_", val("inv"))
    if rmask & 4:
        exp += mode(fn + "_det", val("det"))
    ln = _lnref(diag, 2 if fam == "llt" else 1)
    exp += E(fn + "_lndet", [0]) if ln is None else A_(fn + "_lndet", [ln])
    if fam != "llt":
        dsg = sign
        for d in diag:
            dsg = -dsg if d < 0 else dsg
        exp += E(fn + "_sgndet", [dsg])
    exp += E(fn + " (factor storage unchanged by the derived routines)", [1])
    if fam == "plu":
        exp += E(fn + "_apply (b unchanged)", [1])
    desc["derived routines run"] = ("all" if rmask == 15 else "read-outs, lndet, sgndet" + (", solve chain" if rmask & 1 else "") +
                                    (", inverses" if rmask & 2 else "") + (", det" if rmask & 4 else "") +
                                    " (the others would not be exact in binary32 on this matrix)")
    c = Case("%s %d %s" % (head, rmask, nums), fn, exp, desc)
    if selfcheck is not None and not precision and rmask == 15:
        selfcheck(fam, n, A, b, p, sign, Fv, Pm if fam == "plu" else None, ind, desc)
    return c


A_ = A      # the tolerance-mode constructor (the name A is a matrix inside c08_case)


def _c08_selfcheck_factory(stats):
    """The expectations of the exact cases, written in the line format of harness/C08/drv.c, must satisfy the property's own
    exact-rational oracle harness/C08/oracle.py (shape of the factors, reconstruction, residuals, determinant family)."""
    import sys
    hd = str(vlib.VERIF / "harness" / "C08")
    if hd not in sys.path:
        sys.path.insert(0, hd)
    import c08lib
    import oracle

    def bits(vals):
        return " ".join(c08lib.hx(c08lib.d2b(float(v))) for v in vals)

    def check(fam, n, A, b, p, sign, Fv, Pm, ind, desc):
        mask = {"plu": 1, "ldl": 2, "llt": 4}[fam]
        case = c08lib.Case.from_floats(mask, n, [float(v) for v in A], [float(v) for v in b], "glue")
        Lunit = [Fv[n * r + c] if c < r else Fraction(1 if r == c else 0) for r in range(n) for c in range(n)]
        if fam == "plu":
            lines = ["100 0 %d %s %s" % (sign, " ".join(str(i) for i in p), bits(Fv)), "101 " + bits(Pm), "102 " + bits(_tr(n, Pm)),
                     "103 " + bits(Lunit), "104 " + bits([Fv[n * r + c] if c >= r else 0 for r in range(n) for c in range(n)]),
                     "105 " + bits(ind["apply"]), "106 " + bits(ind["lower"]), "107 " + bits(ind["upper"]), "108 " + bits(ind["solve"]),
                     "109 " + bits(list(ind["scratch"]) + list(ind["inv"])), "110 " + bits(ind["inv"]), "111 " + bits(ind["det"]),
                     "113 %d" % (1 if ind["det"][0] > 0 else -1)]
        elif fam == "ldl":
            lines = ["200 0 " + bits(Fv), "201 " + bits(Lunit), "202 " + bits([Fv[n * i + i] for i in range(n)]),
                     "203 " + bits(ind["lower"]), "204 " + bits(ind["upper"]), "205 " + bits(ind["solve"]),
                     "206 " + bits(list(ind["scratch"]) + list(ind["inv"])), "207 " + bits(ind["inv"]), "208 " + bits(ind["det"]),
                     "210 %d" % (1 if ind["det"][0] > 0 else -1)]
        else:
            lines = ["300 0 " + bits(Fv), "301 " + bits([Fv[n * r + c] if c <= r else 0 for r in range(n) for c in range(n)]),
                     "303 " + bits(ind["lower"]), "304 " + bits(ind["upper"]), "305 " + bits(ind["solve"]),
                     "306 " + bits(list(ind["scratch"]) + list(ind["inv"])), "307 " + bits(ind["inv"]), "308 " + bits(ind["det"])]
        lines = [" ".join(l.split()) for l in lines]
        fails, _ = oracle.check(case, lines)
        stats["checked"] = stats.get("checked", 0) + 1
        if fails:
            raise AssertionError("glue C08 generator: harness/C08/oracle.py rejects the expectation of an exact case: %s: %s" % (fails[:3], desc))
    return check


def gen_C08(rng, scale):
    cases, stats, dropped = [], {}, {}
    selfcheck = _c08_selfcheck_factory(stats)
    half = lambda lo, hi, q: Fraction(rng.randint(lo * q, hi * q), q)

    def keep(c, tag):
        if c is None:
            dropped[tag] = dropped.get(tag, 0) + 1
        else:
            cases.append(c)
            stats[tag] = stats.get(tag, 0) + 1
        return c is not None

    def lower_unit(n, choices):
        return [rng.choice(choices) if c < r else Fraction(1 if r == c else 0) for r in range(n) for c in range(n)]

    def diagm(n, d):
        return [d[r] if r == c else Fraction(0) for r in range(n) for c in range(n)]

    MULT = [Fraction(0), Fraction(1, 2), Fraction(-1, 2), Fraction(1, 4), Fraction(-1, 4), Fraction(3, 4), Fraction(-3, 4)]
    LSET = [Fraction(0), Fraction(1, 2), Fraction(-1, 2), Fraction(1), Fraction(-1), Fraction(3, 2), Fraction(-2), Fraction(2), Fraction(1, 4)]
    INTS = [Fraction(v) for v in (1, -1, 2, 3, -3, 5, -5, 6, 7, -7)]
    per = 14 * scale

    # ---- exact, constructed from their factors
    for n in range(0, 7):
        k = 0
        while k < (2 if n == 0 else per):
            pow2 = k % 2 == 0          # power-of-two pivots: the inverse is dyadic too
            # A = P^T L U: |multipliers| < 1 strictly, so every pivot search has exactly one candidate of largest magnitude
            L = lower_unit(n, MULT)
            U = [(rng.choice(POW2 if pow2 else INTS) if r == c else half(-4, 4, rng.choice([1, 1, 2]))) if c >= r else Fraction(0)
                 for r in range(n) for c in range(n)]
            LU = _mm(n, L, U)
            p = list(range(n))
            rng.shuffle(p)
            A = [None] * (n * n)
            for i in range(n):
                A[n * p[i]:n * p[i] + n] = LU[n * i:n * i + n]
            x0 = [Fraction(rng.randint(-4, 4)) for _ in range(n)]
            b = [sum(A[n * r + c] * x0[c] for c in range(n)) for r in range(n)]
            F = [L[n * r + c] if c < r else U[n * r + c] for r in range(n) for c in range(n)]
            k += keep(c08_case("plu", n, A, b, "plu: A = P^T L U from dyadic factors", (p, _perm_parity(p), F), selfcheck=selfcheck), "plu-exact")
        k = 0
        while k < (2 if n == 0 else per):
            pow2 = k % 2 == 0
            L = lower_unit(n, LSET)
            D = [rng.choice(POW2 if pow2 else INTS) for _ in range(n)]
            A = _mm(n, _mm(n, L, diagm(n, D)), _tr(n, L))
            x0 = [Fraction(rng.randint(-4, 4)) for _ in range(n)]
            b = [sum(A[n * r + c] * x0[c] for c in range(n)) for r in range(n)]
            F = [L[n * r + c] if c < r else (D[r] if r == c else A[n * r + c]) for r in range(n) for c in range(n)]
            k += keep(c08_case("ldl", n, A, b, "ldl: A = L D L^T from dyadic factors", (None, 1, F), selfcheck=selfcheck), "ldl-exact")
        k = 0
        while k < (2 if n == 0 else per):
            pow2 = k % 2 == 0
            L = [(rng.choice([Fraction(1), Fraction(2), Fraction(4), Fraction(1, 2)] if pow2 else [Fraction(1), Fraction(3), Fraction(5), Fraction(3, 2), Fraction(6)])
                  if r == c else rng.choice(LSET)) if c <= r else Fraction(0) for r in range(n) for c in range(n)]
            A = _mm(n, L, _tr(n, L))
            x0 = [Fraction(rng.randint(-4, 4)) for _ in range(n)]
            b = [sum(A[n * r + c] * x0[c] for c in range(n)) for r in range(n)]
            F = [L[n * r + c] if c <= r else A[n * r + c] for r in range(n) for c in range(n)]
            k += keep(c08_case("llt", n, A, b, "llt: A = L L^T from a dyadic factor", (None, 1, F), selfcheck=selfcheck), "llt-exact")

    # ---- failure: an exactly vanishing pivot (zero column, zero row, duplicated / power-of-two scaled rows, A = L U with a zero on the
    #      diagonal of U), a zero LDL^T pivot, a non-positive Cholesky pivot; all arithmetic up to the failing step exact
    for n in range(1, 7):
        k = tries = 0
        while k < 4 * scale and tries < 400:
            tries += 1
            kind = ("zero column", "zero row", "duplicated row", "row scaled by a power of two", "rank-deficient product")[(k + tries) % 5 if n > 1 else tries % 2]
            # entries +-2^j and 0: the multipliers of the first steps are dyadic; a matrix on which a later step is not is dropped
            A = [rng.choice([Fraction(0), Fraction(1), Fraction(-1), Fraction(2), Fraction(-2), Fraction(4), Fraction(1, 2)]) for _ in range(n * n)]
            if kind == "zero column":
                j = rng.randrange(n)
                for r in range(n):
                    A[n * r + j] = Fraction(0)
            elif kind == "zero row":
                j = rng.randrange(n)
                A[n * j:n * j + n] = [Fraction(0)] * n
            elif kind in ("duplicated row", "row scaled by a power of two"):
                i, j = rng.sample(range(n), 2)
                f = Fraction(1) if kind == "duplicated row" else rng.choice([Fraction(2), Fraction(-1), Fraction(1, 2), Fraction(-4)])
                A[n * j:n * j + n] = [f * v for v in A[n * i:n * i + n]]
            else:
                L = lower_unit(n, MULT)
                U = [(Fraction(rng.choice([1, -2, 3])) if r == c else Fraction(rng.randint(-3, 3))) if c >= r else Fraction(0) for r in range(n) for c in range(n)]
                j = rng.randrange(n)
                U[n * j + j] = Fraction(0)
                A = _mm(n, L, U)
            if fr_det(n, A) != 0:
                raise AssertionError("glue C08 generator: singular class %s is not singular" % kind)
            k += keep(c08_case("plu", n, A, [Fraction(rng.randint(-3, 3)) for _ in range(n)], "plu failure: " + kind, None), "plu-singular")
        for k in range(3 * scale):
            L = lower_unit(n, [Fraction(v) for v in (-2, -1, 0, 1, 2)])
            D = [Fraction(rng.choice((-3, -2, -1, 1, 2, 4))) for _ in range(n)]
            D[rng.randrange(n)] = Fraction(0)
            A = _mm(n, _mm(n, L, diagm(n, D)), _tr(n, L))
            keep(c08_case("ldl", n, A, [Fraction(rng.randint(-3, 3)) for _ in range(n)], "ldl failure: A = L D L^T with a zero in D", None), "ldl-singular")
        for k in range(3 * scale):
            L = lower_unit(n, [Fraction(v) for v in (-2, -1, 0, 1, 2)])
            D = [Fraction(rng.choice((1, 4, 16))) for _ in range(n)]
            D[rng.randrange(n)] = Fraction(rng.choice((0, -1, -4, -3)))
            A = _mm(n, _mm(n, L, diagm(n, D)), _tr(n, L))
            keep(c08_case("llt", n, A, [Fraction(rng.randint(-3, 3)) for _ in range(n)],
                          "llt failure: A = L D L^T, squares in D before a non-positive entry", None), "llt-not-positive")

    # ---- the failure threshold |pivot| < A_REAL_MIN of each configuration: diag(1, t), diag(t, 1), (t) with t = 2^-e around
    #      FLT_MIN = 2^-126, DBL_MIN = 2^-1022, LDBL_MIN = 2^-16382.  A configuration reads t as the nearest value of its a_real
    #      (t itself down to its smallest subnormal 2^-149 / 2^-1074 / 2^-16445, else 0): below A_REAL_MIN the factorisation must
    #      fail, from A_REAL_MIN on it must succeed with the factors diag(1, t) (square root 2^-(e/2) for llt, e even)
    MINEXP = {4: (126, 149), 8: (1022, 1074), 16: (16382, 16445)}
    for e in (100, 125, 126, 127, 128, 140, 149, 150, 1000, 1021, 1022, 1023, 1024, 1060, 1074, 1075, 5000, 16381, 16382, 16383,
              16384, 16400, 16445, 16446):
        t = Fraction(1, 1 << e)
        for fam in ("plu", "ldl", "llt"):
            if fam == "llt" and e % 2:
                continue
            for shape in (0, 1, 2):
                n = 1 if shape == 2 else 2
                toks = {0: ["1", "0", "0", "T"], 1: ["T", "0", "0", "1"], 2: ["T"]}[shape]
                line = "%s %d 0 %s %s" % (fam, n, " ".join("0x1p-%d" % e if v == "T" else v for v in toks), " ".join(["0"] * n))
                exp = {}
                for real, (emin, esub) in MINEXP.items():
                    tv = t if e <= esub else Fraction(0)
                    if e > emin:
                        exp[real] = E(FAM_FN[fam], [1])
                    else:
                        d = Fraction(1, 1 << (e // 2)) if fam == "llt" else tv
                        st = {0: [1, 0, 0, d], 1: [d, 0, 0, 1], 2: [d]}[shape]
                        exp[real] = E(FAM_FN[fam], [0] + ([1] + list(range(n)) if fam == "plu" else []) + st + [1] + ([1] if fam == "plu" else []))
                cases.append(Case(line, FAM_FN[fam], exp,
                                  {"routine family": FAM_FN[fam], "order": n, "A (row major)": ["2^-%d" % e if v == "T" else v for v in toks],
                                   "class": "pivot threshold",
                                   "expected": "failure where 2^-%d < A_REAL_MIN of the configuration (float 2^-126, double 2^-1022, long double "
                                               "2^-16382), else success with the pivot as it is" % e}))
                stats["threshold"] = stats.get("threshold", 0) + 1

    # ---- precision: full 24-bit mantissas, strongly diagonally dominant (rows permuted for plu), orders 1..4
    for k in range(30 * scale):
        n = 1 + k % 4
        for fam in ("plu", "plu-triangular", "ldl", "llt"):
            Mx = [f24(rng, 2, 8, sign=(fam != "llt")) if r == c else f24(rng, 0.05, 1) for r in range(n) for c in range(n)]
            if fam in ("ldl", "llt"):
                Mx = [Mx[n * max(r, c) + min(r, c)] for r in range(n) for c in range(n)]
            if fam == "plu-triangular":
                Mx = [Mx[n * r + c] if c >= r else Fraction(0) for r in range(n) for c in range(n)]
            A = list(Mx)
            if fam == "plu":
                p = list(range(n))
                rng.shuffle(p)
                for i in range(n):
                    A[n * p[i]:n * p[i] + n] = Mx[n * i:n * i + n]
            b = [f24(rng, 0.1, 4) for _ in range(n)]
            keep(c08_case(fam.split("-")[0], n, A, b, "precision: full 24-bit mantissas, diagonally dominant" +
                          (", upper triangular (the factor storage is A itself)" if fam == "plu-triangular" else ""), None, precision=True),
                 fam.split("-")[0] + "-precision")
    return cases, ("C08: a_real_plu / a_real_ldl / a_real_llt with every derived routine (P, P_, L, U / L, D / L read-outs, apply, lower, upper, "
                   "solve, inv with its scratch vector, inv_ - which runs the strided lower_/upper_ -, det, lndet, sgndet), orders 0..6; "
                   "exact cases are constructed from their factors (A = P^T L U with |multipliers| < 1 so that every pivot search has "
                   "one answer, A = L D L^T, A = L L^T; power-of-two or small-integer pivots; b = A x for an integer x) and expected to "
                   "return exactly those factors, the exact rational solutions / inverse of the original matrix and the exact "
                   "determinant; the documented algorithm is run here on exact fractions and a case (or one derived routine of it) is "
                   "dropped unless every intermediate fits %d bits; the expectations of all exact cases with every routine enabled were "
                   "accepted by the property's oracle harness/C08/oracle.py (%d cases); failure cases: zero column / row, duplicated or "
                   "scaled rows, a zero on the diagonal of U or D, a non-positive Cholesky pivot - return value 1; threshold cases: a "
                   "pivot 2^-e on either side of A_REAL_MIN of each configuration (expected return value depends on the configuration); "
                   "lndet is exact (0) when every pivot is +-1, otherwise compared with a binary64 reference within 1e-5 x size of the "
                   "terms + 1e-6 (float) / 1e-9 + 1e-12 (double, long double); precision cases as described above.  Cases by class: %s; "
                   "dropped for inexactness / unstable comparisons: %s" % (BITS, stats.get("checked", 0),
                                                                        {k: v for k, v in stats.items() if k != "checked"}, dropped))


GENERATORS.update({"C08": gen_C08})
