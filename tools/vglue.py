"""Glue around the modelled numeric cores of C12-C16 (DIFFERENTIAL TESTS, not theorems).

The Rocq models, the translator ties and the bit-exact correspondence of checks/C12.py .. C16.py cover the C API built with
a_real = double.  Two kinds of code sit around those cores and are covered here:

  cxx_wrappers(ctx, pid)   the C++ member functions the public headers add to their structs (`#if defined(__cplusplus)` inside
                           the struct).  harness/glue/cxx_<ID>.cpp calls every member on a generated object and the C function it
                           stands for on a byte-identical copy and compares all observable state bit for bit (returned value,
                           every field, caller-owned arrays).  The set of members is read from the header on every run (clang's
                           JSON AST in C++ mode and, independently, a regular expression); a member that is not in the harness's
                           table is reported through ctx.tie_broken as an "uncovered member".
  config_sweep(ctx, pid)   the non-default floating-point configurations.  harness/glue/cfg_<ID>.c is generic in a_real and is
                           built three times (A_SIZE_REAL 4, 8, 16) with ASan+UBSan from the current tree.  The cases are small
                           integers / dyadic rationals for which EVERY intermediate result of the documented equations is exactly
                           representable in binary32 (checked here with exact fractions, class X), so that all three builds must
                           print exactly the numbers computed here from the property's own statement.  Caller-owned arrays live in
                           one guarded pool (harness/glue/cfg_common.h).  What cannot be exact (pi, exp, pow, sqrt, the 1/6 of
                           the septic) is compared with a reference computed here, or between the configurations, with a tolerance
                           suited to float (1e-5 relative + 1e-6 absolute) on well-conditioned arguments only.

A difference is a VIOLATION with the failing case as replay (key "<function>/config-<real size>" or "<struct>::<member>/cxx-wrapper").
"""
import json
import math
import random
import re
import time
from concurrent.futures import ThreadPoolExecutor
from fractions import Fraction

import fcorr
import vlib

G = vlib.VERIF / "harness" / "glue"

# property -> headers whose structs / `namespace a` may carry C++ members
HEADERS = {
    "C12": ["pid.h", "pid_neuro.h", "pid_fuzzy.h"],
    "C13": ["mf.h", "fuzzy.h", "pid_fuzzy.h"],
    "C14": ["trajtrap.h", "trajbell.h"],
    "C15": ["trajpoly3.h", "trajpoly5.h", "trajpoly7.h", "poly.h"],
    "C16": ["tf.h", "lpf.h", "hpf.h"],
}
# library sources the harnesses link (compiled as C from the current tree)
SRCS = {
    "C12": ["pid.c", "pid_neuro.c", "pid_fuzzy.c", "mf.c", "fuzzy.c", "math.c", "a.c"],
    "C13": ["pid.c", "pid_fuzzy.c", "mf.c", "fuzzy.c", "math.c", "a.c"],
    "C14": ["trajtrap.c", "trajbell.c", "math.c", "a.c"],
    "C15": ["trajpoly3.c", "trajpoly5.c", "trajpoly7.c", "poly.c", "math.c", "a.c"],
    "C16": ["tf.c", "math.c", "a.c"],
}
REALNAME = {4: "float", 8: "double", 16: "long double"}
MAX_REPORTS = 5
# runs against a scratch copy (VERIF_REPO) use their own binaries, so that they never race with a run on /repo
TREE = "" if str(vlib.REPO) == "/repo" else "_" + __import__("hashlib").sha1(str(vlib.REPO).encode()).hexdigest()[:6]


# =====================================================================================================================
# A. C++ member wrappers
# =====================================================================================================================
def _members_regex(text):
    """(struct, member) pairs and `namespace a` functions found by a plain scan of the header text."""
    found, ns = set(), set()
    # struct bodies: `struct a_x {` or `typedef struct a_x {` up to the closing brace at the start of a line
    for m in re.finditer(r"^(?:typedef\s+)?struct\s+(a_\w+)\s*\{(.*?)^\}", text, flags=re.M | re.S):
        st, body = m.group(1), m.group(2)
        for blk in re.finditer(r"#\s*if\s+defined\s*\(\s*__cplusplus\s*\)(.*?)#\s*endif", body, flags=re.S):
            for f in re.finditer(r"^\s*(?:A_INLINE|inline|static|template\s*<[^>]*>)?[\w\s\*&:<>,]*?\b(operator\s*\(\s*\)|operator\s*[^\s\w(]+|~?\w+)\s*\("
                                 r"[^;{}]*\)\s*(?:const\s*)?(?:noexcept\s*)?\{", blk.group(1), flags=re.M):
                name = re.sub(r"\s+", "", f.group(1))
                if name not in ("if", "for", "while", "switch", "return", "sizeof"):
                    found.add((st, name))
    for m in re.finditer(r"namespace\s+a\s*\{(.*?)\}\s*/\*\s*namespace a\s*\*/", text, flags=re.S):
        for f in re.finditer(r"\b(\w+)\s*\([^;{}]*\)\s*(?:const\s*)?\{", m.group(1)):
            ns.add(("namespace a", f.group(1)))
    return found, ns


def _members_clang(ctx, header):
    """The same through clang's JSON AST of the header parsed as C++11: explicit methods of every record named a_*, functions
    declared inside `namespace a`.  Returns (members, namespace functions, callee map) or None when clang cannot parse it."""
    cfg = ctx.cfg_header(1, 8)
    rc, out, err = vlib.sh2(["clang++", "-std=c++11", "-x", "c++", "-I", str(vlib.REPO / "include"), '-DA_HAVE_H="%s"' % cfg,
                             "-fsyntax-only", "-Xclang", "-ast-dump=json", str(header)], timeout=120)
    if rc != 0 or not out.lstrip().startswith("{"):
        return None
    try:
        root = json.loads(out)
    except ValueError:
        return None
    found, ns, callee = set(), set(), {}

    def calls(node, acc):
        if isinstance(node, dict):
            if node.get("kind") == "DeclRefExpr" and node.get("referencedDecl", {}).get("kind") == "FunctionDecl":
                acc.append(node["referencedDecl"].get("name"))
            for c in node.get("inner", []) or []:
                calls(c, acc)

    def walk(node, in_ns_a):
        k = node.get("kind")
        if k == "CXXRecordDecl" and str(node.get("name", "")).startswith("a_"):
            for c in node.get("inner", []) or []:
                ck = c.get("kind")
                if c.get("isImplicit"):
                    continue
                if ck in ("CXXMethodDecl", "CXXConstructorDecl", "CXXDestructorDecl", "CXXConversionDecl"):
                    found.add((node["name"], c.get("name", ck)))
                    acc = []
                    calls(c, acc)
                    callee[(node["name"], c.get("name", ck))] = acc
                elif ck == "FunctionTemplateDecl":
                    found.add((node["name"], c.get("name", ck)))
        if k == "NamespaceDecl" and node.get("name") == "a":
            in_ns_a = True
        elif in_ns_a and k in ("FunctionDecl", "FunctionTemplateDecl") and not node.get("isImplicit"):
            ns.add(("namespace a", node.get("name", "?")))
        for c in node.get("inner", []) or []:
            if isinstance(c, dict):
                walk(c, in_ns_a)
    walk(root, False)
    return found, ns, callee


def header_members(ctx, pid):
    """{(struct, member)} of every header of the property, with how each was found; namespace-a functions likewise."""
    members, how, callee = {}, [], {}
    for h in HEADERS[pid]:
        p = vlib.REPO / "include" / "a" / h
        try:
            text = p.read_text()
        except OSError:
            ctx.tie_broken("glue: header include/a/%s is missing" % h)
            continue
        rx, rx_ns = _members_regex(text)
        cl = _members_clang(ctx, p)
        if cl is None:
            how.append("%s: regex only (clang++ could not parse the header as C++11)" % h)
            cl_m, cl_ns = set(), set()
        else:
            cl_m, cl_ns, ce = cl
            callee.update(ce)
            how.append("%s: clang AST %d, regex %d" % (h, len(cl_m) + len(cl_ns), len(rx) + len(rx_ns)))
        for sm in rx | rx_ns | cl_m | cl_ns:
            members.setdefault(sm, set()).add(h)
    return members, how, callee


def _c_objects(ctx, tag, srcs, real, flags):
    """Compile the library sources AS C (the shipped library is C, its consumers are C++) into build/<ID>/<tag>/*.o."""
    d = ctx.build / tag
    d.mkdir(parents=True, exist_ok=True)
    for f in d.glob("*.o"):
        f.unlink()
    cfg = ctx.cfg_header(1, real)
    cmd = ["gcc", "-std=c11"] + flags + ["-w", "-I", str(vlib.REPO / "include"), "-DA_EXPORTS", '-DA_HAVE_H="%s"' % cfg, "-c"] + \
          [str(vlib.REPO / "src" / s) for s in srcs]
    rc, o = vlib.sh(cmd, cwd=str(d), timeout=300)
    if rc != 0:
        raise vlib.CheckError("C build failed (%s):\n%s" % (" ".join(cmd), o[-3000:]))
    return sorted(str(f) for f in d.glob("*.o"))


def _cxx_build(ctx, pid, real):
    objs = _c_objects(ctx, "glue_obj_r%d%s" % (real, TREE), SRCS[pid], real, ["-O2", "-ffp-contract=off", "-fno-fast-math", "-fexcess-precision=standard"])
    return ctx.cc("glue_cxx_%s_r%d%s" % (pid, real, TREE), [G / ("cxx_%s.cpp" % pid)], mode="plain", real=real, cxx=True,
                  extra=["-ffp-contract=off", "-fno-fast-math"] + objs)


def cxx_wrappers(ctx, pid):
    t0 = time.time()
    members, how, callee = header_members(ctx, pid)
    reals = (8, 16) if ctx.quick else (8, 16, 4)
    n = 150 if ctx.quick else 1500
    bins = {}
    try:
        with ThreadPoolExecutor(max_workers=3) as ex:
            for real, b in zip(reals, ex.map(lambda r: _cxx_build(ctx, pid, r), reals)):
                bins[real] = b
    except vlib.CheckError as e:
        ctx.tie_broken("glue: the C++ wrapper harness harness/glue/cxx_%s.cpp no longer builds against the headers of the tree "
                       "(a member was removed, renamed or its signature changed?): %s" % (pid, " ".join(str(e).split())[-700:]))
        return
    # the table of the harness against the members present in the header
    rc, out = vlib.sh([str(bins[reals[0]]), "--list"], timeout=60)
    table = {}
    for ln in out.splitlines():
        t = ln.split()
        if len(t) == 4 and t[0] == "TABLE":
            table[(t[1], t[2])] = t[3]
    uncovered = sorted(sm for sm in members if sm not in table)
    stale = sorted(sm for sm in table if sm not in members)
    for st, mem in uncovered:
        ctx.tie_broken("glue: uncovered member %s::%s (include/a/%s): it is not in the table of harness/glue/cxx_%s.cpp, so nothing "
                       "compares it with the C API" % (st, mem, ",".join(sorted(members[(st, mem)])), pid))
    for st, mem in stale:
        ctx.tie_broken("glue: harness/glue/cxx_%s.cpp lists %s::%s but the headers %s no longer define it" % (pid, st, mem, HEADERS[pid]))
    # run
    seed = ctx.subseed("glue_cxx_" + pid) % (1 << 62)
    total, per_member, nrep, seen_keys = 0, {}, 0, set()
    for real in reals:
        cmd = [str(bins[real]), str(seed + real), str(n)]
        rc, out, err = vlib.sh2(cmd, timeout=600)
        diffs = [ln for ln in out.splitlines() if ln.startswith("DIFF ")]
        for ln in out.splitlines():
            t = ln.split()
            if t and t[0] == "COVERED" and len(t) == 6:
                per_member["%s::%s" % (t[1], t[2])] = per_member.get("%s::%s" % (t[1], t[2]), 0) + int(t[4])
                total += int(t[4])
            elif t and t[0] == "UNTESTED":
                ctx.tie_broken("glue: harness/glue/cxx_%s.cpp (%s): %s" % (pid, REALNAME[real], ln))
        by_member = {}
        for ln in diffs:
            m = re.match(r"DIFF (\S+?)::(\S+) args=(.*?) field=(\S+) cxx=(\S+) c=(\S+)$", ln)
            if m:
                by_member.setdefault((m.group(1), m.group(2)), []).append(m)
        for (st, mem), ms in by_member.items():
            key = "%s::%s/cxx-wrapper" % (st, mem)
            if key in seen_keys or nrep >= MAX_REPORTS:
                continue
            seen_keys.add(key)
            nrep += 1
            m = ms[0]
            ctx.report(key, "C++ member %s::%s(%s) leaves %s = %s, the C function it stands for (%s) leaves %s on an identical object "
                            "(a_real = %s; %d differing cells in this run)"
                       % (st, mem, m.group(3), m.group(4), m.group(5), table.get((st, mem), "?"), m.group(6), REALNAME[real], len(ms)),
                       {"member": "%s::%s" % (st, mem), "c_function": table.get((st, mem)), "arguments": m.group(3),
                        "differences": [x.group(0) for x in ms[:8]], "configuration": "A_SIZE_REAL=%d" % real,
                        "rerun": "%s   # built by tools/vglue.py cxx_wrappers from harness/glue/cxx_%s.cpp and the tree under test"
                                 % (" ".join(cmd), pid)})
        if rc not in (0, 1, 2) or (rc == 1 and not diffs):
            ctx.report("cxx-wrapper-harness/abort", "the C++ wrapper harness of %s aborted (rc=%d, a_real = %s): %s"
                       % (pid, rc, REALNAME[real], " ".join((err or out).split())[-600:]),
                       {"rerun": " ".join(cmd), "stderr": (err or "")[-1500:]})
    ctx.cov["glue_cxx_members"] = len(table)
    ctx.cov["glue_cxx_members_in_headers"] = len(members)
    ctx.cov["glue_cxx_trials"] = total
    ctx.cov["glue_cxx_trials_per_member"] = per_member
    ctx.cov["glue_cxx_configurations"] = [REALNAME[r] for r in reals]
    ctx.cov["glue_cxx_member_scan"] = how
    ctx.cov["glue_cxx_rule"] = ("differential test, not a theorem: every C++ member function of the structs of %s (list read from the "
                                "header by clang's C++ AST and by a regular expression on every run) is called on a generated object "
                                "and the C function it stands for on a byte-identical copy; %d trials per member and configuration, "
                                "arguments pairwise distinct, non-zero, full-width mantissas, defaulted arguments omitted and spelled "
                                "out; returned value, every field and every caller-owned array compared bit for bit"
                                % (", ".join("include/a/" + h for h in HEADERS[pid]), n))
    ctx.count(evaluations=total)
    ctx.assumptions.append("glue (C++ members): differential test on generated arguments, no proof; the C API is the reference")
    ctx.log("glue cxx_wrappers: %d members (%d in headers), %d trials, %d uncovered, %.1fs"
            % (len(table), len(members), total, len(uncovered), time.time() - t0))


# =====================================================================================================================
# B. configuration sweep
# =====================================================================================================================
BITS = 22       # mantissa budget of an exact case: two bits below binary32, so that a harmless re-association stays exact


class Inexact(Exception):
    pass


def fits(fr, bits=BITS):
    if fr == 0:
        return True
    n, d = abs(fr.numerator), fr.denominator
    if d & (d - 1):
        return False
    n >>= (n & -n).bit_length() - 1
    if n.bit_length() > bits:
        return False
    return Fraction(1, 1 << 90) <= abs(fr) <= (1 << 90)


class X:
    """A value of an exact case: a dyadic rational that fits binary32; every operation checks its result."""
    __slots__ = ("v",)

    def __init__(self, v):
        v = v.v if isinstance(v, X) else Fraction(v)
        if not fits(v):
            raise Inexact(str(v))
        self.v = v

    @staticmethod
    def _f(o):
        return o.v if isinstance(o, X) else Fraction(o)

    def __add__(self, o): return X(self.v + X._f(o))
    __radd__ = __add__
    def __sub__(self, o): return X(self.v - X._f(o))
    def __rsub__(self, o): return X(X._f(o) - self.v)
    def __mul__(self, o): return X(self.v * X._f(o))
    __rmul__ = __mul__

    def __truediv__(self, o):
        d = X._f(o)
        if d == 0:
            raise Inexact("division by zero")
        return X(self.v / d)

    def __rtruediv__(self, o):
        if self.v == 0:
            raise Inexact("division by zero")
        return X(X._f(o) / self.v)

    def __neg__(self): return X(-self.v)
    def __abs__(self): return X(abs(self.v))
    def __lt__(self, o): return self.v < X._f(o)
    def __le__(self, o): return self.v <= X._f(o)
    def __gt__(self, o): return self.v > X._f(o)
    def __ge__(self, o): return self.v >= X._f(o)
    def __eq__(self, o): return self.v == X._f(o)
    def __ne__(self, o): return self.v != X._f(o)
    def __hash__(self): return hash(self.v)
    def __repr__(self): return "X(%s)" % self.v


def xsqrt(x):
    """exact square root or Inexact"""
    v = X._f(x)
    if v < 0:
        raise Inexact("sqrt of a negative")
    n, d = v.numerator, v.denominator
    rn, rd = math.isqrt(n), math.isqrt(d)
    if rn * rn != n or rd * rd != d:
        raise Inexact("sqrt")
    return X(Fraction(rn, rd))


def sat(x, lo, hi):
    """#define A_SAT(x, min, max): min < x ? (x < max ? x : max) : min"""
    return (x if x < hi else hi) if lo < x else lo


def hexf(v):
    """C99 hex-float literal of a dyadic rational (exact)."""
    fr = X._f(v)
    f = float(fr)
    if Fraction(f) != fr:
        raise Inexact("not a double: %s" % fr)
    return f.hex()


def dec(fr):
    """exact decimal text of a dyadic rational (or a plain fraction text)"""
    fr = X._f(fr) if not isinstance(fr, (str, tuple)) else fr
    if isinstance(fr, (str, tuple)):
        return str(fr)
    d = fr.denominator
    if d & (d - 1):
        return "%d/%d" % (fr.numerator, d)
    k = d.bit_length() - 1
    n = fr.numerator * 5 ** k
    s = "%d" % abs(n)
    if k:
        s = s.rjust(k + 1, "0")
        s = (s[:-k] + "." + s[-k:]).rstrip("0").rstrip(".")
    return ("-" if n < 0 else "") + s


_HEX = re.compile(r"^(-?)0x([0-9a-f]*)\.?([0-9a-f]*)p([+-]?\d+)$")


def parse_tok(t):
    """output token -> Fraction | 'nan' | 'inf' | '-inf' | ('guard', text) | ('bad', text)"""
    if t.startswith("i") and (t[1:].lstrip("-").isdigit()):
        return Fraction(int(t[1:]))
    m = _HEX.match(t)
    if m:
        a, b = m.group(2), m.group(3)
        v = Fraction(int((a + b) or "0", 16)) * Fraction(2) ** (int(m.group(4)) - 4 * len(b))
        return -v if m.group(1) else v
    if t in ("nan", "-nan"):
        return "nan"
    if t in ("inf", "-inf"):
        return t
    if t.startswith("GUARD@"):
        return ("guard", t[6:])
    return ("bad", t)


class Case:
    """line: what the driver reads.  expect: [(function, mode, value)] aligned with the driver's output tokens;
    mode '=' exact, '~' within the float tolerance of value (a python reference), 'x' compared between the configurations
    (value None), '?' ignored.  desc: human-readable inputs for the replay.  post: optional (real, values)->message."""
    __slots__ = ("line", "fn", "expect", "desc", "post")

    def __init__(self, line, fn, expect, desc, post=None):
        self.line, self.fn, self.expect, self.desc, self.post = line, fn, expect, desc, post


def E(fn, vals):
    return [(fn, "=", X._f(v)) for v in vals]


def A(fn, vals):
    return [(fn, "~", v) for v in vals]


def close(real, got, ref):
    """tolerance suited to the configuration: float 1e-5 relative + 1e-6 absolute; double / long double against a binary64
    python reference 1e-9 relative + 1e-12 absolute"""
    if not isinstance(got, Fraction):
        return False
    rel, ab = (1e-5, 1e-6) if real == 4 else (1e-9, 1e-12)
    ref = Fraction(ref)
    return abs(got - ref) <= Fraction(rel) * abs(ref) + Fraction(ab)


def _build_cfg(ctx, pid, real):
    return ctx.cc("glue_cfg_%s_r%d%s" % (pid, real, TREE), [G / ("cfg_%s.c" % pid)], repo_srcs=SRCS[pid], mode="asan", real=real)


def run_cases(ctx, pid, cases, reals=(4, 8, 16)):
    """Build the driver for every configuration, run the cases, compare.  Returns {real: number of cases run}."""
    bins = {}
    try:
        with ThreadPoolExecutor(max_workers=3) as ex:
            for real, b in zip(reals, ex.map(lambda r: _build_cfg(ctx, pid, r), reals)):
                bins[real] = b
    except vlib.CheckError as e:
        ctx.tie_broken("glue: the configuration-sweep driver harness/glue/cfg_%s.c does not build in one of the configurations "
                       "A_SIZE_REAL=4/8/16: %s" % (pid, " ".join(str(e).split())[-700:]))
        return {}
    lines = [c.line for c in cases]
    outs, crashes = {}, {}

    def run_one(real):
        cr = []
        o = fcorr.run_c(bins[real], lines, crashes=cr, timeout=900)
        return real, o, cr
    with ThreadPoolExecutor(max_workers=3) as ex:
        for real, o, cr in ex.map(run_one, reals):
            outs[real], crashes[real] = o, cr
    nrep, seen = [0], set()

    def report(key, what, replay):
        if key in seen or nrep[0] >= MAX_REPORTS:
            return
        seen.add(key)
        nrep[0] += 1
        ctx.report(key, what, replay)

    def replay_of(c, real, got, i=None):
        exp = [("%s %s" % (m, dec(v) if isinstance(v, Fraction) else v)) for _, m, v in c.expect]
        return {"case_line": c.line, "inputs": c.desc, "configuration": "A_SIZE_REAL=%d (a_real = %s)" % (real, REALNAME[real]),
                "expected": exp, "got": [dec(g) if isinstance(g, Fraction) else str(g) for g in got], "first_difference_at_output": i,
                "rerun": "printf '%%s\\n' '%s' | %s   # driver harness/glue/cfg_%s.c built by tools/vglue.py with -DA_SIZE_REAL=%d, "
                         "-fsanitize=address,undefined from the tree under test" % (c.line, bins[real], pid, real)}

    parsed = {}
    for real in reals:
        crashed = {}
        for idx, msg in crashes[real]:
            crashed[idx] = msg
            if msg.startswith("skipped"):
                continue
            c = cases[idx]
            report("%s/config-%d" % (c.fn, real), "%s built with a_real = %s: the sanitizers abort the run on this case: %s"
                   % (c.fn, REALNAME[real], msg), dict(replay_of(c, real, []), stderr=msg))
        res = []
        for idx, c in enumerate(cases):
            if idx in crashed:
                res.append(None)
                continue
            toks = [parse_tok(t) for t in outs[real][idx]]
            guards = [t[1] for t in toks if isinstance(t, tuple) and t[0] == "guard"]
            bad = [t[1] for t in toks if isinstance(t, tuple) and t[0] == "bad"]
            vals = [t for t in toks if not isinstance(t, tuple)]
            res.append(vals)
            if bad:
                ctx.tie_broken("glue: driver cfg_%s (%s) printed %s for case %s" % (pid, REALNAME[real], bad[:3], c.line[:80]))
                continue
            if guards:
                where = guards[0].split(":")[0]
                fn = where if where.startswith("a_") else c.fn
                report("%s/config-%d" % (fn, real),
                       "%s built with a_real = %s writes outside the caller's array: guard cells of the pool damaged at %s "
                       "(block name, byte offset from its start, block size)" % (fn, REALNAME[real], guards[0]),
                       dict(replay_of(c, real, vals), damaged_guards=guards))
                continue
            if len(vals) != len(c.expect):
                report("%s/config-%d" % (c.fn, real), "%s built with a_real = %s: %d output values, %d expected"
                       % (c.fn, REALNAME[real], len(vals), len(c.expect)), replay_of(c, real, vals))
                continue
            for i, ((fn, mode, v), g) in enumerate(zip(c.expect, vals)):
                if mode == "=" and g != v:
                    report("%s/config-%d" % (fn, real),
                           "%s built with a_real = %s: output %d of the case is %s, the documented equations give exactly %s (every "
                           "intermediate of this case fits binary32); inputs %s"
                           % (fn, REALNAME[real], i, dec(g) if isinstance(g, Fraction) else g, dec(v), c.desc), replay_of(c, real, vals, i))
                    break
                if mode == "~" and not close(real, g, v):
                    report("%s/config-%d" % (fn, real),
                           "%s built with a_real = %s: output %d of the case is %s, the reference value is %r (tolerance %s); inputs %s"
                           % (fn, REALNAME[real], i, float(g) if isinstance(g, Fraction) else g, float(v),
                              "1e-5 rel + 1e-6 abs" if real == 4 else "1e-9 rel + 1e-12 abs", c.desc), replay_of(c, real, vals, i))
                    break
            else:
                if c.post:
                    why = c.post(real, vals)
                    if why:
                        report("%s/config-%d" % (c.fn, real), "%s built with a_real = %s: %s; inputs %s" % (c.fn, REALNAME[real], why, c.desc),
                               replay_of(c, real, vals))
        parsed[real] = res
    # between the configurations: float and long double against double
    if 8 in parsed:
        for real in reals:
            if real == 8:
                continue
            for idx, c in enumerate(cases):
                a, b = parsed[real][idx], parsed[8][idx]
                if a is None or b is None or len(a) != len(c.expect) or len(b) != len(c.expect):
                    continue
                for i, (fn, mode, v) in enumerate(c.expect):
                    if mode != "x":
                        continue
                    tol = 4 if real == 4 else 8
                    if not (isinstance(a[i], Fraction) and isinstance(b[i], Fraction) and close(4 if real == 4 else 8, a[i], b[i])):
                        report("%s/config-%d" % (fn, real),
                               "%s: output %d of the case is %s with a_real = %s but %s with a_real = double (well-conditioned arguments, "
                               "tolerance %s); inputs %s"
                               % (fn, i, float(a[i]) if isinstance(a[i], Fraction) else a[i], REALNAME[real],
                                  float(b[i]) if isinstance(b[i], Fraction) else b[i],
                                  "1e-5 rel + 1e-6 abs" if tol == 4 else "1e-9 rel + 1e-12 abs", c.desc),
                               dict(replay_of(c, real, a, i), double_build_output=[dec(g) if isinstance(g, Fraction) else str(g) for g in b]))
                        break
    return {real: len(cases) - len([1 for i, m in crashes[real]]) for real in reals}


def config_sweep(ctx, pid):
    t0 = time.time()
    rng = random.Random(ctx.subseed("glue_cfg_" + pid))
    scale = 1 if ctx.quick else 10
    cases, note = GENERATORS[pid](rng, scale)
    ran = run_cases(ctx, pid, cases)
    kinds = {}
    for c in cases:
        kinds[c.fn] = kinds.get(c.fn, 0) + 1
    nexact = sum(1 for c in cases if all(m in "=?" for _, m, _ in c.expect))
    ctx.cov["glue_cfg_cases_per_configuration"] = {REALNAME[r]: n for r, n in ran.items()}
    ctx.cov["glue_cfg_cases_by_entry_point"] = kinds
    ctx.cov["glue_cfg_exact_cases"] = nexact
    ctx.cov["glue_cfg_tolerance_cases"] = len(cases) - nexact
    ctx.cov["glue_cfg_rule"] = ("differential test, not a theorem: one driver generic in a_real built with A_SIZE_REAL = 4, 8, 16 and "
                                "-fsanitize=address,undefined from the current tree; exact cases (small integers / dyadic rationals, every "
                                "intermediate of the documented equations within %d bits of mantissa, computed here with exact fractions) "
                                "must print exactly the expected numbers in all three builds; caller-owned arrays in one pool with guard "
                                "bytes between and around them, histories pre-filled with the poison value 777; " % BITS + note)
    ctx.count(evaluations=sum(ran.values()))
    ctx.assumptions.append("glue (configurations): differential test on generated exact cases and toleranced comparisons, no proof; the "
                           "float and long double builds are not modelled in Rocq")
    ctx.log("glue config_sweep: %d cases x %d configurations (%d exact), %.1fs" % (len(cases), len(ran), nexact, time.time() - t0))


# ---------------------------------------------------------------------------------------------------------------------
# case generators (one per property)
# ---------------------------------------------------------------------------------------------------------------------
def dy(rng, lo, hi, q):
    """a multiple of 2^-q in [lo, hi]"""
    return Fraction(rng.randint(lo << q, hi << q), 1 << q)


def f32ish(rng, lo, hi):
    """a positive value in [lo, hi] with at most 12 significant bits (exact in every configuration)"""
    v = math.exp(rng.uniform(math.log(lo), math.log(hi)))
    m, e = math.frexp(v)
    return Fraction(int(m * 4096), 4096) * Fraction(2) ** e


# ------------------------------------------------------------------------------------------------------------ C16
def gen_C16(rng, scale):
    cases = []
    # transfer function: y(k) = sum num[i] u(k-i) - sum den[j] y(k-1-j), from zero state (delay lines most recent first)
    ntf = 0
    while ntf < 220 * scale:
        nn, nd = rng.choice([0, 1, 2, 3, 4, 6]), rng.choice([0, 1, 2, 3, 5])
        num = [dy(rng, -4, 4, rng.choice([0, 0, 1, 2])) for _ in range(nn)]
        den = [dy(rng, -1, 1, rng.choice([1, 2])) for _ in range(nd)]
        toks = ["tf", str(nn), str(nd)] + [hexf(v) for v in num + den]
        exp, desc_ops = [], []
        hu, hy = [Fraction(777)] * nn, [Fraction(777)] * nd

        def dump(fn):
            exp.extend(E(fn, hu + hy))
        plan = [0]
        for _ in range(rng.choice([1, 2, 3])):
            plan += [1] * rng.randint(1, 7)
            plan += rng.choice([[], [2], [5, 3, 4], [5, 4, 3], [3], [4]])
        steps = 0
        try:
            for op in plan:
                if op == 0:
                    hu, hy = [Fraction(0)] * nn, [Fraction(0)] * nd
                    toks.append("0")
                    dump("a_tf_init")
                elif op == 1:
                    u = dy(rng, -6, 6, rng.choice([0, 0, 1]))
                    hu2 = ([u] + hu)[:nn]
                    y = X(0)
                    for i in range(nn):
                        y = y + X(num[i]) * X(hu2[i])
                    for j in range(nd):
                        y = y - X(den[j]) * X(hy[j])
                    hu, hy = hu2, ([y.v] + hy)[:nd]
                    toks += ["1", hexf(u)]
                    exp.extend(E("a_tf_iter", [y]))
                    steps += 1
                elif op == 2:
                    hu, hy = [Fraction(0)] * nn, [Fraction(0)] * nd
                    toks.append("2")
                    dump("a_tf_zero")
                elif op == 3:
                    hu = [Fraction(0)] * nn
                    toks.append("3")
                    dump("a_tf_set_num")
                elif op == 4:
                    hy = [Fraction(0)] * nd
                    toks.append("4")
                    dump("a_tf_set_den")
                else:
                    hu, hy = [Fraction(777)] * nn, [Fraction(777)] * nd
                    toks.append("5")
                desc_ops.append(op)
        except Inexact:
            pass        # the history is cut before the first step whose result would not fit
        exp.extend(E("a_tf_iter", hu + hy))
        exp.extend(E("a_tf_init", [nn, nd, 1]))
        cases.append(Case(" ".join(toks), "a_tf_iter", exp,
                          {"num": [dec(v) for v in num], "den": [dec(v) for v in den], "ops": "0 init, 1 iter x, 2 zero, 3 set_num, 4 set_den, "
                           "5 refill both delay lines with 777: " + " ".join(toks[3 + nn + nd:])}))
        ntf += 1
    # low pass: out = (1 - alpha) out + alpha x ; high pass: out = alpha (out + x - x_prev)
    for k in range(110 * scale):
        alpha = rng.choice([Fraction(0), Fraction(1), Fraction(1, 2), Fraction(1, 4), Fraction(3, 4), Fraction(1, 8), Fraction(5, 8), Fraction(7, 8)])
        for nm in ("lpf", "hpf"):
            xs, outs = [], []
            out, xin = X(0), X(0)
            try:
                for _ in range(rng.randint(1, 14)):
                    x = X(dy(rng, -8, 8, rng.choice([0, 0, 1])))
                    if nm == "lpf":
                        o2 = out * (1 - X(alpha)) + x * X(alpha)
                    else:
                        o2 = X(alpha) * (out + x - xin)
                    out, xin = o2, x
                    xs.append(x)
                    outs.append(o2)
            except Inexact:
                pass
            fn = "a_%s_iter" % nm
            exp = E(fn, outs) + E("a_%s_init" % nm, [alpha]) + E(fn, [out] + ([xin if xs else 0] if nm == "hpf" else []))
            exp += E("a_%s_zero" % nm, [0] + ([0] if nm == "hpf" else []))
            cases.append(Case(" ".join([nm, hexf(alpha)] + [hexf(x) for x in xs]), fn, exp, {"alpha": dec(alpha), "inputs": [dec(x) for x in xs]}))
    # coefficient generators (pi: not exact): alpha_lp = ts / (1/(2 pi fc) + ts), alpha_hp = 1 / (2 pi fc ts + 1)
    for k in range(60 * scale):
        fc, ts = f32ish(rng, 0.1, 1000), f32ish(rng, 1e-4, 1)
        if not (1e-3 <= fc * ts <= 1e2):
            continue
        lp = float(ts) / (1 / (2 * math.pi * float(fc)) + float(ts))
        hp = 1 / (2 * math.pi * float(fc) * float(ts) + 1)
        exp = A("a_lpf_gen", [lp]) + A("a_hpf_gen", [hp]) + A("A_LPF_GEN", [lp]) + A("A_HPF_GEN", [hp]) + E("A_LPF_2", [0]) + E("A_HPF_2", [0, 0])
        cases.append(Case("gen %s %s" % (hexf(fc), hexf(ts)), "a_lpf_gen", exp, {"fc": dec(fc), "ts": dec(ts)}))
    return cases, ("C16: a_tf_init/set_num/set_den/iter/zero with orders 0..6 x 0..5 (delay lines re-poisoned before the setters), "
                   "a_lpf/a_hpf init/iter/zero exact; a_lpf_gen/a_hpf_gen and the A_LPF_2/A_HPF_2 initialisers use pi and are compared with "
                   "a binary64 reference (1e-3 <= fc*ts <= 1e2) within 1e-5 relative + 1e-6 absolute for float, 1e-9 + 1e-12 otherwise")


GENERATORS = {"C16": gen_C16}
