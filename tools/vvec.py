"""vvec: the translator tie of property C04 (vector and fixed buffer).

`vec_translate_and_tie(ctx)` regenerates the array-manipulating functions of src/vec.c and src/buf.c (c2vec.VEC_FUNCS /
c2vec.BUF_FUNCS) from the CURRENT sources with tools/c2vec.py into build/C04/gen_vec*/VecGen.v and compiles the tie files
harness/C04/TieVec*.v against it: every `Theorem tie_*` (generated function = hand-written proved model of coq/C04/VecDefs.v,
for every state and argument; the destructor-loop theorems under the stated part of the invariant) is one obligation;
`Print Assumptions` under each must say "Closed under the global context".  Failures go to ctx.tie_broken with the name of the
tie theorem.  Honours VERIF_REPO (vlib.REPO).

`start(ctx)` runs the whole thing in a worker thread (it touches nothing of ctx but ctx.build and ctx.cfg_header) and
`finish(ctx, handle)` books the result; checks/C04.py runs it beside the correspondence."""
import hashlib
import os
import re
import shutil
import threading
import time
from pathlib import Path

try:
    from tools import vlib
except ImportError:  # pragma: no cover
    import vlib
try:
    from tools import c2vec
except ImportError:  # pragma: no cover
    import c2vec

H = vlib.VERIF / "harness" / "C04"
# in compilation order (a later file may import an earlier one as Gen.<name>)
TIE_FILES = [H / "TieVec.v", H / "TieVecDtor.v", H / "TieVecLoops.v"]
FUEL_NOTE = ("growth loop of a_vec_setm on fuel 128, binary searches on 65, bubble loops on slots + 1 (the model's fuels); destructor, "
             "copy and a_swap loops on any fuel above their count")


def tie_files():
    return [f for f in TIE_FILES if f.exists()]


def first_error(out):
    m = re.search(r'line (\d+), characters [^\n]*\n((?:[^\n]*\n?){0,14})', out)
    if not m:
        return None, " ".join(out.split())[-400:]
    return int(m.group(1)), " ".join(m.group(2).split())[:500]


def owner_theorem(src, line):
    """(name of the lemma/theorem the line belongs to, tie theorem it serves = itself or the first `Theorem tie_` after it)"""
    lines = src.splitlines()
    name = None
    for i in range(min(line, len(lines)) - 1, -1, -1):
        m = re.match(r"\s*(?:Theorem|Lemma|Corollary|Definition|Fixpoint|Example|Fact|Remark|Proposition|Ltac)\s+([\w']+)", lines[i])
        if m:
            name = m.group(1)
            break
    if name and name.startswith("tie_"):
        return name, name
    # the tie theorem a lemma serves: the first one after it whose statement or proof mentions the lemma, else the first after it
    first = None
    i = max(line - 1, 0)
    while i < len(lines):
        m = re.match(r"\s*Theorem\s+(tie_[\w']+)", lines[i])
        if m:
            first = first or m.group(1)
            j = i
            while j < len(lines) and not re.match(r"\s*(Qed|Defined)\.", lines[j]):
                j += 1
            if name and re.search(r"(?<![\w'])%s(?![\w'])" % re.escape(name), "\n".join(lines[i:j + 1])):
                return name, m.group(1)
            i = j
        i += 1
    return name, first


def work(ctx, timeout=600):
    """-> dict(funcs, thms: [(file, name)], broken: [messages], discharged, text, sigs, seconds)"""
    t0 = time.time()
    funcs = list(c2vec.A_FUNCS) + list(c2vec.VEC_FUNCS) + list(c2vec.BUF_FUNCS)
    files = tie_files()
    srcs = {f: f.read_text() for f in files}
    thms = [(f, t) for f in files for t in re.findall(r"^\s*Theorem\s+(tie_[\w']+)", srcs[f], flags=re.M)]
    r = {"funcs": funcs, "thms": thms, "broken": [], "discharged": 0, "text": "", "sigs": {}, "files": files}
    names = [t for _, t in thms]
    for f in files:
        bad = ctx.scan_forbidden_text(srcs[f])
        if bad:
            r["broken"].append("forbidden construct in %s: %s" % (f, bad))
            return r
    missing = [fn for fn in funcs if "tie_" + fn not in names]
    if missing:
        r["broken"].append("the tie files %s have no tie theorem for: %s" % (", ".join(f.name for f in files), ", ".join(missing)))
        return r
    # a run against a scratch copy (VERIF_REPO) gets its own directory, and every run its own sub-directory: several may run at once
    scratch = "" if str(vlib.REPO) == "/repo" else "_" + hashlib.md5(str(vlib.REPO).encode()).hexdigest()[:8]
    top = ctx.build / ("gen_vec" + scratch)
    gd = top / ("run_%d" % os.getpid())
    if gd.exists():
        shutil.rmtree(gd, ignore_errors=True)
    gd.mkdir(parents=True, exist_ok=True)
    try:
        cfg = ctx.cfg_header()
        text, errs, sigs = c2vec.translate(vlib.REPO, str(Path(cfg).resolve()))
        r.update(text=text, sigs=sigs)
        (gd / "VecGen.v").write_text(text)
        (top / "VecGen.v").write_text(text)              # kept for inspection
        if errs:
            for k, v in errs.items():
                which = "tie_" + k if "tie_" + k in names else k
                r["broken"].append("translator c2vec: %s is outside the supported subset (tie theorem %s cannot be stated about the "
                                   "current source): %s" % (k, which, v))
            return r
        args = ["coqc", "-Q", str(vlib.COQ), "LibaV", "-Q", str(gd), "Gen", "-w", "none"]
        rc, out = vlib.sh(args + [str(gd / "VecGen.v")], cwd=gd, timeout=timeout)
        if rc != 0:
            r["broken"].append("generated functions VecGen.v do not compile: %s" % first_error(out)[1])
            return r
        for f in files:
            tf = gd / f.name
            tf.write_text(srcs[f])
            rc, out = vlib.sh(args + [str(tf)], cwd=gd, timeout=timeout)
            if rc != 0:
                line, msg = first_error(out)
                name, thm = owner_theorem(srcs[f], line) if line else (None, None)
                if thm and name and name != thm:
                    which = "tie theorem %s (its lemma %s)" % (thm, name)
                else:
                    which = "tie theorem %s" % (thm or name or "?")
                r["broken"].append("regenerated function no longer matches the proved model: %s of %s fails: %s" % (which, f.name, msg))
                own = [t for ff, t in thms if ff == f]
                r["discharged"] += own.index(thm) if thm in own else 0
                return r
            r["discharged"] += len([1 for ff, _ in thms if ff == f])
        paf = gd / "PA_TieVec.v"
        paf.write_text("From Gen Require Import %s.\n" % " ".join(f.stem for f in files) + "".join("Print Assumptions %s.\n" % t for t in names))
        rc, pa = vlib.sh(args + [str(paf)], cwd=gd, timeout=timeout)
        closed = len(re.findall(r"^Closed under the global context", pa, flags=re.M))
        if rc != 0 or closed < len(names):
            r["discharged"] = 0
            r["broken"].append("Print Assumptions under the tie theorems of %s: %d of %d closed: %s"
                               % (", ".join(f.name for f in files), closed, len(names), " ".join(pa.split())[-300:]))
        return r
    finally:
        r["seconds"] = round(time.time() - t0, 1)
        shutil.rmtree(gd, ignore_errors=True)


def start(ctx, timeout=600):
    box = {}

    def run():
        try:
            box["r"] = work(ctx, timeout)
        except Exception as e:  # noqa: BLE001 - reported as a broken tie by finish()
            box["error"] = "%s: %s" % (type(e).__name__, e)
    th = threading.Thread(target=run, name="vvec")
    th.start()
    return th, box


def finish(ctx, handle):
    """Returns True iff every tie theorem was accepted."""
    th, box = handle
    th.join()
    if "r" not in box:
        ctx.cov["obligations"] += 1
        ctx.tie_broken("translator tie of C04 (tools/vvec.py) did not run: %s" % box.get("error", "?"))
        return False
    r = box["r"]
    names = [t for _, t in r["thms"]]
    ctx.cov["obligations"] += len(names)
    ctx.cov.setdefault("translated_functions", []).extend(r["funcs"])
    ctx.cov["discharged"] += r["discharged"] if not r["broken"] else min(r["discharged"], len(names))
    ctx.cov["vec_tie"] = {"tie_files": [f.name for f in r["files"]], "tie_theorems": len(names), "accepted": r["discharged"],
                          "generated_loops": len(re.findall(r"^Fixpoint ", r["text"], flags=re.M)),
                          "generated_lines": r["text"].count("\n"), "seconds": r.get("seconds"),
                          "fuel": FUEL_NOTE}
    if r["broken"]:
        for b in r["broken"]:
            ctx.tie_broken(b)
        return False
    ctx.cov.setdefault("theorems", []).extend(names)
    ctx.cov["trusted_base"].append(
        "translator tools/c2vec.py (clang JSON AST -> Gallina over the vocabulary of C04/VecDefs.v: header fields in SSA style, a_size "
        "arithmetic mod 2^64, storage pointers as byte offsets, memmove/memcpy/a_swap/destructor calls through the model's checked "
        "accessors, a_alloc through the model's allocator with realloc = resize_slots, loops on fuel; a_copy/a_move recognised by "
        "their bodies in src/a.c); its output is re-tied on every run: %d tie theorems (generated function = proved model for every "
        "state and argument; destructor loops under the stated part of the invariant) accepted by coqc, all closed under the global "
        "context" % len(names))
    ctx.log("vector/buffer translator tie: %d functions regenerated, %d tie theorems accepted (%.1f s)"
            % (len(r["funcs"]), len(names), r.get("seconds") or 0))
    return True


def vec_translate_and_tie(ctx, timeout=600):
    return finish(ctx, start(ctx, timeout))
