#!/usr/bin/env python3
"""c2arr: translate the array loops of the numeric C code (clang JSON AST) into Gallina - loops as Fixpoints, NOT unrolled.

Supported subset (anything else raises Unsupported(function:line), which a check reports as a broken tie):
  * locals and parameters that are real scalars (a_real / double), integer counters (a_size, unsigned, a_diff, int), pointers into
    arrays of reals, and pointers to a struct whose members (only those the function touches) are of these kinds;
  * real arithmetic over `NumOps T`, rendered like tools/c2coq.py: `(add O a b)`, `(ltb O b a)` for `a > b`, literals in normal
    form (`ofZ O k`, `ofD O m e` with odd m), `(a_real)n` as `ofZ O (Z.of_nat n)`, fabs/sqrt as `abs O`/`sqrt O`, libm as fn1/fn2,
    isinf(x) as `x + x == x && x != 0`;
  * integer counters are `nat`.  What C would wrap is an ERROR of the generated program (None), never a wrapped value:
    `a + b`, `a * b`, `++a` are followed by `fits w` (the result is below 2^w, w from clang's type; w - 1 for signed types),
    `a - b` needs `b <= a`, `--a` needs `a <> 0`, `/` and `%` a non-zero divisor, a narrowing conversion `fits`.  The one idiom that
    relies on the wrap, a post-decrement that is only tested (`if (n--)`, `while (n--)`), becomes `match n with O => .. | S n' => ..`
    and the counter is unusable (a translation error if it is read) on the O side;
  * arrays are `list T`; a pointer is (array, offset : nat), the array being known at translation time.  Every pointer parameter gets
    an offset parameter `<p>_off`; pointer parameters that may overlap are put in one array by the `regions` option
    ({function: {parameter: array name}}), the others get an array of their own named like the parameter.  Loads are `nth_error`,
    stores the checked update `upd` (outside the list = None).  `p - k` with k above the offset is None (a pointer before its
    array); forming a pointer beyond the end is NOT checked (only accesses are) - the strided loops do it after their last pass;
  * `for`/`while`/`do` loops become `Fixpoint <fn>_loop<k>`.  When the loop test is the counter itself and the counter is
    decremented once per pass (`for (; n; --n, p += c)`, `while (n--)`), by structural recursion on that counter; otherwise on
    `fuel`, the call site passing `S (distance between the two sides of the test at loop entry)` (or the term given in the `fuel`
    option); running out of fuel is None.  The Fixpoint takes the variables and arrays the loop reads, then the arrays and variables
    it changes, and returns the changed ones that are still used afterwards; with a `return` in the loop, `inl state | inr result`;
  * a_copy / a_move / a_zero / a_fill(.., 0): their bodies in src/a.c are checked to be memcpy / memmove / memset, then they are the
    block operations `blk_move` (read all cells, then write: the hand models' reading of memcpy and memmove alike) and `blk_set`
    on a byte count that must be a multiple of the cell size; calls to functions translated earlier in the same run;
  * `if` without a jump inside joins the variables its arms change (`let '(..) := if c then .. else ..`), with a `return` inside
    the rest of the block is translated under both arms; `c ? a : b` with loads or checks in its arms becomes such an `if`;
    a cell read twice without a store to its array in between is read once, a cell just stored reads back as the value stored;
  * arrays of integers (`unsigned int *idx`) are `list nat`; members of members (`ctx->pid.kp`, `&ctx->pid` as an argument);
    a pointer member the function tests against NULL gets a flag parameter `<member>_null`, accesses through it outside an arm
    where the test has shown it non-null are checked; a member that is a pointer to a function of reals is a parameter
    `T -> .. -> T`, `ctx->opr(a, b)` applies it; a function that returns such a pointer returns the Gallina function;
  * `switch` on an integer (`s =? k`) or on `(int)real` (`k <= v < k + 1` for k >= 1, `-1 < v < 1` for 0; a value no label
    matches - NaN and values outside int included, where C is undefined - takes the default arm): a chain of tests, LARGEST label
    first, each arm running to its `break`, the statements after the switch under every arm; `goto L` where L labels the statement
    right after the enclosing loop leaves the loop, where L is a later statement of the function body it continues there;
  * the `signed` option names functions whose objects of SIGNED integer type (`int sign`, `int *sign`, the `int` return value) are
    carried in Z instead of nat, the unsigned ones staying nat: literals `1%Z`, unary minus, `+ - *` each followed by `zfits w`
    (the result is an int: overflow is an error as elsewhere), comparisons in Z, `(a_real)sign` as `ofZ O sign`, arrays `list Z`,
    conversions between the two kinds checked (a negative value to unsigned is None); a caller and a callee must agree on the
    kind of every signed parameter (both listed or neither), else Unsupported;
  * the `externs` option maps C functions of reals that have their own tie elsewhere to the Gallina terms they are rendered as.
Every function f becomes

  Definition gen_f {T} (O : NumOps T) <per C parameter: scalar | [array] offset | members of a struct parameter read> : option R

with R the tuple of: arrays that are not const (in parameter order), struct members written (declaration order), return value.
`None`: one of the errors above.  Nothing generated is trusted about the hand models: the tie theorems prove equality."""
import json
import math
import re
import subprocess
import sys
from fractions import Fraction

sys.setrecursionlimit(100000)

PRELUDE = """(* generated by tools/c2arr.py from the current sources - do not edit *)
From Coq Require Import ZArith NArith List Bool Arith.
From LibaV Require Import Common.NumOps.
Import ListNotations.

(* a counter value that is representable in w bits; the generated programs stop (None) when a result is not *)
Definition fits (w : N) (x : nat) : bool := (N.of_nat x <? 2 ^ w)%N.
(* the same for a signed object carried in Z (functions translated with the `signed` option): -2^(w-1) <= x < 2^(w-1) *)
Definition zfits (w : N) (x : Z) : bool := ((- 2 ^ (Z.of_N w - 1) <=? x) && (x <? 2 ^ (Z.of_N w - 1)))%Z.
(* checked store m[i] := v; None = outside the array *)
Definition upd {T} (m : list T) (i : nat) (v : T) : option (list T) :=
  if (i <? length m)%nat then Some (firstn i m ++ v :: skipn (S i) m) else None.
(* the len cells starting at off *)
Definition sub_ {T} (m : list T) (off len : nat) : option (list T) :=
  if (off + len <=? length m)%nat then Some (firstn len (skipn off m)) else None.
(* overwrite the cells starting at off with d *)
Definition blit {T} (m : list T) (off : nat) (d : list T) : option (list T) :=
  if (off + length d <=? length m)%nat then Some (firstn off m ++ d ++ skipn (off + length d) m) else None.
(* memcpy / memmove of `bytes` bytes, cells of esz bytes: all cells are read, then written *)
Definition blk_move {T} (md : list T) (d : nat) (ms : list T) (s : nat) (esz bytes : nat) : option (list T) :=
  if (bytes mod esz =? 0)%nat then
    match sub_ ms s (bytes / esz) with None => None | Some cells => blit md d cells end
  else None.
(* memset to the bit pattern of v *)
Definition blk_set {T} (m : list T) (d : nat) (v : T) (esz bytes : nat) : option (list T) :=
  if (bytes mod esz =? 0)%nat then blit m d (repeat v (bytes / esz)) else None.

"""

LIB1 = {"exp": "Exp", "log": "Log", "sin": "Sin", "cos": "Cos", "tan": "Tan", "atan": "Atan", "asin": "Asin",
        "acos": "Acos", "sinh": "Sinh", "cosh": "Cosh", "tanh": "Tanh", "expm1": "Expm1", "log1p": "Log1p", "floor": "Floor"}
LIB2 = {"pow": "Pow", "atan2": "Atan2", "hypot": "Hypot", "fmod": "Fmod"}
INT_TYPES = {
    "unsigned char": (8, False), "unsigned short": (16, False), "unsigned int": (32, False),
    "unsigned long": (64, False), "unsigned long long": (64, False),
    "char": (8, True), "signed char": (8, True), "short": (16, True), "int": (32, True),
    "long": (64, True), "long long": (64, True),
}
REAL_SIZES = {"double": 8, "float": 4}
RESERVED = {"at", "as", "in", "fun", "let", "if", "then", "else", "end", "match", "with", "return", "using", "for", "where",
            "fix", "cofix", "forall", "exists", "Type", "Prop", "Set", "fuel", "fits", "upd", "sub_", "blit", "blk_move", "blk_set",
            "tt", "true", "false", "Some", "None", "inl", "inr", "nat", "N", "Z", "list", "option", "length", "skipn", "firstn",
            "nth_error", "mod", "O", "S", "T", "add", "sub", "mul", "div", "opp", "abs", "sqrt", "ltb", "leb", "eqb", "ofZ", "ofD",
            "fn1", "fn2", "zero", "one", "repeat", "negb", "andb", "orb", "fst", "snd", "pair", "zfits"}
QUALS = ("const", "volatile", "restrict", "__restrict")


class Unsupported(Exception):
    pass


def load_ast(path, include, cfg, extra=()):
    if not str(path).startswith("/") or not str(include).startswith("/") or not str(cfg).startswith("/"):
        raise Unsupported("c2arr needs absolute paths: %s %s %s" % (path, include, cfg))
    cmd = ["clang", "-std=c11", "-I", str(include), '-DA_HAVE_H="%s"' % cfg, "-fsyntax-only", "-Xclang", "-ast-dump=json"] + list(extra) + [str(path)]
    p = subprocess.run(cmd, stdout=subprocess.PIPE, stderr=subprocess.PIPE, text=True)
    if p.returncode != 0 or not p.stdout:
        raise Unsupported("clang failed on %s: %s" % (path, p.stderr[-600:]))
    return json.loads(p.stdout)


def annotate_lines(node, last=None):
    """clang's JSON omits `line` when it repeats the previous one: carry it along in dump order"""
    last = last if last is not None else [0]

    def see(loc):
        if not isinstance(loc, dict):
            return
        for k in ("spellingLoc", "expansionLoc"):
            if k in loc:
                see(loc[k])
        if "line" in loc:
            last[0] = loc["line"]
    see(node.get("loc"))
    rng = node.get("range", {})
    see(rng.get("begin"))
    node["_line"] = last[0]
    see(rng.get("end"))
    for c in node.get("inner", []) or []:
        if isinstance(c, dict):
            annotate_lines(c, last)


def walk(n):
    if not isinstance(n, dict):
        return
    yield n
    for c in n.get("inner", []) or []:
        if isinstance(c, dict):
            yield from walk(c)


def strip(n):
    """drop parentheses and value-preserving casts"""
    while n.get("kind") in ("ParenExpr", "ConstantExpr") or \
            (n.get("kind") == "ImplicitCastExpr" and n.get("castKind") in ("LValueToRValue", "NoOp")):
        n = n["inner"][0]
    return n


def has_kind(n, kinds, stop=()):
    if not isinstance(n, dict) or not n:
        return False
    if n.get("kind") in kinds:
        return True
    if n.get("kind") in stop:
        return False
    return any(has_kind(c, kinds, stop) for c in n.get("inner", []) or [])


def has_jump(n):
    """a return anywhere, or a break/continue that leaves n"""
    if has_kind(n, ("ReturnStmt", "GotoStmt")):
        return True
    if has_kind(n, ("BreakStmt",), stop=("WhileStmt", "DoStmt", "ForStmt", "SwitchStmt")):
        return True
    return has_kind(n, ("ContinueStmt",), stop=("WhileStmt", "DoStmt", "ForStmt"))


def assigned_ids(nodes):
    ids = []
    for top in nodes:
        for n in walk(top):
            k = n.get("kind")
            tgt = None
            if (k == "BinaryOperator" and n.get("opcode") == "=") or k == "CompoundAssignOperator":
                tgt = strip(n["inner"][0])
            elif k == "UnaryOperator" and n.get("opcode") in ("++", "--"):
                tgt = strip(n["inner"][0])
            if tgt is not None and tgt.get("kind") == "DeclRefExpr" and tgt["referencedDecl"]["id"] not in ids:
                ids.append(tgt["referencedDecl"]["id"])
    return ids


def referenced_ids(nodes):
    ids = []
    for top in nodes:
        for n in walk(top):
            if n.get("kind") == "DeclRefExpr" and n["referencedDecl"].get("kind") in ("VarDecl", "ParmVarDecl"):
                if n["referencedDecl"]["id"] not in ids:
                    ids.append(n["referencedDecl"]["id"])
    return ids


def declared_ids(nodes):
    return [n["id"] for top in nodes for n in walk(top) if n.get("kind") == "VarDecl"]


def member_keys(nodes):
    """(decl id of the struct pointer, member name) of every `p->m` in the nodes"""
    keys = []
    for top in nodes:
        for n in walk(top):
            if n.get("kind") == "MemberExpr":
                k = member_path(n)
                if k is not None and k not in keys:
                    keys.append(k)
    return keys


def member_path(n):
    """`p->a.b` -> (decl id of p, 'a.b'); None when the expression is not a chain of members from a variable"""
    path = []
    while n.get("kind") == "MemberExpr":
        path.append(n["name"])
        n = strip(n["inner"][0])
    if n.get("kind") == "DeclRefExpr" and path:
        return (n["referencedDecl"]["id"], ".".join(reversed(path)))
    return None


# ---------------------------------------------------------------------------------------------- types
def unqual(q):
    return " ".join(w for w in q.replace("*", " * ").split() if w not in QUALS).replace(" *", "*").replace("* ", "*")


class TU:
    def __init__(self, ast):
        self.funcs, self.typedefs, self.records, self.sigs, self.enums = {}, {}, {}, {}, {}
        for n in ast.get("inner", []):
            kd = n.get("kind")
            if kd == "EnumDecl":
                nxt = 0
                for c in n.get("inner", []):
                    if c.get("kind") != "EnumConstantDecl":
                        continue
                    exprs = [x for x in c.get("inner", []) if isinstance(x, dict) and not x.get("kind", "").endswith("Comment")]
                    val = None
                    e = exprs[0] if exprs else None
                    while isinstance(e, dict) and e.get("kind") in ("ConstantExpr", "ImplicitCastExpr", "ParenExpr"):
                        if "value" in e:
                            break
                        e = e["inner"][0]
                    if isinstance(e, dict) and "value" in e and e.get("kind") in ("ConstantExpr", "IntegerLiteral"):
                        try:
                            val = int(e["value"])
                        except ValueError:
                            val = None
                    if val is None and exprs:
                        nxt = None              # an initialiser this reader does not evaluate: later values unknown
                        continue
                    if val is None:
                        val = nxt
                    if val is not None:
                        self.enums[c["name"]] = val
                        nxt = val + 1
            if kd == "FunctionDecl" and any(c.get("kind") == "CompoundStmt" for c in n.get("inner", [])):
                self.funcs[n["name"]] = n
            elif kd == "TypedefDecl":
                t = n["type"]
                self.typedefs[n["name"]] = unqual(t.get("desugaredQualType") or t.get("qualType"))
            elif kd == "RecordDecl" and n.get("completeDefinition") and n.get("name"):
                self.records[n["name"]] = [(f["name"], f["type"]) for f in n.get("inner", []) if f.get("kind") == "FieldDecl"]

    def base(self, name):
        """unqualified non-pointer type name -> canonical name"""
        seen = 0
        name = name.strip()
        while seen < 20:
            if name.startswith("struct "):
                return name
            if name in self.typedefs and self.typedefs[name] != name:
                name = self.typedefs[name]
                seen += 1
                continue
            return name
        return name

    def ctype(self, t):
        """clang type node -> ('real', size) | ('int', w, signed) | ('void',) | ('ptr', pointee ctype, const)
                              | ('rec', record name) ; raises Unsupported"""
        q = t.get("desugaredQualType") or t.get("qualType")
        return self.ctype_s(q)

    def ctype_s(self, q):
        q = q.strip()
        m = re.fullmatch(r"(.+?)\s*\(\*\s*(?:const)?\)\((.*)\)", q)
        if m:                                   # pointer to a function of reals
            args = [a.strip() for a in m.group(2).split(",")] if m.group(2).strip() else []
            if all(self.ctype_s(a)[0] == "real" for a in args + [m.group(1)]):
                return ("fun", len(args))
            raise Unsupported("type %s" % q)
        if "(" in q or "[" in q:
            raise Unsupported("type %s" % q)
        if "*" in q:
            i = q.rindex("*")
            inner = q[:i].strip()
            if "*" in inner:
                raise Unsupported("type %s" % q)
            const = "const" in inner.split()
            return ("ptr", self.ctype_s(" ".join(w for w in inner.split() if w not in QUALS)), const)
        if q.startswith("struct ") and q[7:].strip() in self.records:
            return ("rec", q[7:].strip())
        b = self.base(" ".join(w for w in q.split() if w not in QUALS))
        if "*" in b:
            return self.ctype_s(b)
        if b in REAL_SIZES:
            return ("real", REAL_SIZES[b])
        if b in INT_TYPES:
            return ("int",) + INT_TYPES[b]
        if b == "void":
            return ("void",)
        if b.startswith("struct ") and b[7:] in self.records:
            return ("rec", b[7:])
        raise Unsupported("type %s" % q)


# ---------------------------------------------------------------------------------------------- code trees
# ('ret', term) ('fail',) ('raw', option term) ('let', [names], term, body) ('bind', [names], code, body)
# ('guard', ok-condition, body) ('if', bool, neg, c1, c2) ('natcase', term, code O, name, code S)
# ('loopres', option term, [names], body, code for `inr r` with r bound to name, rname)   ('hole', i)
def par(t):
    t = t.strip()
    if re.fullmatch(r"[\w']+", t) or (t.startswith("(") and matching(t)):
        return t
    return "(%s)" % t


def matching(t):
    d = 0
    for i, ch in enumerate(t):
        if ch == "(":
            d += 1
        elif ch == ")":
            d -= 1
            if d == 0 and i != len(t) - 1:
                return False
    return d == 0


def tup(terms):
    if not terms:
        return "tt"
    return terms[0] if len(terms) == 1 else "(%s)" % ", ".join(terms)


def pat(names, in_match=False):
    if not names:
        return "_"
    if len(names) == 1:
        return names[0]
    return ("(%s)" if in_match else "'(%s)") % ", ".join(names)


def pure(c):
    k = c[0]
    if k == "ret":
        return True
    if k == "let":
        return pure(c[3])
    if k == "if":
        return pure(c[3]) and pure(c[4])
    if k == "bind":
        return pure(c[2]) and pure(c[3])
    return False


def fill(c, f):
    """replace every ('hole', i) by f(i)"""
    k = c[0]
    if k == "hole":
        return f(c[1])
    if k in ("ret", "fail", "raw"):
        return c
    if k == "let":
        return (k, c[1], c[2], fill(c[3], f))
    if k == "bind":
        return (k, c[1], fill(c[2], f), fill(c[3], f))
    if k == "guard":
        return (k, c[1], fill(c[2], f))
    if k == "if":
        return (k, c[1], c[2], fill(c[3], f), fill(c[4], f))
    if k == "natcase":
        return (k, c[1], fill(c[2], f), c[3], fill(c[4], f))
    if k == "loopres":
        return (k, c[1], c[2], fill(c[3], f), fill(c[4], f), c[5])
    raise Unsupported("internal: code kind %s" % k)


def render(c, ind, as_pure=False):
    sp = "  " * ind
    k = c[0]
    if k == "ret":
        return sp + (c[1] if as_pure else "Some %s" % par(c[1]))
    if k == "fail":
        return sp + "None"
    if k == "raw":
        return sp + c[1]
    if k == "let":
        return sp + "let %s := %s in\n" % (pat(c[1]), c[2]) + render(c[3], ind, as_pure)
    if k == "guard":
        return sp + "if %s then\n%s\n%selse None" % (c[1], render(c[2], ind + 1, as_pure), sp)
    if k == "if":
        a, b = (c[4], c[3]) if c[2] else (c[3], c[4])
        if as_pure:
            one = "if %s then %s else %s" % (c[1], " ".join(render(a, 0, True).split()), " ".join(render(b, 0, True).split()))
            if len(one) < 110:
                return sp + one
        return sp + "if %s then\n%s\n%selse\n%s" % (c[1], render(a, ind + 1, as_pure), sp, render(b, ind + 1, as_pure))
    if k == "natcase":
        return sp + "match %s with\n%s| O =>\n%s\n%s| S %s =>\n%s\n%send" % (
            c[1], sp, render(c[2], ind + 1, as_pure), sp, c[3], render(c[4], ind + 1, as_pure), sp)
    if k == "bind":
        if pure(c[2]):
            inner = render(c[2], ind + 1, True)
            one = " ".join(inner.split())
            if len(one) < 110:
                return sp + "let %s := %s in\n" % (pat(c[1]), one) + render(c[3], ind, as_pure)
            return sp + "let %s :=\n%s in\n" % (pat(c[1]), inner) + render(c[3], ind, as_pure)
        if as_pure:
            raise Unsupported("internal: impure bind in a pure context")
        if c[3] == ("ret", tup(c[1])) and c[1]:
            return render(c[2], ind)                      # bind x <- e; Some x  =  e
        inner = render(c[2], ind + 1)
        one = " ".join(inner.split())
        if one.startswith(("if ", "let ", "match ")):
            one = "(%s)" % one
        head = "match %s with" % one if len(one) < 110 else "match (\n%s) with" % inner
        return sp + "%s\n%s| None => None\n%s| Some %s =>\n%s\n%send" % (head, sp, sp, pat(c[1], True), render(c[3], ind + 1), sp)
    if k == "loopres":
        return sp + "match %s with\n%s| None => None\n%s| Some (inl %s) =>\n%s\n%s| Some (inr %s) =>\n%s\n%send" % (
            c[1], sp, sp, pat(c[2], True), render(c[3], ind + 1), sp, c[5], render(c[4], ind + 1), sp)
    raise Unsupported("internal: code kind %s" % k)


def with_pre(pre, code):
    for b in reversed(pre):
        if b[0] == "let":
            code = ("let", [b[1]], b[2], code)
        elif b[0] == "guard":
            code = ("guard", b[1], code)
        elif b[0] == "bind":
            code = ("bind", b[1], ("raw", b[2]), code)
        elif b[0] == "pred":
            code = ("natcase", b[1], ("fail",), b[2], code)
        elif b[0] == "bindc":
            code = ("bind", b[1], b[2], code)
        else:
            raise Unsupported("internal: binder %s" % b[0])
    return code


class K:
    """continuations of a statement: next(env), ret(env, value or None), brk(env), cont(env) -> code"""
    def __init__(self, nxt, ret, brk=None, cont=None, gotos=None):
        self.next, self.ret, self.brk, self.cont, self.gotos = nxt, ret, brk, cont, (gotos or {})

    def with_next(self, nxt):
        return K(nxt, self.ret, self.brk, self.cont, self.gotos)


def lit_float(s):
    """exact value of a C floating constant, written like tools/c2coq.py does"""
    x = float(s)
    if x == math.floor(x) and abs(x) < 2 ** 53:
        v = int(x)
        return "(ofZ O (%d))" % v if v < 0 else "(ofZ O %d)" % v
    fr = Fraction(x)
    e, d = 0, fr.denominator
    while d > 1:
        d //= 2
        e -= 1
    m = fr.numerator
    while m != 0 and m % 2 == 0:
        m //= 2
        e += 1
    return "(ofD O (%d) (%d))" % (m, e)


# ---------------------------------------------------------------------------------------------- one function
class Fn:
    def __init__(self, node, tu, opts):
        self.node, self.tu = node, tu
        self.name = node["name"]
        self.region_of = dict(opts.get("regions") or {})      # parameter (or `ctx.member`) -> array name
        self.fuel = list(opts.get("fuel") or [])
        self.helpers = opts.get("helpers") or {}              # name -> 'copy' | 'move' | 'set0' | 'set' (bodies checked in src/a.c)
        self.externs = opts.get("externs") or {}              # C function of reals -> Gallina term it is rendered as (tied elsewhere)
        self.zmode = bool(opts.get("signed"))                 # signed integer objects are carried in Z (negative values represented)
        self.rkind = {}             # array name -> ('real', size) | ('int', w, signed): the type of its cells
        self.nullable = {}          # key of a pointer variable / member the function tests -> name of its `is null` flag
        self.region_null = {}       # array reached only through a nullable pointer -> that flag
        self.used = set(RESERVED)
        self.aux = []               # Fixpoint texts
        self.nloop = 0
        self.cname = {}             # decl id -> C name
        self.regions = []           # array names in order of appearance
        self.rconst = {}            # array name -> every pointer into it is pointer-to-const
        self.touch = None           # while recording: set of ('r'|'w', array)
        self.future = []            # statements that may run after the one being translated (enclosing contexts)
        self.struct_in = []         # (key, kind, gallina params) of struct members read before written, in order of first read
        self.struct_params = {}     # decl id -> (record name, const, C name)
        self.field_written = []     # keys of members written
        self.frets = []             # env snapshots of the function's exits
        self.entry_fields = {}      # key -> env entry naming the member's input value

    # ---- bookkeeping
    def where(self, n):
        return "%s:%s" % (self.name, n.get("_line", "?") if isinstance(n, dict) else "?")

    def bad(self, what, n):
        raise Unsupported("%s at %s" % (what, self.where(n)))

    def fresh(self, base):
        base = re.sub(r"[^A-Za-z0-9_]", "_", base).strip("_") or "t"
        if base[0].isdigit():
            base = "v" + base
        if base in RESERVED:
            base += "_"
        if base not in self.used:
            self.used.add(base)
            return base
        k = 1
        while "%s_%d" % (base, k) in self.used:
            k += 1
        nm = "%s_%d" % (base, k)
        self.used.add(nm)
        return nm

    def ety(self, n):
        try:
            return self.tu.ctype(n["type"])
        except Unsupported as e:
            raise Unsupported("%s at %s" % (e, self.where(n)))

    def note(self, mode, region):
        if self.touch is not None:
            self.touch.add((mode, region))

    def new_region(self, name, const, kind=("real", 8)):
        if name not in self.regions:
            self.regions.append(name)
            self.rconst[name] = const
            self.rkind[name] = kind
        else:
            self.rconst[name] = self.rconst[name] and const
            if self.rkind[name] != kind:
                raise Unsupported("%s: the array %s is reached through pointers to %s and to %s" % (self.name, name, self.rkind[name], kind))

    def ltype(self, region):
        if self.rkind[region][0] == "real":
            return "list T"
        return "list Z" if self.isz(self.rkind[region][1:]) else "list nat"

    # ---- values
    def to_real(self, v, n):
        if v[0] == "real":
            return v[1]
        if v[0] == "int":
            if v[3] is not None:
                return "(ofZ O (%d))" % v[3] if v[3] < 0 else "(ofZ O %d)" % v[3]
            if self.isz(v[2]):
                return "(ofZ O %s)" % par(v[1])
            return "(ofZ O (Z.of_nat %s))" % par(v[1])
        if v[0] == "bool":                  # the int 0 / 1 a comparison yields, converted
            return "(if %s then (ofZ O %d) else (ofZ O %d))" % ((v[1], 0, 1) if v[2] else (v[1], 1, 0))
        self.bad("a real value is needed, got %s" % v[0], n)

    def to_int(self, v, n):
        if v[0] != "int":
            self.bad("an integer value is needed, got %s" % v[0], n)
        if v[3] is not None and v[3] < 0 and not self.isz(v[2]):
            self.bad("negative integer %d (not represented)" % v[3], n)
        return v[1]

    def isz(self, ty):
        return self.zmode and bool(ty[1])

    def gint(self, ty):
        return "Z" if self.isz(ty) else "nat"

    def lit_term(self, v, ty):
        if self.isz(ty):
            return "(%d)%%Z" % v if v < 0 else "%d%%Z" % v
        return str(v)

    def check_fits(self, term, ty, pre):
        w, s = ty
        if self.isz(ty):
            pre.append(("guard", "zfits %d %s" % (w, par(term))))
        else:
            pre.append(("guard", "fits %d %s" % (w - 1 if s else w, par(term))))

    def to_nat(self, v, n, pre):
        """an integer value used as an array index / pointer step: a nat term"""
        if v[0] != "int":
            self.bad("an integer value is needed, got %s" % v[0], n)
        if not self.isz(v[2]):
            return self.to_int(v, n)
        if v[3] is not None:
            if v[3] < 0:
                self.bad("negative index %d" % v[3], n)
            return str(v[3])
        pre.append(("guard", "(0 <=? %s)%%Z" % v[1]))
        return "(Z.to_nat %s)" % v[1]

    def name_it(self, term, hint, pre):
        if re.fullmatch(r"[\w']+", term):
            return term
        nm = self.fresh(hint or "t")
        pre.append(("let", nm, term))
        return nm

    # ---- variables and struct members
    def read_key(self, key, env, n, what):
        if key not in env:
            if isinstance(key, tuple):
                return self.field_input(key, env, n)
            self.bad("variable %s is not a local or a parameter" % what, n)
        v = env[key]
        if v[0] == "uninit":
            self.bad("read of %s before it is assigned" % what, n)
        if v[0] == "poison":
            self.bad("read of %s %s" % (what, v[1]), n)
        if v[0] == "real":
            return ("real", v[1])
        if v[0] == "int":
            return ("int", v[1], v[2], None)
        if v[0] == "ptr":
            return ("ptr", v[1], v[2])
        if v[0] == "struct":
            return ("struct", key, "")
        if v[0] == "fun":
            return ("fun", v[1], v[2])
        self.bad("use of %s" % what, n)

    def field_type(self, key, n):
        rec = self.struct_params[key[0]][0]
        path = key[1].split(".")
        for j, comp in enumerate(path):
            found = None
            for f, t in self.tu.records[rec]:
                if f == comp:
                    try:
                        found = self.tu.ctype(t)
                    except Unsupported as e:
                        self.bad("member %s: %s" % (f, e), n)
            if found is None:
                self.bad("no member %s in struct %s" % (comp, rec), n)
            if j == len(path) - 1:
                return found
            if found[0] != "rec":
                self.bad("member %s of %s is not a struct" % (comp, rec), n)
            rec = found[1]

    def flat_fields(self, rec, prefix=""):
        """dotted paths of the scalar / pointer members of a record, nested records in place, declaration order"""
        out = []
        for f, t in self.tu.records[rec]:
            try:
                ct = self.tu.ctype(t)
            except Unsupported:
                continue
            if ct[0] == "rec":
                out += self.flat_fields(ct[1], prefix + f + ".")
            else:
                out.append(prefix + f)
        return out

    def field_input(self, key, env, n):
        """first read of a struct member that has not been written: it becomes an input of the generated function"""
        if key in self.entry_fields:
            env[key] = self.entry_fields[key]
            return self.read_key(key, env, n, "%s->%s" % (self.struct_params[key[0]][2], key[1]))
        t = self.field_type(key, n)
        base = "%s_%s" % (self.struct_params[key[0]][2], key[1])
        if t[0] == "real":
            nm = self.fresh(base)
            ent, gp = ("real", nm), [("val", "(%s : T)" % nm)]
        elif t[0] == "int":
            nm = self.fresh(base)
            ent, gp = ("int", nm, t[1:]), [("val", "(%s : %s)" % (nm, self.gint(t[1:])))]
        elif t[0] == "ptr" and t[1][0] in ("real", "int"):
            rname = re.sub(r"[^A-Za-z0-9_]", "_", self.region_of.get("%s.%s" % (self.struct_params[key[0]][2], key[1]), base))
            gp = []
            if key in self.nullable_keys:
                flag = self.fresh(base + "_null")
                self.nullable[key] = flag
                gp.append(("null", "(%s : bool)" % flag))
                if rname not in self.regions:
                    self.region_null[rname] = flag
                else:
                    self.region_null.pop(rname, None)
            elif rname in self.region_null:
                self.region_null.pop(rname, None)
            isnew = rname not in self.regions
            self.new_region(rname, t[2], t[1])
            if isnew:
                lst = self.fresh(rname)
                self.entry_regions[rname] = lst
                gp.append(("region", "(%s : %s)" % (lst, self.ltype(rname))))
            off = self.fresh(base + "_off")
            gp.append(("val", "(%s : nat)" % off))
            ent = ("ptr", rname, off)
        elif t[0] == "fun":
            nm = self.fresh(base)
            ent, gp = ("fun", nm, t[1]), [("val", "(%s : %s)" % (nm, " -> ".join(["T"] * (t[1] + 1))))]
        else:
            self.bad("member %s of type %s" % (key[1], t), n)
        self.entry_fields[key] = ent
        self.struct_in.append((key, ent, gp))
        env[key] = ent
        if "R:" + ent[1] not in env and ent[0] == "ptr":
            env["R:" + ent[1]] = self.entry_regions[ent[1]]
        return self.read_key(key, env, n, base)

    def lvalue(self, n, env, pre):
        """-> ('var', key, what) | ('mem', region, offterm)"""
        n = strip(n)
        k = n.get("kind")
        if k == "DeclRefExpr":
            i = n["referencedDecl"]["id"]
            if i not in env:
                self.bad("assignment to %s" % n["referencedDecl"].get("name"), n)
            return ("var", i, n["referencedDecl"].get("name"))
        if k == "MemberExpr":
            key = member_path(n)
            if key is None or key[0] not in self.struct_params:
                self.bad("member access that is not <struct pointer parameter>->member", n)
            return ("var", key, "%s->%s" % (self.struct_params[key[0]][2], key[1]))
        if k == "UnaryOperator" and n.get("opcode") == "*":
            p = self.expr(n["inner"][0], env, pre)
            if p[0] != "ptr":
                self.bad("dereference of a non-pointer", n)
            return ("mem", p[1], p[2])
        if k == "ArraySubscriptExpr":
            p = self.expr(n["inner"][0], env, pre)
            i = self.expr(n["inner"][1], env, pre)
            if p[0] != "ptr":
                self.bad("subscript of a non-pointer", n)
            return ("mem", p[1], self.addoff(p[2], self.to_nat(i, n, pre)))
        self.bad("lvalue %s" % k, n)

    def addoff(self, off, i):
        if off == "0":
            return i
        if i == "0":
            return off
        return "(%s + %s)" % (off, i)

    def load(self, region, off, env, pre, n):
        self.note("r", region)
        kind = self.rkind[region]

        def val(nm):
            return ("real", nm) if kind[0] == "real" else ("int", nm, kind[1:], None)
        ck = ("L", env["R:" + region], off)      # the same cell of the same (unchanged) array read again: the value already bound
        if ck in env:
            return val(env[ck])
        if region in self.region_null and ("NN:" + region) not in env:
            if self.infix:
                self.bad("access inside a loop through a pointer that is not known to be non-null there", n)
            pre.append(("guard", "negb %s" % self.region_null[region]))      # access through a pointer that may be null
        v = self.fresh("v_" + region)
        pre.append(("bind", [v], "nth_error %s %s" % (env["R:" + region], par(off))))
        env[ck] = v
        return val(v)

    def store(self, region, off, term, env, pre, n):
        if self.rconst.get(region, False):
            self.bad("store into the array %s, which is only reached through pointers to const" % region, n)
        self.note("w", region)
        if region in self.region_null and ("NN:" + region) not in env:
            if self.infix:
                self.bad("access inside a loop through a pointer that is not known to be non-null there", n)
            pre.append(("guard", "negb %s" % self.region_null[region]))
        new = self.fresh(region)
        pre.append(("bind", [new], "upd %s %s %s" % (env["R:" + region], par(off), par(term))))
        env["R:" + region] = new
        if re.fullmatch(r"[\w']+", term):
            env[("L", new, off)] = term       # the cell just written reads back as the value stored

    def assign(self, lv, v, env, pre, n, hint=None):
        """store value v (already converted to the type of the target); returns the value of the assignment expression"""
        if lv[0] == "mem":
            if self.rkind[lv[1]][0] == "real":
                t = self.name_it(self.to_real(v, n), "w_" + lv[1], pre)
                self.store(lv[1], lv[2], t, env, pre, n)
                return ("real", t)
            if v[0] != "int" or (v[3] is None and v[2] != self.rkind[lv[1]][1:]):
                self.bad("store of a %s into an array of integers of another type" % v[0], n)
            t = self.name_it(self.to_int(v, n), "w_" + lv[1], pre)
            self.store(lv[1], lv[2], t, env, pre, n)
            return ("int", t, self.rkind[lv[1]][1:], v[3])
        key, what = lv[1], lv[2]
        cur = env.get(key)
        if isinstance(key, tuple):
            kind = self.field_type(key, n)
            if key not in self.field_written:
                self.field_written.append(key)
            if self.infix:
                self.bad("assignment to a struct member inside a loop", n)
        else:
            kind = self.vtype[key]
        base = what.replace("->", "_")
        if kind[0] == "real":
            t = self.to_real(v, n)
            if re.fullmatch(r"[\w']+", t):
                nm = t                                    # a plain copy: no new name
            else:
                nm = self.fresh(base)
                pre.append(("let", nm, t))
            env[key] = ("real", nm)
            return ("real", nm)
        if kind[0] == "int":
            t = self.to_int(v, n)
            if not re.fullmatch(r"[\w']+", t) and v[3] is None:
                nm = self.fresh(base)
                pre.append(("let", nm, t))
                t = nm
            env[key] = ("int", t, kind[1:])
            return ("int", t, kind[1:], v[3])
        if kind[0] == "fun":
            if v[0] != "fun":
                self.bad("assignment of a non-function to %s" % what, n)
            env[key] = ("fun", v[1], v[2])
            return v
        if kind[0] == "ptr":
            if v[0] != "ptr":
                self.bad("assignment of a non-pointer to pointer %s" % what, n)
            if cur is not None and cur[0] == "ptr" and cur[1] != v[1] and self.infix:
                self.bad("pointer %s moves to another array inside a loop" % what, n)
            t = v[2]
            if not re.fullmatch(r"[\w']+", t):
                nm = self.fresh(base + "_off")
                pre.append(("let", nm, t))
                t = nm
            env[key] = ("ptr", v[1], t)
            if "R:" + v[1] not in env:
                self.bad("internal: array %s unknown" % v[1], n)
            return ("ptr", v[1], t)
        self.bad("assignment to %s of type %s" % (what, kind), n)

    # ---- expressions
    def expr(self, n, env, pre, hint=None):
        k = n.get("kind")
        if k in ("ParenExpr", "ConstantExpr"):
            return self.expr(n["inner"][0], env, pre, hint)
        if k == "IntegerLiteral":
            t = self.ety(n)
            return ("int", self.lit_term(int(n["value"]), t[1:]), t[1:], int(n["value"]))
        if k == "FloatingLiteral":
            return ("real", lit_float(n["value"]))
        if k == "DeclRefExpr":
            rd = n["referencedDecl"]
            if rd.get("kind") == "EnumConstantDecl":
                if rd.get("name") not in self.tu.enums:
                    self.bad("enumeration constant %s of unknown value" % rd.get("name"), n)
                t = self.ety(n)
                return ("int", self.lit_term(self.tu.enums[rd["name"]], t[1:]), t[1:], self.tu.enums[rd["name"]])
            if rd.get("kind") == "FunctionDecl":
                if rd.get("name") not in self.externs:
                    self.bad("function %s used as a value (not in the `externs` option)" % rd.get("name"), n)
                ft = n["type"].get("desugaredQualType") or n["type"].get("qualType")
                inside = ft[ft.index("(") + 1:ft.rindex(")")].strip()
                return ("fun", "(%s)" % self.externs[rd["name"]], len(inside.split(",")) if inside and inside != "void" else 0)
            if rd.get("kind") not in ("VarDecl", "ParmVarDecl"):
                self.bad("reference to %s %s" % (rd.get("kind"), rd.get("name")), n)
            return self.read_key(rd["id"], env, n, rd.get("name"))
        if k == "MemberExpr":
            lv = self.lvalue(n, env, pre)
            return self.read_key(lv[1], env, n, lv[2])
        if k in ("ImplicitCastExpr", "CStyleCastExpr"):
            return self.cast(n, env, pre, hint)
        if k == "UnaryExprOrTypeTraitExpr" and n.get("name") == "sizeof":
            at = n.get("argType") or (n["inner"][0]["type"] if n.get("inner") else None)
            t = self.tu.ctype(at) if at else None
            if not t or t[0] != "real":
                self.bad("sizeof of something that is not a real type", n)
            return ("int", str(t[1]), (64, False), t[1])
        if k == "UnaryOperator":
            return self.unary(n, env, pre, hint)
        if k == "BinaryOperator":
            return self.binary(n, env, pre, hint)
        if k == "CompoundAssignOperator":
            return self.compound(n, env, pre)
        if k == "ConditionalOperator":
            return self.conditional(n, env, pre)
        if k == "ArraySubscriptExpr":
            lv = self.lvalue(n, env, pre)
            return self.load(lv[1], lv[2], env, pre, n)
        if k == "CallExpr":
            return self.call(n, env, pre)
        self.bad("expression %s" % k, n)

    def cast(self, n, env, pre, hint):
        ck = n.get("castKind")
        sub = n["inner"][-1]
        if ck in ("LValueToRValue", "NoOp", "FunctionToPointerDecay", "BuiltinFnToFnPtr", "BitCast"):
            v = self.expr(sub, env, pre, hint)
            if ck == "BitCast" and v[0] != "ptr":
                self.bad("bit cast of a non-pointer", n)
            return v
        if ck == "ToVoid":
            self.expr(sub, env, pre)
            return ("void",)
        if ck == "IntegralToFloating":
            return ("real", self.to_real(self.expr(sub, env, pre), n))
        if ck == "IntegralCast":
            v = self.expr(sub, env, pre, hint)
            t = self.ety(n)
            if v[0] == "bool":
                self.bad("truth value used as an integer", n)
            if t[0] != "int" or v[0] != "int":
                self.bad("integral cast to %s" % (t,), n)
            w, s = t[1:]
            lim = 1 << (w - 1 if s else w)
            lo = -lim if self.isz(t[1:]) else 0
            if v[3] is not None:
                if not (lo <= v[3] < lim):
                    self.bad("constant %d does not fit the type it is converted to" % v[3], n)
                return ("int", self.lit_term(v[3], t[1:]), t[1:], v[3])
            sw, ss = v[2]
            zs, zd = self.isz(v[2]), self.isz(t[1:])
            term = v[1]
            if zs and not zd:
                pre.append(("guard", "(0 <=? %s)%%Z" % term))
                term = self.name_it("(Z.to_nat %s)" % term, hint, pre)
                if (1 << (sw - 1)) > lim:
                    self.check_fits(term, t[1:], pre)
            elif zd and not zs:
                term = self.name_it("(Z.of_nat %s)" % par(term), hint, pre)
                if (1 << (sw - 1 if ss else sw)) > lim:
                    self.check_fits(term, t[1:], pre)
            elif (1 << (sw - 1 if ss else sw)) > lim:
                self.check_fits(term, t[1:], pre)
            return ("int", term, t[1:], None)
        if ck == "FloatingToIntegral":
            v = self.expr(sub, env, pre)
            if v[0] != "real":
                self.bad("conversion of a %s to an integer" % v[0], n)
            return ("trunc", self.name_it(v[1], "tr", pre))       # only a `switch` can use it
        if ck == "FloatingCast":
            a, b = self.ety(n), self.ety(sub)
            if a != b:
                self.bad("conversion between floating types %s and %s" % (b, a), n)
            return self.expr(sub, env, pre, hint)
        self.bad("cast %s" % ck, n)

    def incdec(self, n, env, pre):
        op = n["opcode"]
        lv = self.lvalue(n["inner"][0], env, pre)
        if lv[0] != "var":
            self.bad("%s on a memory cell" % op, n)
        key, what = lv[1], lv[2]
        cur = self.read_key(key, env, n, what)
        post = bool(n.get("isPostfix"))
        base = what.replace("->", "_")
        if isinstance(key, tuple):
            self.bad("%s on a struct member" % op, n)
        if cur[0] == "int" and self.isz(cur[2]):
            old = cur[1]
            new = self.fresh(base)
            pre.append(("let", new, "(%s %s 1)%%Z" % (old, "+" if op == "++" else "-")))
            self.check_fits(new, cur[2], pre)
            env[key] = ("int", new, cur[2])
            return ("int", old if post else new, cur[2], None)
        if cur[0] == "int":
            old = cur[1]
            if op == "++":
                new = self.fresh(base)
                pre.append(("let", new, "(%s + 1)" % old))
                self.check_fits(new, cur[2], pre)
            else:
                m = re.fullmatch(r"\(S ([\w']+)\)", old)
                if m:
                    new = m.group(1)
                else:
                    new = self.fresh(base)
                    pre.append(("pred", old, new))
            env[key] = ("int", new, cur[2])
            return ("int", old if post else new, cur[2], None)
        if cur[0] == "ptr":
            old = cur[2]
            new = self.fresh(base + "_off")
            if op == "++":
                pre.append(("let", new, "(%s + 1)" % old))
            else:
                pre.append(("pred", old, new))
            env[key] = ("ptr", cur[1], new)
            return ("ptr", cur[1], old if post else new)
        self.bad("%s on a %s" % (op, cur[0]), n)

    def unary(self, n, env, pre, hint):
        op = n["opcode"]
        sub = n["inner"][0]
        if op in ("++", "--"):
            return self.incdec(n, env, pre)
        if op == "*":
            lv = self.lvalue(n, env, pre)
            return self.load(lv[1], lv[2], env, pre, n)
        if op == "&":
            s = strip(sub)
            if s.get("kind") == "MemberExpr":
                key = member_path(s)
                if key is not None and key[0] in self.struct_params and self.field_type(key, n)[0] == "rec":
                    return ("struct", key[0], key[1] + ".")
            if s.get("kind") in ("ArraySubscriptExpr",) or (s.get("kind") == "UnaryOperator" and s.get("opcode") == "*"):
                lv = self.lvalue(s, env, pre)
                return ("ptr", lv[1], lv[2])
            self.bad("address-of", n)
        if op == "!":
            c, neg = self.cond(sub, env, pre)
            return ("bool", c, not neg)
        v = self.expr(sub, env, pre)
        if op == "+":
            return v
        if op == "-":
            if v[0] == "real":
                return ("real", "(opp O %s)" % v[1])
            if v[0] == "int" and v[3] is not None:
                return ("int", self.lit_term(-v[3], v[2]) if self.isz(v[2]) else "(-%d)" % v[3], v[2], -v[3])   # (nat mode: only under a conversion to real)
            if v[0] == "int" and self.isz(v[2]):
                t = self.name_it("(- %s)%%Z" % v[1], hint or "neg", pre)
                self.check_fits(t, v[2], pre)
                return ("int", t, v[2], None)
            self.bad("unary minus on an integer", n)
        self.bad("unary %s" % op, n)

    def binary(self, n, env, pre, hint):
        op = n["opcode"]
        if op == "=":
            lvn, rn = n["inner"]
            rv = self.expr(rn, env, pre, hint=self.lname(lvn))
            lv = self.lvalue(lvn, env, pre)
            return self.assign(lv, rv, env, pre, n)
        if op == ",":
            self.expr(n["inner"][0], env, pre)
            return self.expr(n["inner"][1], env, pre)
        if op in ("<", ">", "<=", ">=", "==", "!=", "&&", "||"):
            c, neg = self.cond(n, env, pre)
            return ("bool", c, neg)
        a = self.expr(n["inner"][0], env, pre)
        b = self.expr(n["inner"][1], env, pre)
        if a[0] == "ptr" or b[0] == "ptr":
            if op == "+" and a[0] == "ptr" and b[0] == "int":
                return ("ptr", a[1], self.addoff(a[2], self.to_nat(b, n, pre)))
            if op == "+" and b[0] == "ptr" and a[0] == "int":
                return ("ptr", b[1], self.addoff(b[2], self.to_nat(a, n, pre)))
            if op == "-" and a[0] == "ptr" and b[0] == "int":
                bt = self.to_nat(b, n, pre)
                pre.append(("guard", "(%s <=? %s)" % (bt, a[2])))
                return ("ptr", a[1], "(%s - %s)" % (a[2], bt))
            if op == "-" and a[0] == "ptr" and b[0] == "ptr":
                if a[1] != b[1]:
                    self.bad("difference of pointers into different arrays", n)
                pre.append(("guard", "(%s <=? %s)" % (b[2], a[2])))
                t = self.name_it("(%s - %s)" % (a[2], b[2]), hint or "d", pre)
                self.check_fits(t, (64, True), pre)
                return ("int", t, (64, True), None)
            self.bad("pointer arithmetic %s" % op, n)
        t = self.ety(n)
        if t[0] == "real":
            if op not in ("+", "-", "*", "/"):
                self.bad("real operator %s" % op, n)
            return ("real", "(%s O %s %s)" % ({"+": "add", "-": "sub", "*": "mul", "/": "div"}[op], self.to_real(a, n), self.to_real(b, n)))
        if t[0] == "int":
            return self.int_op(op, a, b, t[1:], pre, n, hint)
        self.bad("binary %s on %s" % (op, t), n)

    def lname(self, n):
        n = strip(n)
        if n.get("kind") == "DeclRefExpr":
            return n["referencedDecl"].get("name")
        return None

    def int_op(self, op, a, b, ty, pre, n, hint=None):
        at, bt = self.to_int(a, n), self.to_int(b, n)
        w, s = ty
        lim = 1 << (w - 1 if s else w)
        if getattr(self, "fuel_probe", False) and op in ("+", "*", "-"):
            return ("int", "(%s %s %s)" % (at, op, bt), ty, None)
        if a[3] is not None and b[3] is not None:
            val = {"+": a[3] + b[3], "*": a[3] * b[3], "-": a[3] - b[3],
                   "/": a[3] // b[3] if b[3] and a[3] >= 0 and b[3] > 0 else None,
                   "%": a[3] % b[3] if b[3] and a[3] >= 0 and b[3] > 0 else None}.get(op)
            if val is None or not ((-lim if self.isz(ty) else 0) <= val < lim):
                self.bad("constant expression %d %s %d" % (a[3], op, b[3]), n)
            return ("int", self.lit_term(val, ty), ty, val)
        if self.isz(ty):
            if op not in ("+", "-", "*"):
                self.bad("signed %s (only + - * are translated for signed objects)" % op, n)
            t = self.name_it("(%s %s %s)%%Z" % (at, op, bt), hint or "t", pre)
            self.check_fits(t, ty, pre)
            return ("int", t, ty, None)
        if op in ("+", "*"):
            t = self.name_it("(%s %s %s)" % (at, op, bt), hint or "t", pre)
            self.check_fits(t, ty, pre)
            return ("int", t, ty, None)
        if op == "-":
            pre.append(("guard", "(%s <=? %s)" % (bt, at)))
            return ("int", "(%s - %s)" % (at, bt), ty, None)
        if op in ("/", "%"):
            if b[3] is None:
                pre.append(("guard", "negb (%s =? 0)" % bt))
            elif b[3] == 0:
                self.bad("division by the constant 0", n)
            return ("int", "(%s %s %s)" % (at, "/" if op == "/" else "mod", bt), ty, None)
        self.bad("integer operator %s" % op, n)

    def compound(self, n, env, pre):
        op = n["opcode"][:-1]
        lvn, rn = n["inner"]
        lv = self.lvalue(lvn, env, pre)
        if lv[0] == "mem":
            cur = self.load(lv[1], lv[2], env, pre, n)
        else:
            cur = self.read_key(lv[1], env, n, lv[2])
        rv = self.expr(rn, env, pre)
        if cur[0] == "ptr":
            if rv[0] != "int" or op not in ("+", "-"):
                self.bad("compound assignment %s= on a pointer" % op, n)
            it = self.to_nat(rv, n, pre)
            if op == "+":
                new = ("ptr", cur[1], self.addoff(cur[2], it))
            else:
                pre.append(("guard", "(%s <=? %s)" % (it, cur[2])))
                new = ("ptr", cur[1], "(%s - %s)" % (cur[2], it))
            return self.assign(lv, new, env, pre, n)
        if cur[0] == "real":
            if op not in ("+", "-", "*", "/"):
                self.bad("compound assignment %s= on a real" % op, n)
            ct = n.get("computeResultType")
            if ct and self.tu.ctype(ct)[0] != "real":
                self.bad("compound assignment computed in a non-real type", n)
            new = ("real", "(%s O %s %s)" % ({"+": "add", "-": "sub", "*": "mul", "/": "div"}[op], cur[1], self.to_real(rv, n)))
            return self.assign(lv, new, env, pre, n)
        if cur[0] == "int":
            ct = self.tu.ctype(n["computeResultType"]) if n.get("computeResultType") else ("int",) + cur[2]
            if ct[0] != "int":
                self.bad("integer compound assignment computed in %s" % (ct,), n)
            res = self.int_op(op, cur, rv, ct[1:], pre, n, hint=self.lname(lvn))
            if ct[1:] != cur[2]:
                cw, cs = cur[2]
                if (1 << (ct[1] - 1 if ct[2] else ct[1])) > (1 << (cw - 1 if cs else cw)):
                    self.check_fits(res[1], cur[2], pre)
            return self.assign(lv, ("int", res[1], cur[2], None), env, pre, n)
        self.bad("compound assignment on %s" % cur[0], n)

    def conditional(self, n, env, pre):
        c, neg = self.cond(n["inner"][0], env, pre)
        pa, pb = [], []
        ea, eb = dict(env), dict(env)
        a = self.expr(n["inner"][1], ea, pa)
        b = self.expr(n["inner"][2], eb, pb)
        def same(e):                    # nothing but remembered loads may differ
            return all(e.get(k_) == v_ for k_, v_ in env.items()) and all(k_ in env or (isinstance(k_, tuple) and k_[0] == "L") for k_ in e)
        if not same(ea) or not same(eb):
            self.bad("side effect in an arm of ?:", n)
        if neg:
            a, b = b, a
            pa, pb = pb, pa
        if any(x[0] != "let" for x in pa + pb):
            # loads, checks or calls in the arms: the arms become the two sides of an `if` that yields the value
            if a[0] == "ptr" or b[0] == "ptr":
                self.bad("?: on pointers with loads or checks in its arms", n)
            t = self.ety(n)
            if t[0] == "real":
                ta, tb, val = self.to_real(a, n), self.to_real(b, n), None
            elif t[0] == "int" and a[0] == "int" and b[0] == "int":
                ta, tb, val = self.to_int(a, n), self.to_int(b, n), t[1:]
            else:
                self.bad("?: on %s and %s" % (a[0], b[0]), n)
            r = self.fresh("sel")
            pre.append(("bindc", [r], ("if", c, False, with_pre(pa, ("ret", ta)), with_pre(pb, ("ret", tb)))))
            return ("real", r) if val is None else ("int", r, val, None)
        pre.extend(pa + pb)             # pure lets: hoisted
        if a[0] == "real" or b[0] == "real":
            return ("real", "(if %s then %s else %s)" % (c, self.to_real(a, n), self.to_real(b, n)))
        if a[0] == "int" and b[0] == "int":
            t = self.ety(n)
            return ("int", "(if %s then %s else %s)" % (c, self.to_int(a, n), self.to_int(b, n)), t[1:], None)
        if a[0] == "ptr" and b[0] == "ptr" and a[1] == b[1]:
            return ("ptr", a[1], "(if %s then %s else %s)" % (c, a[2], b[2]))
        self.bad("?: on %s and %s" % (a[0], b[0]), n)

    def cond(self, n, env, pre):
        """truth value of an expression -> (bool term, negated)"""
        n0 = n
        n = strip(n)
        k = n.get("kind")
        if k == "UnaryOperator" and n.get("opcode") == "!":
            c, neg = self.cond(n["inner"][0], env, pre)
            return c, not neg
        if k == "BinaryOperator" and n.get("opcode") in ("&&", "||"):
            a, na = self.cond(n["inner"][0], env, pre)
            pb, eb = [], dict(env)
            b, nb = self.cond(n["inner"][1], eb, pb)
            if pb or eb != env:
                self.bad("side effect, load or check in the right operand of %s" % n["opcode"], n)
            a = "(negb %s)" % a if na else a
            b = "(negb %s)" % b if nb else b
            return "(%s %s %s)" % ("andb" if n["opcode"] == "&&" else "orb", a, b), False
        if k == "BinaryOperator" and n.get("opcode") in ("<", ">", "<=", ">=", "==", "!="):
            op = n["opcode"]
            a = self.expr(n["inner"][0], env, pre)
            b = self.expr(n["inner"][1], env, pre)
            if a[0] == "ptr" and b[0] == "ptr":
                if a[1] != b[1]:
                    self.bad("comparison of pointers into different arrays", n)
                x, y = a[2], b[2]
            elif a[0] == "real" or b[0] == "real":
                x, y = self.to_real(a, n), self.to_real(b, n)
                if op == "<":
                    return "(ltb O %s %s)" % (x, y), False
                if op == ">":
                    return "(ltb O %s %s)" % (y, x), False
                if op == "<=":
                    return "(leb O %s %s)" % (x, y), False
                if op == ">=":
                    return "(leb O %s %s)" % (y, x), False
                return "(eqb O %s %s)" % (x, y), op == "!="
            elif a[0] == "int" and b[0] == "int":
                x, y = self.to_int(a, n), self.to_int(b, n)
                if self.isz(a[2]) != self.isz(b[2]):
                    self.bad("comparison of a signed and an unsigned object", n)
                if self.isz(a[2]):
                    zc = {"<": "(%s <? %s)%%Z" % (x, y), ">": "(%s <? %s)%%Z" % (y, x), "<=": "(%s <=? %s)%%Z" % (x, y),
                          ">=": "(%s <=? %s)%%Z" % (y, x), "==": "(%s =? %s)%%Z" % (x, y), "!=": "(%s =? %s)%%Z" % (x, y)}[op]
                    return zc, op == "!="
            else:
                self.bad("comparison of %s and %s" % (a[0], b[0]), n)
            if op == "<":
                return "(%s <? %s)" % (x, y), False
            if op == ">":
                return "(%s <? %s)" % (y, x), False
            if op == "<=":
                return "(%s <=? %s)" % (x, y), False
            if op == ">=":
                return "(%s <=? %s)" % (y, x), False
            return "(%s =? %s)" % (x, y), op == "!="
        nk = self.nullable_key(n)
        if nk is not None:
            self.read_key(nk, env, n, "pointer")               # makes the member an input (with its flag) if it is not yet
            if nk in self.nullable:
                if self.infix:
                    self.bad("null test inside a loop", n)
                return self.nullable[nk], True
        v = self.expr(n0, env, pre)
        if v[0] == "bool":
            return v[1], v[2]
        if v[0] == "int":
            return ("(%s =? 0)%%Z" if self.isz(v[2]) else "(%s =? 0)") % self.to_int(v, n), True
        if v[0] == "real":
            return "(eqb O %s (ofZ O 0))" % v[1], True
        self.bad("truth value of a %s" % v[0], n)

    def nullable_key(self, n):
        """key of the pointer variable / member an expression names, when the function tests it against null"""
        n = strip(n)
        while n.get("kind") in ("ImplicitCastExpr", "ParenExpr"):
            n = n["inner"][0]
        key = None
        if n.get("kind") == "MemberExpr":
            key = member_path(n)
        elif n.get("kind") == "DeclRefExpr":
            key = n["referencedDecl"]["id"]
        return key if key in self.nullable_keys else None

    # ---- calls
    def call(self, n, env, pre):
        callee = n["inner"][0]
        while callee.get("kind") in ("ImplicitCastExpr", "ParenExpr"):
            callee = callee["inner"][0]
        args = n["inner"][1:]
        if callee.get("kind") == "MemberExpr" or (callee.get("kind") == "DeclRefExpr" and callee["referencedDecl"].get("kind") != "FunctionDecl"):
            f = self.expr(callee, env, pre)
            if f[0] != "fun":
                self.bad("call through something that is not a function of reals", n)
            return ("real", "(%s %s)" % (f[1], " ".join(self.to_real(self.expr(a, env, pre), n) for a in args)))
        if callee.get("kind") != "DeclRefExpr":
            self.bad("indirect call", n)
        fname = callee["referencedDecl"]["name"]
        if fname in self.externs and fname not in self.tu.sigs:
            return ("real", "(%s %s)" % (self.externs[fname], " ".join(self.to_real(self.expr(a, env, pre), n) for a in args)))
        if fname in LIB1 and len(args) == 1:
            return ("real", "(fn1 O %s %s)" % (LIB1[fname], self.to_real(self.expr(args[0], env, pre), n)))
        if fname in LIB2 and len(args) == 2:
            a = [self.to_real(self.expr(x, env, pre), n) for x in args]
            return ("real", "(fn2 O %s %s %s)" % (LIB2[fname], a[0], a[1]))
        if fname in ("sqrt", "fabs") and len(args) == 1:
            return ("real", "(%s O %s)" % ("sqrt" if fname == "sqrt" else "abs", self.to_real(self.expr(args[0], env, pre), n)))
        if fname in ("__builtin_isinf_sign", "__builtin_isinf", "isinf") and len(args) == 1:
            x = self.to_real(self.expr(args[0], env, pre), n)
            return ("bool", "(andb (eqb O (add O %s %s) %s) (negb (eqb O %s (ofZ O 0))))" % (x, x, x, x), False)
        if fname in ("__builtin_isnan", "isnan") and len(args) == 1:
            x = self.to_real(self.expr(args[0], env, pre), n)
            return ("bool", "(eqb O %s %s)" % (x, x), True)
        kind = {"memcpy": "move", "memmove": "move", "__builtin_memcpy": "move", "__builtin_memmove": "move"}.get(fname) or self.helpers.get(fname)
        if fname in ("memset", "__builtin_memset"):
            kind = "set"
        if kind == "move" and len(args) == 3:
            d, s, nb = (self.expr(a, env, pre) for a in args)
            if d[0] != "ptr" or s[0] != "ptr":
                self.bad("%s on something that is not a pointer into a real array" % fname, n)
            self.note("r", s[1])
            self.note("w", d[1])
            new = self.fresh(d[1])
            pre.append(("bind", [new], "blk_move %s %s %s %s %d %s" % (env["R:" + d[1]], par(d[2]), env["R:" + s[1]], par(s[2]), self.esz,
                                                                       par(self.to_int(nb, n)))))
            env["R:" + d[1]] = new
            return d
        if kind in ("set", "set0"):
            if (kind == "set0" and len(args) != 2) or (kind == "set" and len(args) != 3):
                self.bad("call to %s with %d arguments" % (fname, len(args)), n)
            d = self.expr(args[0], env, pre)
            if kind == "set":
                # memset(p, val, n) has the byte second, a_fill(p, n, val) third
                vi, ni = (1, 2) if fname in ("memset", "__builtin_memset") else (2, 1)
                val = self.expr(args[vi], env, pre)
                if val[0] != "int" or val[3] != 0:
                    self.bad("%s with a byte that is not the constant 0" % fname, n)
                nb = self.expr(args[ni], env, pre)
            else:
                nb = self.expr(args[1], env, pre)
            if d[0] != "ptr":
                self.bad("%s on something that is not a pointer into a real array" % fname, n)
            self.note("w", d[1])
            new = self.fresh(d[1])
            pre.append(("bind", [new], "blk_set %s %s (ofZ O 0) %d %s" % (env["R:" + d[1]], par(d[2]), self.esz, par(self.to_int(nb, n)))))
            env["R:" + d[1]] = new
            return d
        if fname in self.tu.sigs:
            return self.call_translated(fname, self.tu.sigs[fname], args, env, pre, n)
        self.bad("call to %s" % fname, n)

    def call_translated(self, fname, sig, args, env, pre, n):
        if len(args) != len(sig["params"]):
            self.bad("call to %s with %d arguments" % (fname, len(args)), n)
        if sig.get("zmode", False) != self.zmode and (any(sp["kind"] == "int" and sp["ty"][1] for sp in sig["params"]) or
                                                      any(o[0] == "ret" and o[1] == "int" and o[2][1] for o in sig["outs"]) or
                                                      any(k[0] == "int" and k[2] for k in sig["rkind"].values())):
            self.bad("call to %s: signed integers are represented differently on the two sides (the `signed` option)" % fname, n)
        vals = [self.expr(a, env, pre) for a in args]
        rmap = {}                      # callee array -> caller array

        def bind_region(cr, mine):
            if rmap.setdefault(cr, mine) != mine:
                self.bad("call to %s: pointers into different arrays for parameters that share the array %s" % (fname, cr), n)
            if sig["rkind"][cr] != self.rkind[mine]:
                self.bad("call to %s: array %s has cells of another type than the callee's %s" % (fname, mine, cr), n)
            if mine in self.region_null and ("NN:" + mine) not in env and cr not in sig.get("region_null", {}):
                pre.append(("guard", "negb %s" % self.region_null[mine]))      # the callee takes the pointer for valid
        fld = {}                       # (param index, member) -> value read in the caller
        for i, (sp, v) in enumerate(zip(sig["params"], vals)):
            if sp["kind"] == "ptr":
                if v[0] != "ptr":
                    self.bad("call to %s: argument %d is not a pointer into a real array" % (fname, i + 1), n)
                bind_region(sp["region"], v[1])
            elif sp["kind"] == "struct":
                if v[0] != "struct":
                    self.bad("call to %s: argument %d is not a struct pointer parameter" % (fname, i + 1), n)
                for f, fk, fr in sp["ins"]:
                    fv = self.read_key((v[1], v[2] + f), env, n, "%s->%s" % (self.struct_params[v[1]][2], v[2] + f))
                    fld[(i, f)] = fv
                    if fk == "ptr":
                        bind_region(fr, fv[1])
            elif sp["kind"] in ("real", "int"):
                if v[0] not in ("real", "int"):
                    self.bad("call to %s: argument %d is a %s" % (fname, i + 1, v[0]), n)
        inv = {}
        for cr, mine in rmap.items():
            inv.setdefault(mine, []).append(cr)
        for mine, crs in inv.items():
            if len(crs) > 1 and any(not sig["rconst"][c] for c in crs):
                self.bad("call to %s: the array %s is passed for parameters the callee treats as disjoint" % (fname, mine), n)
        gargs = []
        for it in sig["gparams"]:
            if it[0] == "scalar":
                v = vals[it[1]]
                gargs.append(self.to_real(v, n) if sig["params"][it[1]]["kind"] == "real" else par(self.to_int(v, n)))
            elif it[0] == "region":
                if it[1] not in rmap:
                    self.bad("call to %s: no argument determines its array %s" % (fname, it[1]), n)
                self.note("r", rmap[it[1]])
                gargs.append(env["R:" + rmap[it[1]]])
            elif it[0] == "off":
                gargs.append(par(vals[it[1]][2]))
            elif it[0] == "fin":
                v = fld[(it[1], it[2])]
                gargs.append(par(v[2]) if v[0] == "ptr" else (v[1] if v[0] in ("real", "fun") else par(v[1])))
            elif it[0] == "fnull":
                sv = vals[it[1]]
                gargs.append(self.nullable.get((sv[1], sv[2] + it[2]), "false"))
        names, after, rv = [], [], ("void",)
        for o in sig["outs"]:
            if o[0] == "region":
                mine = rmap[o[1]]
                self.note("w", mine)
                nm = self.fresh(mine)
                names.append(nm)
                after.append(("R:" + mine, nm))
            elif o[0] == "field":
                skey = vals[o[1]][1]
                key = (skey, vals[o[1]][2] + o[2])
                base = "%s_%s" % (self.struct_params[skey][2], key[1])
                if self.struct_params[skey][1]:
                    self.bad("call to %s writes a member of the const struct %s" % (fname, self.struct_params[skey][2]), n)
                if self.infix:
                    self.bad("call that writes struct members inside a loop", n)
                if key not in self.field_written:
                    self.field_written.append(key)
                if o[3] == "ptr":
                    nm = self.fresh(base + "_off")
                    after.append((key, ("ptr", rmap[o[4]], nm)))
                elif o[3] == "real":
                    nm = self.fresh(base)
                    after.append((key, ("real", nm)))
                elif o[3] == "fun":
                    nm = self.fresh(base)
                    after.append((key, ("fun", nm, o[5])))
                else:
                    nm = self.fresh(base)
                    after.append((key, ("int", nm, o[5])))
                names.append(nm)
            elif o[0] == "ret":
                nm = self.fresh("r_" + fname)
                names.append(nm)
                rv = ("real", nm) if o[1] == "real" else (("fun", nm, o[2]) if o[1] == "fun" else ("int", nm, o[2], None))
        pre.append(("bind", names, "%s O %s" % (sig["gen"], " ".join(gargs))))
        for key, val in after:
            env[key] = val
        return rv

    # ---- statements
    def block(self, stmts, env, k):
        if not stmts:
            return k.next(env)
        s, rest = stmts[0], stmts[1:]
        kind = s.get("kind")
        if kind == "CompoundStmt":
            return self.block(list(s.get("inner", [])) + rest, env, k)
        if kind == "NullStmt" or not kind:
            return self.block(rest, env, k)
        if kind == "DeclStmt":
            pre = []
            for d in s.get("inner", []):
                if d.get("kind") != "VarDecl":
                    self.bad("declaration %s" % d.get("kind"), s)
                t = self.ety(d)
                if t[0] not in ("real", "int", "ptr") or (t[0] == "ptr" and t[1][0] not in ("real", "int", "void")):
                    self.bad("local %s of type %s" % (d.get("name"), t), d)
                self.vtype[d["id"]] = t
                self.cname[d["id"]] = d["name"]
                init = [c for c in d.get("inner", []) if isinstance(c, dict) and not c.get("kind", "").endswith("Attr")]
                env[d["id"]] = ("uninit", t)
                if init:
                    v = self.expr(init[0], env, pre, hint=d["name"])
                    self.assign(("var", d["id"], d["name"]), v, env, pre, d)
            return with_pre(pre, self.block(rest, env, k))
        if kind == "ReturnStmt":
            pre = []
            v = None
            if s.get("inner"):
                v = self.expr(s["inner"][0], env, pre)
            return with_pre(pre, k.ret(env, v, s))
        if kind == "BreakStmt":
            if k.brk is None:
                self.bad("break outside a loop", s)
            return k.brk(env)
        if kind == "ContinueStmt":
            if k.cont is None:
                self.bad("continue outside a loop", s)
            return k.cont(env)
        if kind == "IfStmt":
            return self.if_stmt(s, rest, env, k)
        if kind in ("ForStmt", "WhileStmt", "DoStmt", "_Loop"):
            return self.loop_stmt(s, rest, env, k)
        if kind == "LabelStmt":
            return self.block(list(s.get("inner", [])) + rest, env, k)
        if kind == "GotoStmt":
            target = s.get("targetLabelDeclId")
            if target not in k.gotos:
                self.bad("goto to a label that is neither right after the enclosing loop nor a later statement of the function body", s)
            return k.gotos[target](env)
        if kind == "SwitchStmt":
            return self.switch_stmt(s, rest, env, k)
        pre = []
        self.expr(s, env, pre)
        return with_pre(pre, self.block(rest, env, k))

    def switch_stmt(self, s, rest, env, k):
        """`switch` on an integer or on `(int)real`: a chain of tests, largest label first, each arm running from its label to
        the first `break` (falling through later labels); the statements after the switch follow every arm"""
        parts = [c for c in s["inner"] if c.get("kind") != "DeclStmt"]
        pre = []
        v = self.expr(parts[0], env, pre)
        if v[0] not in ("int", "trunc"):
            self.bad("switch on a %s" % v[0], s)
        body = list(parts[1].get("inner", [])) if parts[1].get("kind") == "CompoundStmt" else [parts[1]]
        flat = []                           # (labels, statement)
        for st in body:
            labels = []
            while st.get("kind") in ("CaseStmt", "DefaultStmt"):
                if st["kind"] == "DefaultStmt":
                    labels.append("default")
                    st = st["inner"][-1]
                else:
                    if len(st["inner"]) != 2:
                        self.bad("case range", st)
                    cv = self.expr(st["inner"][0], dict(env), [])
                    if cv[0] != "int" or cv[3] is None:
                        self.bad("case label that is not an integer constant", st)
                    labels.append(cv[3])
                    st = st["inner"][-1]
            flat.append((labels, st))
        for labels, st in flat:
            if has_kind(st, ("CaseStmt", "DefaultStmt")):
                self.bad("case label inside a nested statement", st)

        def after(e):
            return self.block(rest, e, k)
        karm = K(after, k.ret, after, k.cont, k.gotos)

        def arm(j):
            return self.block([st for _, st in flat[j:]], dict(env), karm)

        def test(val):
            if v[0] == "int":
                return ("(%s =? %d)%%Z" if self.isz(v[2]) else "(%s =? %d)") % (v[1], val)
            x = v[1]
            if val >= 1:
                return "(andb (leb O (ofZ O %d) %s) (ltb O %s (ofZ O %d)))" % (val, x, x, val + 1)
            if val == 0:
                return "(andb (ltb O (ofZ O (-1)) %s) (ltb O %s (ofZ O 1)))" % (x, x)
            return "(andb (ltb O (ofZ O (%d)) %s) (leb O %s (ofZ O (%d))))" % (val - 1, x, x, val)
        dflt = [j for j, (labels, _) in enumerate(flat) if "default" in labels]
        code = arm(dflt[0]) if dflt else after(dict(env))
        tested = [(max(l for l in labels), j, [l for l in labels]) for j, (labels, _) in enumerate(flat)
                  if labels and "default" not in labels]
        seen = set()
        for labels, _ in flat:
            for l in labels:
                if l in seen:
                    self.bad("duplicate case label", s)
                seen.add(l)
        for _, j, labels in sorted(tested):          # the chain is built from the inside: smallest label innermost
            c = test(labels[0]) if len(labels) == 1 else "(%s)" % " || ".join(test(l) for l in labels)
            code = ("if", c, False, arm(j), code)
        return with_pre(pre, code)

    def postdec_test(self, c, env):
        """`n--` of an unsigned counter used only as a truth value -> decl id"""
        c = strip(c)
        if c.get("kind") == "UnaryOperator" and c.get("opcode") == "--" and c.get("isPostfix"):
            t = strip(c["inner"][0])
            if t.get("kind") == "DeclRefExpr" and env.get(t["referencedDecl"]["id"], ("",))[0] == "int" \
                    and not env[t["referencedDecl"]["id"]][2][1]:
                return t["referencedDecl"]["id"]
        return None

    def env_tuple(self, env, keys):
        out = []
        for key in keys:
            v = env[key]
            if isinstance(key, str) and key.startswith("R:"):
                out.append(v)
            elif v[0] in ("real", "int", "fun"):
                out.append(v[1])
            elif v[0] == "ptr":
                out.append(v[2])
            else:
                raise Unsupported("%s: internal: state entry %s" % (self.name, v[0]))
        return out

    def rebind(self, env, keys):
        """fresh names for the entries; returns the names"""
        names = []
        for key in keys:
            v = env[key]
            if isinstance(key, str) and key.startswith("R:"):
                nm = self.fresh(key[2:])
                env[key] = nm
            elif v[0] == "real":
                nm = self.fresh(self.keyname(key))
                env[key] = ("real", nm)
            elif v[0] == "int":
                nm = self.fresh(self.keyname(key))
                env[key] = ("int", nm, v[2])
            elif v[0] == "ptr":
                nm = self.fresh(self.keyname(key) + "_off")
                env[key] = ("ptr", v[1], nm)
            elif v[0] == "fun":
                nm = self.fresh(self.keyname(key))
                env[key] = ("fun", nm, v[2])
            else:
                raise Unsupported("%s: internal: state entry %s" % (self.name, v[0]))
            names.append(nm)
        return names

    def keyname(self, key):
        if isinstance(key, tuple):
            return "%s_%s" % (self.struct_params[key[0]][2], key[1])
        return self.cname.get(key, "v")

    def nonnull_marks(self, cnode, env):
        """arrays known to be reachable (their pointer is not null) in the then / else arm of `if (p)` / `if (!p)`"""
        c, neg = strip(cnode), False
        while c.get("kind") == "UnaryOperator" and c.get("opcode") == "!":
            c, neg = strip(c["inner"][0]), not neg
        nk = self.nullable_key(c)
        if nk is None or nk not in env or env[nk][0] != "ptr":
            return [], []
        return ([], [env[nk][1]]) if neg else ([env[nk][1]], [])

    def if_stmt(self, s, rest, env, k):
        parts = s["inner"]
        cnode, then = parts[0], parts[1]
        els = parts[2] if len(parts) > 2 else {"kind": "NullStmt"}
        pd = self.postdec_test(cnode, env)
        if pd is not None:
            cur = env[pd]
            nm = self.fresh(self.cname[pd])
            e0, e1 = dict(env), dict(env)
            e0[pd] = ("poison", "after its post-decrement wrapped around (it was 0)")
            e1[pd] = ("int", nm, cur[2])
            return ("natcase", cur[1], self.block([els] + rest, e0, k), nm, self.block([then] + rest, e1, k))
        pre = []
        c, neg = self.cond(cnode, env, pre)
        nn_then, nn_else = self.nonnull_marks(cnode, env)

        def marked(e, marks):
            e = dict(e)
            for r in marks:
                e["NN:" + r] = "y"
            return e
        if has_jump(then) or has_jump(els):
            c1 = self.block([then] + rest, marked(env, nn_then), k)
            c2 = self.block([els] + rest, marked(env, nn_else), k)
            return with_pre(pre, ("if", c, neg, c1, c2))
        # no jump inside: the arms return the entries they changed, the rest follows once
        envs = []

        def hole(e):
            envs.append(e)
            return ("hole", len(envs) - 1)
        self.future.append(rest)
        try:
            c1 = self.block([then], marked(env, nn_then), k.with_next(hole))
            c2 = self.block([els], marked(env, nn_else), k.with_next(hole))
        finally:
            self.future.pop()
        keys = [key for key in env if any(e.get(key) != env[key] for e in envs) and not (isinstance(key, str) and key.startswith("NN:"))]
        dead = [key for key in keys if not (isinstance(key, str) and key.startswith("R:")) and self.dead_on_entry(key, rest)]
        keys = [key for key in keys if key not in dead]
        for key in keys:
            for e in envs:
                a, b = e[key], env[key]
                if a[0] in ("poison", "uninit") or (not isinstance(a, str) and (a[0] != b[0] and b[0] != "uninit")) or \
                        (a[0] == "ptr" and b[0] == "ptr" and a[1] != b[1]):
                    self.bad("variable %s is left in different states by the arms of an if" % self.keyname(key), s)
        if any(env[key][0] == "uninit" for key in keys if not isinstance(env[key], str)):
            self.bad("variable assigned in only one arm of an if before its first use", s)
        def join(i):
            return ("ret", tup(self.env_tuple(envs[i], keys))) if isinstance(i, int) else ("hole", i)
        c1, c2 = fill(c1, join), fill(c2, join)
        env2 = dict(env)
        for key in dead:
            env2[key] = ("poison", "after an if that changes it (the translator took it for dead there)")
        names = self.rebind(env2, keys)
        return with_pre(pre, ("bind", names, ("if", c, neg, c1, c2), self.block(rest, env2, k)))

    # ---- loops
    def gtype(self, env, key):
        if isinstance(key, str) and key.startswith("R:"):
            return self.ltype(key[2:])
        if env[key][0] == "fun":
            return "(%s)" % " -> ".join(["T"] * (env[key][2] + 1))
        if env[key][0] == "int":
            return self.gint(env[key][2])
        return "T" if env[key][0] == "real" else "nat"

    def structural_counter(self, cond, inc, body, env, is_do):
        """(decl id, 'test' | 'postdec') when the trip count is syntactically a counter: `for (; n; --n, ..)`, `while (n--)`"""
        if is_do or not cond.get("kind"):
            return None
        c = strip(cond)
        var, mode = None, None
        if c.get("kind") == "DeclRefExpr":
            var, mode = c["referencedDecl"]["id"], "test"
        elif c.get("kind") == "BinaryOperator" and c.get("opcode") in ("!=", ">"):
            l, r = strip(c["inner"][0]), c["inner"][1]
            while r.get("kind") in ("ImplicitCastExpr", "ParenExpr"):
                r = r["inner"][0]
            if l.get("kind") == "DeclRefExpr" and r.get("kind") == "IntegerLiteral" and int(r["value"]) == 0:
                var, mode = l["referencedDecl"]["id"], "test"
        else:
            var = self.postdec_test(c, env)
            mode = "postdec"
        if var is None or env.get(var, ("",))[0] != "int" or env[var][2][1]:
            return None
        writes = []
        for top in (inc, body):
            for m in walk(top):
                kd = m.get("kind")
                tgt = None
                if (kd == "BinaryOperator" and m.get("opcode") == "=") or kd == "CompoundAssignOperator" or \
                        (kd == "UnaryOperator" and m.get("opcode") in ("++", "--")):
                    tgt = strip(m["inner"][0])
                if tgt is not None and tgt.get("kind") == "DeclRefExpr" and tgt["referencedDecl"]["id"] == var:
                    writes.append(m)
        if mode == "postdec":
            return (var, mode) if not writes else None
        if len(writes) != 1 or writes[0].get("kind") != "UnaryOperator" or writes[0].get("opcode") != "--":
            return None
        tops = []                       # the expressions of the increment whose value is discarded

        def commas(e):
            e2 = e
            while e2.get("kind") == "ParenExpr":
                e2 = e2["inner"][0]
            if e2.get("kind") == "BinaryOperator" and e2.get("opcode") == ",":
                commas(e2["inner"][0])
                commas(e2["inner"][1])
            else:
                tops.append(e2)
        if inc.get("kind"):
            commas(inc)
        return (var, mode) if any(t is writes[0] for t in tops) else None

    def fuel_of(self, cond, env, n):
        """S (distance between the two sides of the loop test at loop entry)"""
        def side(x):
            x = strip(x)
            while x.get("kind") in ("ImplicitCastExpr", "ParenExpr"):
                x = x["inner"][0]
            if x.get("kind") == "UnaryOperator" and x.get("opcode") in ("++", "--"):
                x = strip(x["inner"][0])
            p, e = [], dict(env)
            save = self.touch
            self.touch = None
            self.fuel_probe = True
            try:
                v = self.expr(x, e, p)
            finally:
                self.touch = save
                self.fuel_probe = False
            if p or v[0] not in ("int", "ptr"):
                return None
            return v[1] if v[0] == "int" else v[2]
        c = strip(cond) if cond.get("kind") else {}
        if c.get("kind") == "BinaryOperator" and c.get("opcode") in ("<", ">", "<=", ">=", "!="):
            l, r = side(c["inner"][0]), side(c["inner"][1])
            if l is not None and r is not None:
                op = c["opcode"]
                if op == "<" and l == "0":
                    return "(S %s)" % r
                if op == ">" and r == "0":
                    return "(S %s)" % l
                if op == "<":
                    return "(S (%s - %s))" % (r, l)
                if op == ">":
                    return "(S (%s - %s))" % (l, r)
                if op == "<=":
                    return "(S (S %s))" % r if l == "0" else "(S (S (%s - %s)))" % (r, l)
                if op == ">=":
                    return "(S (S (%s - %s)))" % (l, r)
                if l == "0" or r == "0":
                    return "(S %s)" % (r if l == "0" else l)
                return "(S ((%s - %s) + (%s - %s)))" % (l, r, r, l)
        if c.get("kind") == "DeclRefExpr":
            v = side(c)
            if v is not None:
                return "(S %s)" % v
        self.bad("no bound is known for this loop (give one in the `fuel` option)", n)

    def refs(self, key, nodes):
        if isinstance(key, tuple):
            return key in member_keys(nodes)
        return key in referenced_ids(nodes)

    def dead_on_entry(self, key, rest):
        """the statements that follow assign the variable before they read it (or never mention it)"""
        if any(self.refs(key, f) for f in self.future) or isinstance(key, tuple):
            return False
        flat = []
        for st in rest:
            flat += list(st.get("inner", [])) if st.get("kind") == "CompoundStmt" else [st]
        for st in flat:
            if not self.refs(key, [st]):
                continue
            tgt = st
            if st.get("kind") in ("ForStmt",) and st["inner"][0].get("kind"):
                tgt = st["inner"][0]
            elif st.get("kind") == "_Loop":
                return False
            tgt = strip(tgt)
            if tgt.get("kind") == "BinaryOperator" and tgt.get("opcode") == "=":
                l = strip(tgt["inner"][0])
                if l.get("kind") == "DeclRefExpr" and l["referencedDecl"]["id"] == key and not self.refs(key, [tgt["inner"][1]]):
                    return True
            return False
        return True

    def loop_stmt(self, s, rest, env, k):
        kind, parts = s["kind"], s["inner"]
        if kind == "ForStmt":
            init, _cv, cond, inc, body = (list(parts) + [{}] * 5)[:5]
            if _cv.get("kind"):
                self.bad("condition variable in a for statement", s)
            loop = {"kind": "_Loop", "cond": cond, "inc": inc, "body": body, "do": False, "_line": s.get("_line"), "inner": [cond, inc, body]}
            if init.get("kind"):
                return self.block([init, loop] + rest, env, k)
        elif kind == "WhileStmt":
            loop = {"kind": "_Loop", "cond": parts[0], "inc": {}, "body": parts[1], "do": False, "_line": s.get("_line"), "inner": list(parts)}
        elif kind == "DoStmt":
            loop = {"kind": "_Loop", "cond": parts[1], "inc": {}, "body": parts[0], "do": True, "_line": s.get("_line"), "inner": list(parts)}
        else:
            loop = s
        return self.loop(loop, rest, env, k)

    def loop(self, s, rest, env, k):
        cond, inc, body, is_do = s["cond"], s["inc"], s["body"], s["do"]
        s = dict(s)
        s["_after"] = rest[0].get("declId") if rest and rest[0].get("kind") == "LabelStmt" else None     # `goto` there = leave the loop
        nodes = [x for x in (cond, inc, body) if x.get("kind")]
        mkeys = [key for key in member_keys(nodes) if key[0] in self.struct_params and self.field_type(key, s)[0] != "rec"]
        for key in mkeys:
            if key not in env:
                self.field_input(key, env, s)
        inner_decl = set(declared_ids(nodes))
        assigned = [i for i in assigned_ids(nodes) if i not in inner_decl]
        for i in assigned:
            if i not in env:
                self.bad("assignment to %s inside a loop" % self.cname.get(i, "?"), s)
            if env[i][0] == "poison":
                self.bad("variable %s %s" % (self.cname.get(i), env[i][1]), s)
        scratch = [i for i in assigned if env[i][0] == "uninit"]
        fkeys = mkeys
        referenced = [i for i in referenced_ids(nodes) if i not in inner_decl and i in env and env[i][0] in ("real", "int", "ptr")]
        sc = self.structural_counter(cond, inc, body, env, is_do)
        state = [i for i in assigned if i not in scratch and not (sc and i == sc[0])]
        ro = [i for i in referenced if i not in assigned and not (sc and i == sc[0])] + fkeys
        live = [i for i in state if not self.dead_on_entry(i, rest)]
        all_regions = [key for key in env if isinstance(key, str) and key.startswith("R:")]
        self.nloop += 1
        idx = self.nloop
        lname = "%s_loop%d" % (self.gen_name, idx)
        fuel = None
        if not sc:
            fuel = self.fuel[idx - 1] if idx - 1 < len(self.fuel) and self.fuel[idx - 1] else self.fuel_of(cond, env, s)
        # pass 1: which arrays does the loop read and write?  (translated once with every array, the result discarded)
        saved = (set(self.used), list(self.aux), self.nloop, list(self.struct_in), dict(self.entry_fields), list(self.regions),
                 dict(self.rconst), dict(self.entry_regions), list(self.field_written), self.touch)
        self.touch = set()
        try:
            self.one_loop(s, env, k, lname, sc, state, ro, scratch, live, all_regions, all_regions, dry=True)
            touched = self.touch
        finally:
            (self.used, self.aux, self.nloop, self.struct_in, self.entry_fields, self.regions, self.rconst, self.entry_regions,
             self.field_written, self.touch) = saved
        if saved[9] is not None:
            saved[9].update(touched)
        wr = [r for r in all_regions if ("w", r[2:]) in touched]
        rd = [r for r in all_regions if ("r", r[2:]) in touched and r not in wr]
        text, has_ret, rty = self.one_loop(s, env, k, lname, sc, state, ro, scratch, live, rd, wr, dry=False)
        self.aux.append(text)
        # the call
        args = ([env[sc[0]][1]] if sc else [fuel]) + [par(x) for x in self.env_tuple(env, ro)] + [env[r] for r in rd] + \
               [env[r] for r in wr] + [par(x) for x in self.env_tuple(env, state)]
        callt = "%s O %s" % (lname, " ".join(args))
        env2 = dict(env)
        for i in state:
            if i not in live:
                env2[i] = ("poison", "after a loop that changes it (the translator took it for dead there)")
        if sc:
            env2[sc[0]] = ("int", "0", env[sc[0]][2]) if sc[1] == "test" else ("poison", "after its post-decrement wrapped around (it was 0)")
        names = self.rebind(env2, wr + live)
        after = self.block(rest, env2, k)
        if not has_ret:
            return ("bind", names, ("raw", callt), after)
        env3 = dict(env)
        rnames = self.rebind(env3, wr)
        rv = None
        if self.ret is not None:
            rn = self.fresh("res")
            rnames.append(rn)
            rv = ("real", rn) if self.ret[0] == "real" else ("int", rn, self.ret[1:], None)
        r = self.fresh("early")
        return ("loopres", callt, names, after, ("let", rnames, r, k.ret(env3, rv, s)) if rnames else k.ret(env3, rv, s), r)

    def one_loop(self, s, env, k, lname, sc, state, ro, scratch, live, rd, wr, dry):
        cond, inc, body, is_do = s["cond"], s["inc"], s["body"], s["do"]
        outer_used = self.used
        self.used = set(RESERVED)
        self.infix += 1
        box = {"ret": False}
        try:
            e_in = {key: v for key, v in env.items() if (not isinstance(v, str) and v[0] == "struct") or
                    (isinstance(key, str) and key.startswith("NN:"))}
            for i in scratch:
                e_in[i] = env[i]
            for key in ro + rd + wr + state:
                e_in[key] = env[key]
            ro_names = self.rebind(e_in, ro)
            rd_names = self.rebind(e_in, rd)
            wr_names = self.rebind(e_in, wr)
            st_names = self.rebind(e_in, state)
            ret_keys = wr + live
            if sc:
                cnt = self.fresh(self.cname[sc[0]])
                pred = self.fresh(self.cname[sc[0]])
                head = "(%s : nat)" % cnt
                rec_first = pred
            else:
                head = "(fuel : nat)"
                rec_first = "fuel_1"
                self.used.add("fuel_1")

            def inl(t):
                return "inl %s" % par(t) if box["ret"] or box.get("force") else t

            def exit_(e):
                return ("hole", ("exit", dict(e)))

            def recurse(e):
                if sc and e[sc[0]][1] != pred:
                    raise Unsupported("%s: internal: the counter of a structural loop is %s at the end of a pass" % (self.name, e[sc[0]][1]))
                return ("raw", "%s O %s" % (lname, " ".join([rec_first] + ro_names + rd_names + [par(x) for x in self.env_tuple(e, wr + state)])))

            def ret_(e, v, node):
                box["ret"] = True
                terms = self.env_tuple(e, wr)
                if self.ret is not None:
                    if v is None:
                        self.bad("return without a value", node)
                    terms.append(self.to_real(v, node) if self.ret[0] == "real" else self.to_int(v, node))
                elif v is not None and v[0] != "void":
                    self.bad("return with a value in a void function", node)
                return ("ret", "inr %s" % par(tup(terms)))

            kpass_gotos = {s["_after"]: exit_} if s.get("_after") else {}

            def end_of_body(e):
                return self.block([inc] if inc.get("kind") else [], e, K(recurse, ret_, gotos=kpass_gotos))

            kpass = K(end_of_body, ret_, exit_, end_of_body, {s["_after"]: exit_} if s.get("_after") else {})
            self.future.append([x for x in (cond, inc, body) if x.get("kind")])
            try:
                if sc:
                    e0, e1 = dict(e_in), dict(e_in)
                    ty = env[sc[0]][2]
                    if sc[1] == "test":
                        e0[sc[0]] = ("int", "0", ty)
                        e1[sc[0]] = ("int", "(S %s)" % pred, ty)
                    else:
                        e0[sc[0]] = ("poison", "after its post-decrement wrapped around (it was 0)")
                        e1[sc[0]] = ("int", pred, ty)
                    code = ("natcase", cnt, exit_(e0), pred, self.block([body], e1, kpass))
                elif is_do:
                    def test(e):
                        pre = []
                        c, neg = self.cond(cond, e, pre)
                        return with_pre(pre, ("if", c, neg, recurse(dict(e)), exit_(dict(e))))
                    code = ("natcase", "fuel", ("fail",), "fuel_1", self.block([body], dict(e_in), K(test, ret_, exit_, test, kpass_gotos)))
                else:
                    pre = []
                    e = dict(e_in)
                    if cond.get("kind"):
                        c, neg = self.cond(cond, e, pre)
                        inner = with_pre(pre, ("if", c, neg, self.block([body], dict(e), kpass), exit_(dict(e))))
                    else:
                        inner = self.block([body], e, kpass)
                    code = ("natcase", "fuel", ("fail",), "fuel_1", inner)
            finally:
                self.future.pop()

            def fill_exit(h):
                return ("ret", inl(tup(self.env_tuple(h[1], ret_keys))))
            code = fill(code, fill_exit)
            st_ty = " * ".join(self.gtype(e_in, key) for key in ret_keys) if ret_keys else "unit"
            if box["ret"]:
                rt = [self.ltype(r[2:]) for r in wr] + ([] if self.ret is None else ["T" if self.ret[0] == "real" else self.gint(self.ret[1:])])
                st_ty = "(%s) + (%s)" % (st_ty, " * ".join(rt) if rt else "unit")
            params = [head] + ["(%s : %s)" % (nm, self.gtype(e_in, key)) for nm, key in zip(ro_names + rd_names + wr_names + st_names, ro + rd + wr + state)]
            text = "Fixpoint %s {T : Type} (O : NumOps T) %s {struct %s} : option (%s) :=\n%s.\n" % (
                lname, " ".join(params), cnt if sc else "fuel", st_ty, render(code, 1))
            return text, box["ret"], st_ty
        finally:
            self.infix -= 1
            self.used = outer_used

    # ---- the function
    def translate(self):
        node = self.node
        annotate_lines(node)
        params = [c for c in node.get("inner", []) if c.get("kind") == "ParmVarDecl"]
        body = [c for c in node["inner"] if c.get("kind") == "CompoundStmt"]
        if not body:
            raise Unsupported("%s has no body" % self.name)
        if node.get("variadic"):
            raise Unsupported("%s is variadic" % self.name)
        self.gen_name = "gen_" + self.name
        self.esz = self.tu.ctype_s("a_real")[1] if "a_real" in self.tu.typedefs else 8
        self.vtype, self.infix, self.entry_regions = {}, 0, {}
        fq = node["type"].get("desugaredQualType") or node["type"]["qualType"]
        m = re.fullmatch(r"(.+?)\s*\(\*\s*\((.*?)\)\)\((.*)\)", fq.strip())
        if m:                                   # returns a pointer to a function of reals
            rt = "%s (*)(%s)" % (m.group(1), m.group(3))
        else:
            rt = fq.split("(")[0].strip()
        rty = self.tu.ctype_s(rt)
        if rty[0] == "void":
            self.ret = None
        elif rty[0] in ("real", "int", "fun"):
            self.ret = rty
        else:
            raise Unsupported("%s returns %s" % (self.name, rt))
        # pointer variables / members that are tested against null somewhere in the body
        self.nullable_keys = set()
        for m_ in walk(body[0]):
            kd = m_.get("kind")
            cands = []
            if kd in ("IfStmt", "WhileStmt", "ConditionalOperator"):
                cands.append(m_["inner"][0])
            elif kd == "DoStmt":
                cands.append(m_["inner"][1])
            elif kd == "ForStmt" and len(m_["inner"]) > 2 and m_["inner"][2].get("kind"):
                cands.append(m_["inner"][2])
            elif kd == "UnaryOperator" and m_.get("opcode") == "!":
                cands.append(m_["inner"][0])
            elif kd == "BinaryOperator" and m_.get("opcode") in ("&&", "||"):
                cands += m_["inner"]
            for c in cands:
                c = strip(c)
                while c.get("kind") in ("ImplicitCastExpr", "ParenExpr"):
                    c = c["inner"][0]
                ct = (c.get("type") or {}).get("qualType", "")
                if "*" in ct and "(" not in ct:
                    if c.get("kind") == "MemberExpr" and member_path(c):
                        self.nullable_keys.add(member_path(c))
                    elif c.get("kind") == "DeclRefExpr":
                        self.nullable_keys.add(c["referencedDecl"]["id"])
        env = {}
        gparams, sigparams, order = [], [], []
        for pi, p in enumerate(params):
            if "name" not in p:
                raise Unsupported("%s: unnamed parameter" % self.name)
            t = self.ety(p)
            self.cname[p["id"]] = p["name"]
            self.vtype[p["id"]] = t
            if t[0] == "real":
                nm = self.fresh(p["name"])
                env[p["id"]] = ("real", nm)
                gparams.append("(%s : T)" % nm)
                sigparams.append({"kind": "real"})
                order.append(("scalar", pi))
            elif t[0] == "int":
                nm = self.fresh(p["name"])
                env[p["id"]] = ("int", nm, t[1:])
                gparams.append("(%s : %s)" % (nm, self.gint(t[1:])))
                sigparams.append({"kind": "int", "ty": t[1:]})
                order.append(("scalar", pi))
            elif t[0] == "ptr" and t[1][0] in ("real", "int"):
                if p["id"] in self.nullable_keys:
                    raise Unsupported("%s: pointer parameter %s is tested against null" % (self.name, p["name"]))
                rname = self.region_of.get(p["name"], p["name"])
                isnew = rname not in self.regions
                self.new_region(rname, t[2], t[1])
                if isnew:
                    lst = self.fresh(rname)
                    self.entry_regions[rname] = lst
                    env["R:" + rname] = lst
                    gparams.append("(%s : %s)" % (lst, self.ltype(rname)))
                    order.append(("region", rname))
                off = self.fresh(p["name"] + "_off")
                env[p["id"]] = ("ptr", rname, off)
                gparams.append("(%s : nat)" % off)
                sigparams.append({"kind": "ptr", "region": rname, "const": t[2]})
                order.append(("off", pi))
            elif t[0] == "ptr" and t[1][0] == "rec":
                self.struct_params[p["id"]] = (t[1][1], t[2], p["name"])
                env[p["id"]] = ("struct", t[1][1], t[2])
                gparams.append(("@struct", pi))
                sigparams.append({"kind": "struct", "rec": t[1][1], "const": t[2], "id": p["id"]})
                order.append(("@struct", pi))
            else:
                raise Unsupported("%s: parameter %s of type %s" % (self.name, p["name"], t))
        n_param_regions = len(self.regions)

        def fret(e, v, n):
            self.frets.append((dict(e), v, n))
            return ("hole", ("fret", len(self.frets) - 1))

        def fell_off(e):
            if self.ret is not None:
                raise Unsupported("%s: control reaches the end of a non-void function" % self.name)
            return fret(e, None, node)
        stmts = list(body[0].get("inner", []))
        ktop = K(fell_off, fret)
        for j, st in enumerate(stmts):          # `goto` to a later statement of the body: the statements from the label on
            if st.get("kind") == "LabelStmt":
                ktop.gotos[st["declId"]] = (lambda j_: lambda e: self.block(stmts[j_:], e, ktop))(j)
        code = self.block(stmts, env, ktop)
        # struct members: inputs are those read before written (order of first read), outputs those written (declaration order)
        written = []
        for sp in sigparams:
            if sp["kind"] == "struct":
                for f in self.flat_fields(sp["rec"]):
                    if (sp["id"], f) in self.field_written:
                        if sp["const"]:
                            raise Unsupported("%s writes member %s of a const struct" % (self.name, f))
                        written.append((sp["id"], f))
        # a written member that some exit never assigned keeps its input value: make it an input then
        for key in written:
            for e, v, n in self.frets:
                if key not in e:
                    self.field_input(key, e, n)
        out_regions = [r for r in self.regions if not self.rconst[r]]
        outs = [("region", r) for r in out_regions]
        out_ty = [self.ltype(r) for r in out_regions]
        pidx = {sp["id"]: i for i, sp in enumerate(sigparams) if sp["kind"] == "struct"}
        for key in written:
            t = self.field_type(key, node)
            if t[0] == "ptr":
                outs.append(("field", pidx[key[0]], key[1], "ptr", None, None))
            elif t[0] == "real":
                outs.append(("field", pidx[key[0]], key[1], "real", None, None))
            elif t[0] == "fun":
                outs.append(("field", pidx[key[0]], key[1], "fun", None, t[1]))
            else:
                outs.append(("field", pidx[key[0]], key[1], "int", None, t[1:]))
            out_ty.append("T" if t[0] == "real" else ("(%s)" % " -> ".join(["T"] * (t[1] + 1)) if t[0] == "fun" else
                                                      (self.gint(t[1:]) if t[0] == "int" else "nat")))
        if self.ret is not None:
            outs.append(("ret", self.ret[0], self.ret[1:] if self.ret[0] == "int" else (self.ret[1] if self.ret[0] == "fun" else None)))
            out_ty.append("T" if self.ret[0] == "real" else ("(%s)" % " -> ".join(["T"] * (self.ret[1] + 1)) if self.ret[0] == "fun" else
                                                             self.gint(self.ret[1:])))
        field_regions = {}

        def fill_fret(h):
            if h[0] != "fret":
                return ("hole", h)
            e, v, n = self.frets[h[1]]
            terms = [e["R:" + r] for r in out_regions]
            for key in written:
                ent = e[key] if key in e else self.entry_fields[key]
                if ent[0] == "ptr":
                    if field_regions.setdefault(key, ent[1]) != ent[1]:
                        self.bad("member %s points into different arrays at different exits" % key[1], n)
                    terms.append(ent[2])
                else:
                    terms.append(ent[1])
            if self.ret is not None:
                if v is None:
                    self.bad("return without a value", n)
                if self.ret[0] == "fun":
                    if v[0] != "fun":
                        self.bad("return of a %s where a function is expected" % v[0], n)
                    terms.append(v[1])
                else:
                    terms.append(self.to_real(v, n) if self.ret[0] == "real" else self.to_int(v, n))
            return ("ret", tup(terms))
        code = fill(code, fill_fret)
        outs = [(o[0], o[1], o[2], o[3], field_regions.get((sigparams[o[1]]["id"], o[2])), o[5]) if o[0] == "field" else o for o in outs]
        # Gallina parameters: struct members are inserted where their struct parameter stands
        gtext, gorder = [], []
        for g, o in zip(gparams, order):
            if isinstance(g, tuple):
                sid = sigparams[g[1]]["id"]
                ins = []
                for key, ent, gp in self.struct_in:
                    if key[0] != sid:
                        continue
                    for gk, gt in gp:
                        gtext.append(gt)
                        gorder.append({"null": ("fnull", g[1], key[1]), "region": ("region", ent[1] if ent[0] == "ptr" else None),
                                       "val": ("fin", g[1], key[1])}[gk])
                    ins.append((key[1], ent[0], ent[1] if ent[0] == "ptr" else None))
                sigparams[g[1]]["ins"] = ins
                sigparams[g[1]]["outs"] = [(o2[2], o2[3], o2[4]) for o2 in outs if o2[0] == "field" and o2[1] == g[1]]
            else:
                gtext.append(g)
                gorder.append(o)
        rty_s = "unit" if not out_ty else (out_ty[0] if len(out_ty) == 1 else "(%s)" % " * ".join(out_ty))
        cmt = "(* %s : %s  ->  option (%s) *)\n" % (self.name, " ".join(re.sub(r"[()]", "", g).split(" :")[0] for g in gtext) or "-",
                                                 ", ".join("array %s" % o[1] if o[0] == "region" else
                                                           ("%s->%s%s" % (params[o[1]]["name"], o[2], " (offset into array %s)" % o[4] if o[3] == "ptr" else "")
                                                            if o[0] == "field" else "return value") for o in outs) or "tt")
        text = "".join(a + "\n" for a in self.aux)
        text += cmt + "Definition %s {T : Type} (O : NumOps T) %s : option %s :=\n%s.\n" % (self.gen_name, " ".join(gtext), par(rty_s), render(code, 1))
        sig = {"gen": self.gen_name, "params": sigparams, "gparams": gorder, "outs": outs, "regions": list(self.regions),
               "zmode": self.zmode, "rconst": dict(self.rconst), "rkind": dict(self.rkind), "region_null": dict(self.region_null), "gtext": gtext,
               "rtype": rty_s, "loops": self.nloop}
        return text, sig


# ---------------------------------------------------------------------------------------------- helpers of src/a.c
def check_helpers(tu):
    """a_copy / a_move / a_zero / a_fill are what their names say: read the bodies (one `return mem...(params in order)`)"""
    want = {"a_copy": ("memcpy", "move", [0, 1, 2]), "a_move": ("memmove", "move", [0, 1, 2]),
            "a_zero": ("memset", "set0", [0, "0", 1]), "a_fill": ("memset", "set", [0, 2, 1])}
    out, errs = {}, {}
    for name, (callee, kind, argmap) in want.items():
        f = tu.funcs.get(name)
        if f is None:
            continue
        params = [c for c in f.get("inner", []) if c.get("kind") == "ParmVarDecl"]
        body = [c for c in f["inner"] if c.get("kind") == "CompoundStmt"][0]
        st = [c for c in body.get("inner", []) if c.get("kind") != "NullStmt"]
        ok = len(st) == 1 and st[0].get("kind") == "ReturnStmt" and st[0].get("inner")
        if ok:
            c = st[0]["inner"][0]
            while c.get("kind") in ("ImplicitCastExpr", "ParenExpr"):
                c = c["inner"][0]
            ok = c.get("kind") == "CallExpr"
        if ok:
            fn = c["inner"][0]
            while fn.get("kind") in ("ImplicitCastExpr", "ParenExpr"):
                fn = fn["inner"][0]
            ok = fn.get("kind") == "DeclRefExpr" and fn["referencedDecl"]["name"] in (callee, "__builtin_" + callee) and len(c["inner"]) - 1 == len(argmap)
        if ok:
            for a, m in zip(c["inner"][1:], argmap):
                while a.get("kind") in ("ImplicitCastExpr", "ParenExpr", "CStyleCastExpr"):
                    a = a["inner"][-1]
                if m == "0":
                    ok = ok and a.get("kind") == "IntegerLiteral" and int(a["value"]) == 0
                else:
                    ok = ok and a.get("kind") == "DeclRefExpr" and m < len(params) and a["referencedDecl"]["id"] == params[m]["id"]
        if ok:
            out[name] = kind
        else:
            errs[name] = "the body of %s is not `return %s(...)` of its parameters" % (name, callee)
    return out, errs


def translate(sources, include, cfg, regions=None, fuel=None, helpers_source=None, sigs=None, externs=None, signed=()):
    """sources: [(absolute path, [function names])] in call order.  -> (Gallina text without the prelude, {name: error},
    {name: signature}).  regions: {function: {parameter or 'ctx.member': array name}}; fuel: {function: [term per loop or None]}."""
    sigs = sigs if sigs is not None else {}
    helpers, herrs = {}, {}
    if helpers_source:
        helpers, herrs = check_helpers(TU(load_ast(helpers_source, include, cfg)))
    out, errs = [], {}
    for path, names in sources:
        try:
            tu = TU(load_ast(path, include, cfg))
        except Unsupported as e:
            for nm in names:
                errs[nm] = str(e)
            continue
        tu.sigs = sigs
        out.append("(* ---- %s ---- *)" % path)
        for nm in names:
            if nm not in tu.funcs:
                errs[nm] = "function %s not found with a body in %s (configuration changed?)" % (nm, path)
                continue
            try:
                f = Fn(tu.funcs[nm], tu, {"regions": (regions or {}).get(nm), "fuel": (fuel or {}).get(nm), "helpers": helpers,
                                          "externs": externs, "signed": nm in set(signed or ())})
                text, sig = f.translate()
                out.append(text)
                sigs[nm] = sig
            except Unsupported as e:
                msg = str(e)
                for h, he in herrs.items():
                    if "call to %s " % h in msg + " ":
                        msg += " (%s)" % he
                errs[nm] = msg
            except RecursionError:
                errs[nm] = "translator recursion limit in %s" % nm
    return "\n".join(out) + "\n", errs, sigs


if __name__ == "__main__":
    # c2arr.py <file.c> <include dir> <cfg header> <src/a.c or -> f g h ...      (absolute paths; f:dst=m,src=m puts parameters in one array)
    regs, names = {}, []
    for a in sys.argv[5:]:
        nm, _, r = a.partition(":")
        names.append(nm)
        if r:
            regs[nm] = dict(x.split("=") for x in r.split(","))
    t, e, _ = translate([(sys.argv[1], names)], sys.argv[2], sys.argv[3], regions=regs, helpers_source=None if sys.argv[4] == "-" else sys.argv[4])
    print(PRELUDE + t)
    for k_, v_ in e.items():
        print("(* ERROR %s: %s *)" % (k_, v_))
