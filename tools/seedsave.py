#!/usr/bin/env python3
"""seedsave.py <ID> <n> <mutdir> <seedlog.json> [note]: store a confirmed seeded change under seeded/<ID>-<n>/."""
import json
import shutil
import sys
from pathlib import Path

V = Path(__file__).resolve().parent.parent
pid, n, mdir, log = sys.argv[1], sys.argv[2], Path(sys.argv[3]), Path(sys.argv[4])
note = sys.argv[5] if len(sys.argv) > 5 else ""
d = V / "seeded" / ("%s-%s" % (pid, n))
d.mkdir(parents=True, exist_ok=True)
for f in [p.name for p in mdir.iterdir() if p.is_file() and p.suffix in (".diff", ".c", ".sh", ".txt", ".h", ".py")]:
    if (mdir / f).exists():
        if (mdir / f).resolve() != (d / f).resolve():
            shutil.copy(mdir / f, d / f)
r = json.loads(log.read_text())
notes = (mdir / "notes.txt").read_text() if (mdir / "notes.txt").exists() else ""
meta = {
    "property": pid,
    "origin": "written by an independent sub-agent that saw only the property text and a scratch worktree of /repo",
    "needs_to_manifest": notes[:1500],
    "confirmed_by": "tools/seedtest.py on scratch copies of /repo HEAD (never applied to /repo): patch applies, cmake build + 41 ctest "
                    "tests pass with the change, demonstration fails with it and passes without it, then the check was run with "
                    "VERIF_REPO pointing at the changed copy",
    "tests_pass_with_change": r.get("tests_pass_with_change"),
    "demo_passes_with_change": r.get("demo_passes_with_change"),
    "demo_passes_clean": r.get("demo_passes_clean"),
    "check": "python3 tools/vcheck.py %s --tier %s" % (pid, r.get("tier")),
    "check_exit": r.get("check_exit"),
    "caught": r.get("caught"),
    "caught_with_failing_input": r.get("caught_with_failing_input"),
    "violation_lines": r.get("check_violations"),
    "detail": r.get("check_detail"),
    "replay_excerpt": r.get("replay_excerpt"),
    "note": note,
}
(d / "meta.json").write_text(json.dumps(meta, indent=1))
print("saved", d, "caught" if meta["caught"] else "MISSED")
