"""vrbt: the translator tie of property C02 at the pointer level (src/rbt.c: insertion, removal, search).

`rbt_translate_and_tie(ctx)` regenerates, from the CURRENT sources with tools/c2rbt.py and once per node layout (packed word
parent_ with the colour in bit 0, A_SIZE_POINTER 8; separate parent / color fields, A_SIZE_POINTER 1), the static helpers of
src/rbt.c (a_rbt_color, a_rbt_new_child, a_rbt_set_parent_color, a_rbt_set_parent, a_rbt_set_black, a_rbt_set_parents), the
header functions a_rbt_parent and a_rbt_init, and a_rbt_insert_adjust, a_rbt_remove_adjust, a_rbt_remove, a_rbt_insert,
a_rbt_search (every function for which a tie theorem exists) into build/C02/gen_rbt/<layout>/RbtGen.v, and compiles
harness/C02/TieRbt*.v against each - a file as soon as the files it requires are compiled, independent ones in parallel.  Every
`Theorem tie_*` there is one obligation per layout:
  * TieRbtBase.v: the accessors and setters are the field operations the model's helpers stand for, for every state and argument;
    a_rbt_set_parents on every heap in which its two nodes are allocated and the first hangs from a slot;
  * TieRbt.v: one theorem per kind of iteration of the loop of a_rbt_insert_adjust = per status-resolution step of
    RbtDefs.ins_fix_left / ins_fix_right / insert (root reached, black parent, case 1, case 3, case 2 + 3, and the mirror images):
    on ANY heap in which the tree (distinct ids) is laid out below a slot (Repr of coq/C02/RbtTieLemmas.v) the iteration leaves the
    model's tree - colours included - laid out below the same slot, every cell outside the tree untouched; then
    a_rbt_insert_adjust, with fuel > height, against RbtDefs.insert on the tree with the new red leaf linked;
  * TieRbtRemoveL.v / TieRbtRemoveR.v / TieRbtRemove.v: one iteration of the loop of a_rbt_remove_adjust with node =
    parent->left / parent->right is RbtDefs.fix_left / fix_right (case 1 then cases 2-4 in the same iteration, the A_ASSUMEs
    translated as checks), then a_rbt_remove_adjust against the model's resolution of the deficit along the path to the root;
  * TieRbtUnlink.v / TieRbtRemoveFn.v: the unlink / successor splice of a_rbt_remove per shape (leaf, one child, successor = right
    child, successor deeper: the do-while descent), then a_rbt_remove against RbtDefs.unlink + resolution (= RbtDefs.del once the
    node is found);
  * TieRbtInsert.v: a_rbt_init, a_rbt_search = RbtDefs.find, a_rbt_insert (descent with the comparator as a Gallina function,
    init, link, fix-up) against RbtDefs.insert.
No red-black or search-tree invariant is assumed anywhere, only that the model does not fault.  `Print Assumptions` under each
theorem must say "Closed under the global context".  Failures go to ctx.tie_broken with the name of the tie theorem.  The part of
the argument that does not depend on the C (coq/C02/RbtTieLemmas*.v: vocabulary, packed-word arithmetic, Repr and its frame
lemmas, tree contexts, the inductions that run the loops against the model's recursion) is compiled by ctx.coq_build (only when
stale).  Honours VERIF_REPO (vlib.REPO)."""
import hashlib
import re
from concurrent.futures import ThreadPoolExecutor, wait, FIRST_COMPLETED
from pathlib import Path

try:
    from tools import vlib
except ImportError:  # pragma: no cover
    import vlib
try:
    from tools import c2rbt
except ImportError:  # pragma: no cover
    import c2rbt

HARN = vlib.VERIF / "harness" / "C02"
# compiled against the same generated module, each as soon as the files it requires (as Gen.<name>) are; independent ones in parallel
TIE_FILES = [HARN / "TieRbtBase.v", HARN / "TieRbt.v", HARN / "TieRbtRemoveL.v", HARN / "TieRbtRemoveR.v", HARN / "TieRbtRemove.v",
             HARN / "TieRbtUnlink.v", HARN / "TieRbtRemoveFn.v", HARN / "TieRbtInsert.v"]
LEMMA_FILES = ["C02/RbtTieLemmas.v", "C02/RbtTieLemmasRemove.v", "C02/RbtTieLemmasUnlink.v", "C02/RbtTieLemmasInsert.v"]
GEN = "RbtGen.v"
LAYOUTS = (("packed", "A_SIZE_POINTER 8: parent and colour in the word parent_"),
           ("unpacked", "A_SIZE_POINTER 1: separate fields parent and color"))
# which tie theorems speak about a function (its own, and those of the functions that call it)
USED_BY = {
    "a_rbt_parent": ["a_rbt_set_parents", "a_rbt_insert_adjust", "a_rbt_remove_adjust", "a_rbt_remove"],
    "a_rbt_color": ["a_rbt_insert_adjust", "a_rbt_remove_adjust", "a_rbt_remove"],
    "a_rbt_new_child": ["a_rbt_set_parents", "a_rbt_insert_adjust", "a_rbt_remove_adjust", "a_rbt_remove"],
    "a_rbt_set_parent_color": ["a_rbt_set_parents", "a_rbt_insert_adjust", "a_rbt_remove_adjust", "a_rbt_remove"],
    "a_rbt_set_parent": ["a_rbt_remove_adjust", "a_rbt_remove"],
    "a_rbt_set_black": ["a_rbt_remove_adjust"],
    "a_rbt_set_parents": ["a_rbt_insert_adjust", "a_rbt_remove_adjust"],
    "a_rbt_remove_adjust": ["a_rbt_remove"],
    "a_rbt_insert_adjust": ["a_rbt_insert"],
    "a_rbt_init": ["a_rbt_insert"],
}


def layout_cfg(ctx, layout):
    """configuration header of a layout: the default one, or the same with A_SIZE_POINTER forced to a value with no spare bits
    (the #else arms of rbt.h / rbt.c), as build_unpacked of checks/C02.py does"""
    base = ctx.cfg_header()
    if layout == "packed":
        return base
    txt = base.read_text().replace("#define A_SIZE_POINTER 8", "#define A_SIZE_POINTER 1")
    if "#define A_SIZE_POINTER 1" not in txt:
        raise vlib.CheckError("cannot derive the unpacked configuration header")
    p = ctx.build / "cfg_rbt_unpacked.h"
    if not p.exists() or p.read_text() != txt:
        p.write_text(txt)
    return p


def first_error(out):
    m = re.search(r'line (\d+), characters [^\n]*\n((?:[^\n]*\n?){0,14})', out)
    if not m:
        return None, " ".join(out.split())[-500:]
    msg = " ".join(m.group(2).split())
    # a failed symbolic run prints its whole context first: keep the verdict that follows it
    rest = " ".join(out[m.start():].split())
    v = re.search(r"(Unable to unify|No applicable tactic|Tactic failure|No matching clauses|Found no subterm|was not found|"
                  r"Cannot find|has type .{0,80} while it is expected|Not a|No such|Illegal|Anomaly)", rest)
    if v and v.start() > 300:
        msg = msg[:160] + " ... " + rest[v.start():]
    return int(m.group(1)), msg[:600]


def owner_theorem(src, line):
    """(name of the lemma/theorem the line belongs to, tie theorem it serves = itself or the first `Theorem tie_` after it)"""
    lines = src.splitlines()
    name = None
    for i in range(min(line, len(lines)) - 1, -1, -1):
        m = re.match(r"\s*(?:Theorem|Lemma|Corollary|Definition|Fixpoint|Example|Fact|Remark|Proposition|Ltac)\s+([\w']+)", lines[i])
        if m:
            name = m.group(1)
            break
    if name and name.startswith("tie_"):
        return name, name
    for i in range(max(line - 1, 0), len(lines)):
        m = re.match(r"\s*Theorem\s+(tie_[\w']+)", lines[i])
        if m:
            return name, m.group(1)
    return name, None


def function_of(thm):
    """the translated function a tie theorem is about: the longest name f with thm = tie_<f> or tie_<f>_<case>"""
    best = None
    for f in c2rbt.FUNCTIONS:
        if thm == "tie_" + f or thm.startswith("tie_" + f + "_"):
            if best is None or len(f) > len(best):
                best = f
    return best


def theorems_about(fn, thms):
    """tie theorems that cannot be stated / no longer hold when the translation of fn is missing"""
    fs = [fn] + USED_BY.get(fn, [])
    return [t for t in thms if function_of(t) in fs]


def prepare_layout(ctx, layout, what, ties, thms, funcs, timeout):
    """translate the sources for one layout and compile the generated module; ties: [(path, source, [theorem names])]"""
    r = {"layout": layout, "what": what, "text": "", "errs": {}, "facts": {}, "assumes": {}, "broken": [], "discharged": 0,
         "done": set(), "failed": set()}
    tag = "%s layout (%s)" % (layout, what)
    names = ", ".join(p.name for p, _, _ in ties)
    # a run against a scratch copy (VERIF_REPO) gets its own directory: it may run at the same time as a run on /repo
    scratch = "" if str(vlib.REPO) == "/repo" else "_" + hashlib.md5(str(vlib.REPO).encode()).hexdigest()[:8]
    gd = ctx.build / ("gen_rbt" + scratch) / layout
    gd.mkdir(parents=True, exist_ok=True)
    for old in list(gd.glob("*.vo")) + list(gd.glob("*.glob")) + list(gd.glob("*.vok")) + list(gd.glob("*.vos")):
        try:
            old.unlink()
        except OSError:
            pass
    r["gd"] = gd
    r["args"] = ["coqc", "-Q", str(vlib.COQ), "LibaV", "-Q", str(gd), "Gen", "-w", "none"]
    cfg = layout_cfg(ctx, layout)
    text, errs, facts, assumes = c2rbt.translate(vlib.REPO, str(Path(cfg).resolve()), funcs)
    r.update(text=text, errs=errs, facts=facts, assumes=assumes)
    (gd / GEN).write_text(text)
    if errs:
        for k, v in errs.items():
            about = theorems_about(k, thms)
            r["broken"].append("translator c2rbt, %s: %s is outside the supported subset, so tie theorem %s cannot be checked: %s"
                               % (tag, k, ", ".join(about) if about else "(all of %s)" % names, v))
        return r
    rc, out = vlib.sh(r["args"] + [str(gd / GEN)], cwd=gd, timeout=timeout)
    if rc != 0:
        r["broken"].append("generated pointer programs %s (%s) do not compile (all tie theorems of %s): %s"
                           % (GEN, tag, names, first_error(out)[1]))
    return r


def tie_one(r, path, src, mine, timeout):
    """compile one tie file against the generated module of a layout, then Print Assumptions under its theorems.
    -> (ok, message or None, number of theorems discharged)"""
    gd, args = r["gd"], r["args"]
    tag = "%s layout (%s)" % (r["layout"], r["what"])
    tf = gd / path.name
    tf.write_text(src)
    rc, out = vlib.sh(args + [str(tf)], cwd=gd, timeout=timeout)
    if rc != 0:
        line, msg = first_error(out)
        name, thm = owner_theorem(src, line) if line else (None, None)
        if rc == 124:
            msg = "coqc timeout after %ds; %s" % (timeout, msg)
        if thm and name and name != thm:
            which = "tie theorem %s (its lemma %s)" % (thm, name)
        else:
            which = "tie theorem %s" % (thm or name or "?")
        return (False, "regenerated pointer code of src/rbt.c no longer implements the proved tree model, %s: %s of %s fails: %s"
                % (tag, which, path.name, msg), mine.index(thm) if thm in mine else 0)
    if mine:
        paf = gd / ("PA_%s" % path.name)
        paf.write_text("From Gen Require Import %s.\n" % path.stem + "".join("Print Assumptions %s.\n" % t for t in mine))
        rc, pa = vlib.sh(args + [str(paf)], cwd=gd, timeout=timeout)
        closed = len(re.findall(r"^Closed under the global context", pa, flags=re.M))
        if rc != 0 or closed < len(mine):
            return (False, "Print Assumptions under the tie theorems of %s, %s: %d of %d closed: %s"
                    % (path.name, tag, closed, len(mine), " ".join(pa.split())[-300:]), 0)
    return True, None, len(mine)


def run_ties(res, ties, timeout, workers=min(6, max(2, vlib.NPROC // 2))):
    """the tie files of all layouts, each as soon as the files it requires (From Gen Require Import ...) are compiled; at most
    `workers` coqc at a time"""
    stems = {p.stem for p, _, _ in ties}
    deps = {}
    for p, src, _ in ties:
        req = set()
        for m in re.finditer(r"^\s*From\s+Gen\s+Require\s+(?:Import|Export)?\s*([^.]*)\.", src, flags=re.M):
            req.update(x for x in m.group(1).split() if x in stems and x != p.stem)
        deps[p.stem] = req
    live = [r for r in res if not r["broken"]]
    with ThreadPoolExecutor(max_workers=workers) as ex:
        running = {}
        while True:
            for r in live:
                for p, src, mine in ties:
                    key = (r["layout"], p.stem)
                    if key in running or p.stem in r["done"] or p.stem in r["failed"]:
                        continue
                    if deps[p.stem] & r["failed"]:
                        r["failed"].add(p.stem)          # what it requires did not compile: reported there
                        continue
                    if deps[p.stem] <= r["done"]:
                        running[key] = (ex.submit(tie_one, r, p, src, mine, timeout), r, p)
            if not running:
                break
            fut_done, _ = wait([f for f, _, _ in running.values()], return_when=FIRST_COMPLETED)
            for key in [k for k, v in running.items() if v[0] in fut_done]:
                f, r, p = running.pop(key)
                ok, msg, n = f.result()
                r["discharged"] += n
                if ok:
                    r["done"].add(p.stem)
                else:
                    r["failed"].add(p.stem)
                    r["broken"].append(msg)


def rbt_translate_and_tie(ctx, timeout=600):
    """Returns True iff every tie theorem was accepted in both layouts."""
    ties = []
    for path in TIE_FILES:
        if path.exists():
            src = path.read_text()
            ties.append((path, src, re.findall(r"^\s*Theorem\s+(tie_[\w']+)", src, flags=re.M)))
    thms = [t for _, _, mine in ties for t in mine]
    names = ", ".join(p.name for p, _, _ in ties)
    # the functions the tie files speak about (a function of a later stage is translated only once its theorem exists)
    funcs = [f for f in c2rbt.FUNCTIONS if f in c2rbt.HELPERS or "tie_" + f in thms]
    ctx.cov["obligations"] += len(thms) * len(LAYOUTS)
    ctx.cov.setdefault("translated_functions", []).extend(funcs)
    ctx.coq_setup()
    lemma_files = [f for f in LEMMA_FILES if (vlib.COQ / f).exists()]
    bad = []
    for _, src, _ in ties:
        bad += ctx.scan_forbidden_text(src)
        bad += re.findall(r"^\s*(?:Variable|Variables|Hypothesis|Hypotheses|Context)\b", src, flags=re.M)
    deps = sorted(set(d for f in lemma_files for d in ctx.coq_deps(f)))
    bad += ctx.scan_forbidden([vlib.COQ / f for f in deps])     # the lemma files and everything they require
    if bad:
        ctx.tie_broken("forbidden construct in %s / %s: %s" % (names, ", ".join(lemma_files), bad))
        return False
    missing = [f for f in funcs if "tie_" + f not in thms]
    if missing or not thms:
        ctx.tie_broken("%s have no tie theorem for: %s" % (names or "harness/C02/TieRbt*.v", ", ".join(missing) or "anything"))
        return False
    ok, outs, failed = ctx.coq_build(lemma_files, timeout=timeout)
    if not ok:
        ctx.tie_broken("pointer-level lemmas %s (needed by every tie theorem of %s) do not compile: %s"
                       % (", ".join(failed), names, " | ".join(" ".join(outs.get(f, "").split())[-300:] for f in failed)))
        return False
    with ThreadPoolExecutor(max_workers=len(LAYOUTS)) as ex:
        res = list(ex.map(lambda lw: prepare_layout(ctx, lw[0], lw[1], ties, thms, funcs, timeout), LAYOUTS))
    run_ties(res, ties, timeout)
    good = True
    for r in res:
        ctx.cov["discharged"] += r["discharged"]
        for b in r["broken"]:
            good = False
            ctx.tie_broken(b)
        if not r["broken"]:
            ctx.cov.setdefault("theorems", []).extend("%s [%s layout]" % (t, r["layout"]) for t in thms)
    same = len(set(r["text"] for r in res)) == 1
    ctx.cov["rbt_pointer_tie"] = {
        "layouts": {r["layout"]: {"tie_theorems_accepted": r["discharged"], "of": len(thms),
                                  "packed_word_facts_used": r["facts"], "A_ASSUME_sites_translated": r["assumes"]} for r in res},
        "generated_code_identical_in_all_layouts": same,
        "generated_lines": {r["layout"]: r["text"].count("\n") for r in res},
        "functions": funcs}
    if not good:
        return False
    ctx.cov["trusted_base"].append(
        "translator tools/c2rbt.py (clang JSON AST -> Gallina heap programs over cells (left, right, parent, colour) + root slot, "
        "every access checked; the uses of the packed word parent_ - `& ~1`, `& 1`, `(a_uptr)P + K`, `P + (w & 1)`, `(a_uptr)P`, `|= 1`, "
        "word copy / word variable, and the whole word taken as a pointer by A_RBT_PARENT, which is exact only for a red node and an "
        "error otherwise - are recognised from the AST and mapped to the parent / colour components, each mapping an arithmetic lemma "
        "pw_* of C02/RbtTieLemmas.v for 64-bit words and 2-aligned pointers; for (;;) / while / do-while with break / continue become "
        "Fixpoints on fuel; A_ASSUME (here __builtin_assume) becomes a check; `a_rbt_node **link` is a slot, the comparator a Gallina "
        "function of two pointers); its output is re-tied on every run: %d tie theorems x %d node layouts (helpers = field operations "
        "for every state; every kind of iteration of the loops of a_rbt_insert_adjust and a_rbt_remove_adjust = one status-resolution "
        "step of RbtDefs, on every heap that lays the tree out, with frame; the splice of a_rbt_remove per shape; a_rbt_insert_adjust, "
        "a_rbt_remove_adjust, a_rbt_remove, a_rbt_insert, a_rbt_search against RbtDefs.insert / the deficit resolution / unlink + "
        "resolution (= del) / insert / find, for every tree on which the model does not fault and enough fuel) accepted by coqc, all "
        "closed under the global context; the generated code of the two layouts %s"
        % (len(thms), len(LAYOUTS), "is identical" if same else "differs (A_RBT_PARENT checks the colour bit in the packed one only; "
           "word copies read both components before they write)"))
    ctx.log("red-black pointer-level translator tie: %d functions regenerated per layout, %d tie theorems x %d layouts accepted"
            % (len(funcs), len(thms), len(LAYOUTS)))
    return True
