#!/usr/bin/env python3
"""Regenerate the seeded-change table of DESIGN.md (between the SEEDED-TABLE markers) from seeded/*/meta.json."""
import json
import re
from pathlib import Path

V = Path(__file__).resolve().parent.parent
rows = []
for d in sorted((V / "seeded").iterdir()):
    mp = d / "meta.json"
    if not mp.exists():
        continue
    m = json.loads(mp.read_text())
    patch = (d / "patch.diff").read_text() if (d / "patch.diff").exists() else ""
    files = sorted(set(re.findall(r"^\+\+\+ b/(\S+)", patch, flags=re.M)))
    need = " ".join(re.sub(r"[=\-]{4,}", " ", m.get("needs_to_manifest") or "").split())
    first = need[:150].rstrip() + ("..." if len(need) > 150 else "")
    how = "missed"
    if m.get("caught"):
        how = "caught, failing input in the replay" if m.get("caught_with_failing_input") else "caught (no-failing-input-found)"
    if m.get("note"):
        how += "; see note"
    rows.append("| %s | %s | %s | %s | %s |" % (d.name, m.get("property"), ", ".join(files), first.replace("|", "/"), how))
table = ("| id | property | files changed | what it needs to manifest (from the author's notes) | result of `%s` |\n"
         "|----|----------|---------------|------------------------------------------------------|--------|\n" % "vcheck.py <ID> --tier quick"
         + "\n".join(rows) + "\n")
p = V / "DESIGN.md"
s = p.read_text()
a, b = "<!-- SEEDED-TABLE-BEGIN -->", "<!-- SEEDED-TABLE-END -->"
if a in s:
    s = s[:s.index(a) + len(a)] + "\n" + table + s[s.index(b):]
    p.write_text(s)
print(table)
