#!/usr/bin/env python3
"""c2avl: translate the pointer-surgery helpers of src/avl.c (+ the accessor a_avl_parent of include/a/avl.h) from the clang JSON
AST into Gallina heap programs over the vocabulary of coq/C01/AvlTieLemmas.v (property C01).  The output is a module
`Gen.AvlGen`, regenerated from the CURRENT sources on every run, in both node layouts, and proved by harness/C01/TieAvl.v to
implement the tree-level operations of coq/C01/AvlDefs.v (rotate, rotate2, ...) on every heap.

The heap.  `state` = (hp : Z -> option cell, rootp : option Z): a partial map from node ids to cells
(cl, cr, cp : option Z = left / right / parent, None = null;  cf : Z = the balance factor) plus the one cell of the tree object
(`root->node`).  Every access is checked: `rd st F p` / `wr_l`, `wr_r`, `wr_p`, `wr_f st p v` are None when p is null or not
allocated, and `wr_f` is None as well when the factor written is outside -1..1 (AvlDefs.add_factor's error).  `bind` sequences.

Values.  `a_avl_node *` (const or not) -> option Z;  `int` -> Z (see "Integers");  `a_avl *` must be the function's own tree
parameter and denotes the root slot of the state;  an `int *` parameter (`int *left`) is an int the caller passes by address
(`&v` of a local int, or its own int* parameter - never a heap cell): the function takes its value as an argument and returns
the final value next to its result, `*left = e` rebinds it;  a local `a_avl_node **link` is a `slot` (the address of a link:
`&root->node` = SRoot, `&p->left` = SLeft p, `&p->right` = SRight p, p null = error), `*link` / `*link = v` are `rd_slot` /
`wr_slot`;  a comparator parameter `int (*cmp)(void const *, void const *)` is a Gallina function `option Z -> option Z -> Z`
of two pointers - ASSUMED pure: it looks at the user's enclosing structures and never touches the tree - and a `void const *`
parameter is an opaque value that is only handed to it.  Variables are renamed at every binding: the value a C variable `x` got from
its k-th binding is `x'k` (`x'0` = the parameter); temporaries are `t'k`, states `st'k`.

What a function becomes.
    no write in it (and in what it calls), returns T       Definition f (st'0 : state) <params> : option T
    writes, void                                            Definition f (st'0 : state) <params> : option state
    writes, returns T                                       Definition f (st'0 : state) <params> : option (T * state)
    with int* parameters                                    ... : option ([T *] Z * ... * state)   (their final values, in order)
Calls to functions translated earlier stay calls.  Statements: declarations with initialiser, assignment, `+=`, if / else,
return (also early), blocks, calls; `while` / `do-while` (see Fn.loop: a Fixpoint on a fuel argument, one unit per iteration,
out of fuel = None, everything the function does after the loop inside the Fixpoint; the function then takes `(fuel : nat)`
first, and so does every function that calls it - the callee runs on the caller's fuel).  Expressions are translated in continuation style, each read where the C evaluates it
(a field the C reads twice is read twice); the statements after an `if` appear in both arms.

Plain layout (A_SIZE_POINTER < 4): fields left, right, parent, factor are read with `rd st cl|cr|cp|cf p` and written with
`wr_l|wr_r|wr_p|wr_f`;  `x->factor += a`  is  rd cf, then wr_f of the sum.
`*(c ? &x->left : &x->right) = v`  is  `if c then x->left = v else x->right = v`.

Packed layout (A_SIZE_POINTER >= 4): the word `parent_` holds  parent | (factor + 1).  The model keeps the two components; the
translator recognises, FROM THE AST, exactly these uses of the word and nothing else (any other use: Unsupported, function +
line).  Each mapping is an arithmetic fact about the word  w = p + t  with p a multiple of 4 (node pointers are 4-aligned: the
layout's own requirement, avl.h), t = factor + 1 in 0..2, proved in AvlTieLemmas.v (section PackedWord, 64-bit words):
    (a_avl_node *)(x->parent_ & ~(a_uptr)3)            rd st cp x                 [pw_parent;  ~3 must be taken at word width]
    (int)(x->parent_ & 3)                               (rd st cf x) + 1           [pw_tag]     (`- 1` after it cancels: `(f + 1) - 1` is printed `f`)
    x->parent_ = (a_uptr)P | (a_uptr)(G)                wr_p x P; wr_f x (G - 1)   [pw_make: needs 0 <= G <= 2, i.e. the check wr_f makes;
                                                                                   a G outside 0..3 would overwrite pointer bits, G = 3 is the undefined code]
                                                                                  (`(F + 1) - 1` is printed `F`)
    x->parent_ = (a_uptr)P | (x->parent_ & 3)           wr_p x P                   [pw_set_parent: tag kept; same x on both sides]
    x->parent_ = y->parent_                             wr_p x (rd cp y); wr_f x (rd cf y)   [the word determines both components]
    x->parent_ += (a_uptr)A                             f <- rd cf x; wr_f x (f + A)
                                                                                  [pw_add: modulo 2^64 the word becomes p + (t + A) exactly when
                                                                                   0 <= t + A <= 3 - no carry into / borrow from the pointer bits -
                                                                                   and a valid code when t + A <= 2: again wr_f's check, otherwise error]
With these, the two layouts generate the same text (vavl.py records whether they did).

Integers.  `int` expressions (`+ - *`, unary `+ -`, literals, comparisons, `c ? a : b`) are translated to Z without a
wrap-around check: they are exact while every intermediate value is inside the range of int; the tie theorems are stated for
sign = -1 / +1 and factors in -1..1, where every intermediate value is within -2..2.

Anything else (for, break, continue, nested loops, goto, switch, address-of outside the pattern above, other fields, other types, uninitialised reads, calls of
functions not translated earlier ...) raises Unsupported with function and line - nothing is approximated silently."""
import json
import subprocess
import sys

PRELUDE = """(* GENERATED by tools/c2avl.py from the current sources - do not edit. *)
From Coq Require Import ZArith Bool.
From LibaV Require Import C01.AvlTieLemmas C01.AvlTieLemmasInsert.
Local Open Scope Z_scope.

"""

NODE, TREE = "a_avl_node", "a_avl"
T_NODE, T_TREE, T_NODEPP = NODE + "*", TREE + "*", NODE + "**"
T_CMP, T_OPAQUE = "int(*)(void*,void*)", "void*"
WORD_TYPES = ("unsignedlong", "unsignedlonglong", "a_uptr", "uintptr_t")
FIELDS = {"left": ("cl", "wr_l", "ptr"), "right": ("cr", "wr_r", "ptr"), "parent": ("cp", "wr_p", "ptr"), "factor": ("cf", "wr_f", "int")}
WORD = "parent_"
ROOT_FIELD = "node"

# translation order (callees first); a_avl_parent comes from the header
STAGE12 = ["a_avl_parent", "a_avl_new_child", "a_avl_child", "a_avl_set_child", "a_avl_set_parent_factor", "a_avl_set_parent",
           "a_avl_factor", "a_avl_set_factor", "a_avl_rotate", "a_avl_rotate2"]
STAGE3 = ["a_avl_handle_growth", "a_avl_insert_adjust"]
STAGE4 = ["a_avl_handle_shrink", "a_avl_handle_remove", "a_avl_remove"]
STAGE5 = ["a_avl_init", "a_avl_insert", "a_avl_search"]
FUNCTIONS = STAGE12 + STAGE3 + STAGE4 + STAGE5


class Unsupported(Exception):
    pass


class _Impure(Exception):
    """raised inside pure_int / pure_bool when the expression would read the heap or call a function"""


def load_ast(path, include, cfg):
    cmd = ["clang", "-std=c11", "-I", str(include), '-DA_HAVE_H="%s"' % cfg, "-fsyntax-only", "-Xclang", "-ast-dump=json", str(path)]
    p = subprocess.run(cmd, stdout=subprocess.PIPE, stderr=subprocess.PIPE, text=True)
    if p.returncode != 0 or not p.stdout:
        raise Unsupported("clang failed on %s: %s" % (path, " ".join(p.stderr.split())[-400:]))
    return json.loads(p.stdout)


class Lines:
    """clang's JSON dump omits `line` in a location when it equals the line of the location printed before it: resolve the
    line of every node by a pass in document order"""

    def __init__(self):
        self.map = {}
        self.last = None

    def one(self, l):
        if not l:
            return None
        if "spellingLoc" in l or "expansionLoc" in l:
            self.one(l.get("spellingLoc"))
            return self.one(l.get("expansionLoc"))
        if l.get("line"):
            self.last = l["line"]
        return self.last

    def fill(self, n):
        if not isinstance(n, dict):
            return
        a = self.one(n.get("loc"))
        rng = n.get("range") or {}
        b = self.one(rng.get("begin"))
        self.one(rng.get("end"))
        if "id" in n:
            self.map.setdefault(n["id"], b or a)
        for c in n.get("inner", []) or []:
            self.fill(c)


def skip(n):
    """drop parentheses and value-preserving implicit casts (never an explicit cast, never a conversion)"""
    while isinstance(n, dict):
        k = n.get("kind")
        if k == "ParenExpr":
            n = n["inner"][0]
        elif k == "ImplicitCastExpr" and n.get("castKind") in ("LValueToRValue", "NoOp", "FunctionToPointerDecay"):
            n = n["inner"][0]
        else:
            break
    return n


def qual(n):
    t = n.get("type") or {}
    return t.get("desugaredQualType") or t.get("qualType") or ""


def norm_type(q):
    toks = q.replace("*", " * ").split()
    return "".join(t for t in toks if t not in ("const", "struct", "union", "volatile", "restrict", "__restrict"))


def is_word_type(n):
    t = n.get("type") or {}
    return norm_type(t.get("qualType") or "") in WORD_TYPES or norm_type(t.get("desugaredQualType") or "") in WORD_TYPES


def ind(txt, by=2):
    pad = " " * by
    return "\n".join(pad + l if l else l for l in txt.split("\n"))


def same_lvalue_base(a, b):
    """both are the same variable (the only form in which the C names one node twice in a word update)"""
    a, b = skip(a), skip(b)
    return a.get("kind") == "DeclRefExpr" and b.get("kind") == "DeclRefExpr" and \
        a["referencedDecl"].get("id") == b["referencedDecl"].get("id") and a["referencedDecl"].get("id") is not None


class Tr:
    def __init__(self, ast):
        self.funcs = {}
        for n in ast.get("inner", []):
            if n.get("kind") == "FunctionDecl" and any(c.get("kind") == "CompoundStmt" for c in n.get("inner", [])):
                self.funcs[n["name"]] = n
        self.lines = Lines()
        self.done = {}          # name -> sig
        self.packed_facts = {}  # name -> list of packed-word facts used

    def writes(self, n):
        """does the subtree assign through a pointer or call a writer translated earlier?"""
        if isinstance(n, dict):
            if n.get("kind") in ("BinaryOperator", "CompoundAssignOperator") and (n.get("opcode") == "=" or n.get("kind") == "CompoundAssignOperator"):
                if skip(n["inner"][0]).get("kind") != "DeclRefExpr":
                    return True
            if n.get("kind") == "UnaryOperator" and n.get("opcode") in ("++", "--"):
                return True
            if n.get("kind") == "CallExpr":
                nm = skip(n["inner"][0]).get("referencedDecl", {}).get("name")
                if nm in self.done and self.done[nm]["writes"]:
                    return True
            return any(self.writes(c) for c in n.get("inner", []) or [])
        return False

    def translate(self, name):
        if name not in self.funcs:
            raise Unsupported("function %s not found with a body" % name)
        F = Fn(self, self.funcs[name])
        text = F.run()
        self.done[name] = F.sig
        self.packed_facts[name] = sorted(F.facts)
        return text


class Fn:
    def __init__(self, tr, node):
        self.tr, self.node, self.name = tr, node, node["name"]
        tr.lines.fill(node)
        self.counter = {}
        self.sig = None
        self.facts = set()
        self.pure = 0

    def where(self, n):
        return "%s:%s" % (self.name, self.tr.lines.map.get(n.get("id")))

    def bad(self, what, n):
        raise Unsupported("%s at %s" % (what, self.where(n)))

    def fresh(self, base):
        k = self.counter.get(base, 0) + 1
        self.counter[base] = k
        return "%s'%d" % (base, k)

    # E = {"env": {C variable: (type, term) ; term None = uninitialised}, "st": current state variable, "root": tree parameter}
    def with_var(self, E, nm, ty, term):
        E2 = dict(E)
        E2["env"] = dict(E["env"])
        E2["env"][nm] = (ty, term)
        return E2

    def with_st(self, E, s):
        E2 = dict(E)
        E2["st"] = s
        return E2

    def read(self, fld, p, E, k, name="t"):
        if self.pure:
            raise _Impure()
        t = self.fresh(name)
        return "bind (rd %s %s %s) (fun %s =>\n%s)" % (E["st"], fld, p, t, k(t))

    # ---------------------------------------------------------------- the packed word
    def word_field(self, n):
        """n is `x->parent_` of word type: return the node expression x, else None"""
        m = skip(n)
        if m.get("kind") == "MemberExpr" and m.get("isArrow") and m.get("name") == WORD and is_word_type(m) \
                and norm_type(qual(skip(m["inner"][0]))) == T_NODE:
            return m["inner"][0]
        return None

    def literal(self, n, through_casts=True):
        """integer literal, possibly under integral casts: (value, widest type seen) or None"""
        n = skip(n)
        wide = False
        while through_casts and n.get("kind") in ("CStyleCastExpr", "ImplicitCastExpr") and n.get("castKind") == "IntegralCast":
            wide = wide or is_word_type(n)
            n = skip(n["inner"][0])
        if n.get("kind") == "IntegerLiteral":
            return int(n["value"]), wide
        return None

    def tag_of(self, n):
        """n is `x->parent_ & 3` (at word width): return x, else None"""
        m = skip(n)
        if m.get("kind") == "BinaryOperator" and m.get("opcode") == "&" and is_word_type(m):
            x = self.word_field(m["inner"][0])
            lit = self.literal(m["inner"][1])
            if x is not None and lit is not None:
                if lit[0] != 3:
                    self.bad("`%s & %d`: the balance factor occupies the bits 3 of the word" % (WORD, lit[0]), m)
                return x
        return None

    # ---------------------------------------------------------------- node-pointer expressions
    def ptr(self, n, E, k):
        n0 = n
        n = skip(n)
        kind = n.get("kind")
        if kind in ("ImplicitCastExpr", "CStyleCastExpr") and n.get("castKind") == "NullToPointer":
            z = n
            while isinstance(z, dict) and z.get("kind") in ("ImplicitCastExpr", "CStyleCastExpr", "ParenExpr"):
                z = z["inner"][0]
            if z.get("kind") == "IntegerLiteral" and z.get("value") == "0":
                return k("None")
            self.bad("null pointer constant of an unknown form", n)
        if kind == "ImplicitCastExpr":
            self.bad("pointer conversion %s" % n.get("castKind"), n)
        if norm_type(qual(n)) != T_NODE:
            self.bad("expression of type `%s` where a `%s *` is expected" % (qual(n), NODE), n0)
        if kind == "DeclRefExpr":
            nm = n["referencedDecl"]["name"]
            if nm not in E["env"] or E["env"][nm][0] != "ptr":
                self.bad("variable %s is not a node pointer known here" % nm, n)
            if E["env"][nm][1] is None:
                self.bad("read of the uninitialised variable %s" % nm, n)
            return k(E["env"][nm][1])
        if kind == "MemberExpr":
            if not n.get("isArrow"):
                self.bad("member access without ->", n)
            b = skip(n["inner"][0])
            bt = norm_type(qual(b))
            if bt == T_TREE:
                if b.get("kind") != "DeclRefExpr" or b["referencedDecl"]["name"] != E["root"] or n["name"] != ROOT_FIELD:
                    self.bad("access to a tree object other than the function's own `root->%s`" % ROOT_FIELD, n)
                return k("(rootp %s)" % E["st"])
            if bt != T_NODE:
                self.bad("member of a `%s`" % qual(b), n)
            f = FIELDS.get(n["name"])
            if not f or f[2] != "ptr":
                self.bad("field `%s` read as a node pointer" % n["name"], n)
            return self.ptr(b, E, lambda p: self.read(f[0], p, E, k))
        if kind == "CStyleCastExpr" and n.get("castKind") == "IntegralToPointer":
            # (a_avl_node *)(x->parent_ & ~(a_uptr)3)
            a = skip(n["inner"][0])
            if a.get("kind") == "BinaryOperator" and a.get("opcode") == "&" and is_word_type(a):
                x = self.word_field(a["inner"][0])
                m = skip(a["inner"][1])
                if x is not None and m.get("kind") == "UnaryOperator" and m.get("opcode") == "~":
                    lit = self.literal(m["inner"][0])
                    if lit is not None:
                        if not lit[1]:
                            self.bad("`~%d` is complemented at the width of int, not of the word `%s`" % (lit[0], WORD), m)
                        if lit[0] != 3:
                            self.bad("the parent pointer is taken as `%s & ~%d`; the balance factor occupies the bits 3" % (WORD, lit[0]), m)
                        self.facts.add("pw_parent")
                        return self.ptr(x, E, lambda p: self.read("cp", p, E, k))
            self.bad("integer converted to a node pointer in a form other than `(%s *)(x->%s & ~(a_uptr)3)`" % (NODE, WORD), n)
        if kind == "UnaryOperator" and n.get("opcode") == "*":
            b = skip(n["inner"][0])
            if b.get("kind") == "DeclRefExpr" and E["env"].get(b["referencedDecl"]["name"], (None,))[0] == "slot":
                sv = E["env"][b["referencedDecl"]["name"]][1]
                if sv is None:
                    self.bad("read through the uninitialised %s" % b["referencedDecl"]["name"], n)
                if self.pure:
                    raise _Impure()
                t = self.fresh("t")
                return "bind (rd_slot %s %s) (fun %s =>\n%s)" % (E["st"], sv, t, k(t))
            self.bad("dereference of something other than a local `%s **`" % NODE, n)
        if kind == "CallExpr":
            return self.call(n, E, "ptr", lambda v, E1: k(v) if E1["st"] == E["st"] else
                             self.bad("call of a writing function inside an expression", n))
        if kind == "ConditionalOperator":
            c, a, b = n["inner"]
            return self.cond(c, E, lambda: self.ptr(a, E, k), lambda: self.ptr(b, E, k))
        self.bad("pointer expression %s" % kind, n)

    # ---------------------------------------------------------------- `a_avl_node **`: the address of a link
    def slot(self, n, E, k):
        n = skip(n)
        if n.get("kind") == "DeclRefExpr" and E["env"].get(n["referencedDecl"]["name"], (None,))[0] == "slot":
            v = E["env"][n["referencedDecl"]["name"]][1]
            if v is None:
                self.bad("read of the uninitialised variable %s" % n["referencedDecl"]["name"], n)
            return k(v)
        if n.get("kind") == "UnaryOperator" and n.get("opcode") == "&":
            m = skip(n["inner"][0])
            if m.get("kind") == "MemberExpr" and m.get("isArrow"):
                b = skip(m["inner"][0])
                bt = norm_type(qual(b))
                if bt == T_TREE and b.get("kind") == "DeclRefExpr" and b["referencedDecl"]["name"] == E["root"] and m["name"] == ROOT_FIELD:
                    return k("SRoot")
                if bt == T_NODE and m["name"] in ("left", "right"):
                    # the address is formed from a node pointer that must be valid (null: an error, as a dereference)
                    ctor = "slot_l" if m["name"] == "left" else "slot_r"
                    t = self.fresh("t")
                    return self.ptr(b, E, lambda p: "bind (%s %s) (fun %s =>\n%s)" % (ctor, p, t, k(t)))
        self.bad("expression of type `%s **` other than `&root->%s`, `&p->left`, `&p->right` or a local variable" % (NODE, ROOT_FIELD), n)

    # ---------------------------------------------------------------- int expressions
    def is_int(self, n):
        return norm_type(qual(n)) == "int"

    def int(self, n, E, k):
        n = skip(n)
        kind = n.get("kind")
        if not self.is_int(n):
            self.bad("expression of type `%s` where an int is expected" % qual(n), n)
        if kind == "IntegerLiteral":
            return k(n["value"])
        if kind == "DeclRefExpr":
            nm = n["referencedDecl"]["name"]
            if nm not in E["env"] or E["env"][nm][0] != "int" or nm in E.get("refs", ()):
                self.bad("variable %s is not an int known here" % nm, n)
            if E["env"][nm][1] is None:
                self.bad("read of the uninitialised variable %s" % nm, n)
            return k(E["env"][nm][1])
        if kind == "UnaryOperator" and n.get("opcode") == "*":
            b = skip(n["inner"][0])
            if b.get("kind") == "DeclRefExpr" and b["referencedDecl"]["name"] in E.get("refs", ()):
                return k(E["env"][b["referencedDecl"]["name"]][1])
            self.bad("dereference of something other than the function's own int* parameter", n)
        if kind == "UnaryOperator" and n.get("opcode") in ("+", "-"):
            if n["opcode"] == "+":
                return self.int(n["inner"][0], E, k)
            return self.int(n["inner"][0], E, lambda a: k("(- %s)" % a))
        if kind == "BinaryOperator" and n.get("opcode") in ("+", "-", "*"):
            op = n["opcode"]

            def fin(a, b):
                # (f + 1) - 1  is printed  f
                if op == "-" and b == "1" and a.startswith("(") and a.endswith(" + 1)") and self.balanced(a[1:-5]):
                    return k(a[1:-5])
                return k("(%s %s %s)" % (a, op, b))
            return self.int(n["inner"][0], E, lambda a: self.int(n["inner"][1], E, lambda b: fin(a, b)))
        if kind == "MemberExpr":
            if not n.get("isArrow"):
                self.bad("member access without ->", n)
            b = skip(n["inner"][0])
            f = FIELDS.get(n["name"])
            if norm_type(qual(b)) != T_NODE or not f or f[2] != "int":
                self.bad("int member `%s` of a `%s`" % (n.get("name"), qual(b)), n)
            return self.ptr(b, E, lambda p: self.read(f[0], p, E, k))
        if kind == "CStyleCastExpr" and n.get("castKind") == "IntegralCast":
            # (int)(x->parent_ & 3): the tag = factor + 1
            x = self.tag_of(n["inner"][0])
            if x is not None:
                self.facts.add("pw_tag")
                return self.ptr(x, E, lambda p: self.read("cf", p, E, lambda f: k("(%s + 1)" % f)))
            self.bad("integer cast in a form other than `(int)(x->%s & 3)`" % WORD, n)
        if kind == "CallExpr" and self.is_cmp_call(n, E):
            return self.cmp_call(n, E, k)
        if kind == "CallExpr":
            return self.call(n, E, "int", lambda v, E1: k(v) if E1["st"] == E["st"] else
                             self.bad("call of a writing function inside an expression", n))
        if kind == "ConditionalOperator":
            c, a, b = n["inner"]
            bc = self.pure_bool(c, E)
            ta, tb = self.pure_int(a, E), self.pure_int(b, E)
            if bc is None or ta is None or tb is None:
                self.bad("?: on int whose parts read the heap", n)
            return k("(if %s then %s else %s)" % (bc, ta, tb))
        self.bad("int expression %s%s" % (kind, " " + n.get("opcode") if n.get("opcode") else ""), n)

    def is_cmp_call(self, n, E):
        cal = skip(n["inner"][0])
        return cal.get("kind") == "DeclRefExpr" and E["env"].get(cal["referencedDecl"].get("name"), (None,))[0] == "cmp"

    def cmp_call(self, n, E, k):
        """cmp(a, b): a and b are node pointers (converted to `const void *`) or the opaque context parameter"""
        f = E["env"][skip(n["inner"][0])["referencedDecl"]["name"]][1]
        if f is None:
            self.bad("the comparator has no value here", n)
        args = n["inner"][1:]
        if len(args) != 2:
            self.bad("comparator called with %d arguments" % len(args), n)

        def arg(a, kk):
            a = skip(a)
            while a.get("kind") == "ImplicitCastExpr" and a.get("castKind") in ("BitCast", "NoOp") and norm_type(qual(a)) == T_OPAQUE:
                a = skip(a["inner"][0])
            if a.get("kind") == "DeclRefExpr" and E["env"].get(a["referencedDecl"]["name"], (None,))[0] == "opaque":
                if E["env"][a["referencedDecl"]["name"]][1] is None:
                    self.bad("%s has no value here" % a["referencedDecl"]["name"], n)
                return kk(E["env"][a["referencedDecl"]["name"]][1])
            return self.ptr(a, E, kk)
        return arg(args[0], lambda x: arg(args[1], lambda y: k("(%s %s %s)" % (f, x, y))))

    @staticmethod
    def balanced(s):
        d = 0
        for ch in s:
            d += ch == "("
            d -= ch == ")"
            if d < 0:
                return False
        return d == 0

    def pure_int(self, n, E):
        """the term of an int expression that reads nothing (None when it would read)"""
        box = []
        self.pure += 1
        try:
            self.int(n, E, lambda t: (box.append(t), "")[1])
        except _Impure:
            return None
        finally:
            self.pure -= 1
        return box[0] if box else None

    CMP = {"<": "<?", "<=": "<=?", ">": ">?", ">=": ">=?", "==": "=?"}

    def pure_bool(self, n, E):
        m = skip(n)
        if m.get("kind") == "BinaryOperator" and m.get("opcode") in self.CMP and self.is_int(skip(m["inner"][0])) and self.is_int(skip(m["inner"][1])):
            a, b = self.pure_int(m["inner"][0], E), self.pure_int(m["inner"][1], E)
            if a is not None and b is not None:
                return "(%s %s %s)" % (a, self.CMP[m["opcode"]], b)
        return None

    # ---------------------------------------------------------------- conditions
    def cond(self, n, E, kt, kf):
        m = skip(n)
        kind = m.get("kind")
        if kind == "UnaryOperator" and m.get("opcode") == "!":
            return self.cond(m["inner"][0], E, kf, kt)
        if kind == "BinaryOperator" and m.get("opcode") == "&&":
            return self.cond(m["inner"][0], E, lambda: self.cond(m["inner"][1], E, kt, kf), kf)
        if kind == "BinaryOperator" and m.get("opcode") == "||":
            return self.cond(m["inner"][0], E, kt, lambda: self.cond(m["inner"][1], E, kt, kf))
        if kind == "BinaryOperator" and m.get("opcode") in ("==", "!=", "<", "<=", ">", ">="):
            a, b = m["inner"]
            ta, tb = norm_type(qual(skip(a))), norm_type(qual(skip(b)))
            if ta == "int" and tb == "int":
                op = m["opcode"]
                if op == "!=":
                    op, kt, kf = "==", kf, kt
                return self.int(a, E, lambda x: self.int(b, E, lambda y: "if (%s %s %s)\nthen\n%s\nelse\n%s" % (x, self.CMP[op], y, ind(kt()), ind(kf()))))
            if m["opcode"] in ("==", "!="):
                if m["opcode"] == "!=":
                    kt, kf = kf, kt
                return self.ptr(a, E, lambda x: self.ptr(b, E, lambda y: "if oid_eqb %s %s\nthen\n%s\nelse\n%s" % (x, y, ind(kt()), ind(kf()))))
            self.bad("comparison %s between `%s` and `%s`" % (m["opcode"], qual(skip(a)), qual(skip(b))), m)
        if kind == "BinaryOperator" and m.get("opcode") in ("=", ","):
            self.bad("assignment inside a condition", m)
        if kind == "ImplicitCastExpr" and m.get("castKind") == "PointerToBoolean":
            return self.cond(m["inner"][0], E, kt, kf)
        if self.is_int(m):
            return self.int(m, E, lambda x: "if (%s =? 0)\nthen\n%s\nelse\n%s" % (x, ind(kf()), ind(kt())))
        return self.ptr(n, E, lambda x: "if nonnull %s\nthen\n%s\nelse\n%s" % (x, ind(kt()), ind(kf())))

    # ---------------------------------------------------------------- effects
    def effect(self, n, E, k):
        m = n
        voided = False
        while isinstance(m, dict) and (m.get("kind") == "ParenExpr" or (m.get("kind") == "CStyleCastExpr" and m.get("castKind") == "ToVoid")):
            voided = voided or m.get("kind") == "CStyleCastExpr"
            m = m["inner"][0]
        kind = m.get("kind")
        if kind == "IntegerLiteral":
            return k(E)
        if voided and skip(m).get("kind") in ("DeclRefExpr", "MemberExpr"):
            # `(void)x;` / `(void)x->f;`: evaluated (the reads are made) and discarded
            ty = norm_type(qual(skip(m)))
            if ty == T_NODE:
                return self.ptr(m, E, lambda v: k(E))
            if ty == "int":
                return self.int(m, E, lambda v: k(E))
        if kind == "BinaryOperator" and m.get("opcode") == ",":
            return self.effect(m["inner"][0], E, lambda E1: self.effect(m["inner"][1], E1, k))
        if kind == "BinaryOperator" and m.get("opcode") == "=":
            return self.assign(m, E, k)
        if kind == "CompoundAssignOperator":
            return self.compound(m, E, k)
        if kind == "CallExpr":
            return self.call(m, E, None, lambda v, E1: k(E1))
        self.bad("expression statement %s%s" % (kind, " " + m.get("opcode") if m.get("opcode") else ""), m)

    def bind_state(self, term, E, k):
        s = self.fresh("st")
        return "bind (%s) (fun %s =>\n%s)" % (term, s, k(self.with_st(E, s)))

    def store(self, fld, b, rhs, E, k):
        """x->fld = rhs (value first, then the address: both sides are free of side effects here)"""
        f = FIELDS[fld]
        ev = self.ptr if f[2] == "ptr" else self.int
        return ev(rhs, E, lambda v: self.ptr(b, E, lambda p: self.bind_state("%s %s %s %s" % (f[1], E["st"], p, v), E, k)))

    def assign(self, m, E, k):
        lhs, rhs = skip(m["inner"][0]), m["inner"][1]
        if skip(rhs).get("kind") == "BinaryOperator" and skip(rhs).get("opcode") == "=":
            self.bad("chained assignment", m)
        lk = lhs.get("kind")
        if lk == "DeclRefExpr":
            nm = lhs["referencedDecl"]["name"]
            if nm not in E["env"]:
                self.bad("assignment to %s, which is not a local variable known here" % nm, m)
            ty = E["env"][nm][0]
            if ty == "slot":
                return self.slot(rhs, E, lambda v: k(self.with_var(E, nm, ty, v)))
            if ty in ("cmp", "opaque"):
                self.bad("assignment to the parameter %s" % nm, m)
            if skip(rhs).get("kind") == "CallExpr" and not (ty == "int" and self.is_cmp_call(skip(rhs), E)):
                # x = f(...): f may write (the state after the call is the state the assignment leaves)
                return self.call(skip(rhs), E, ty, lambda v, E1: k(self.with_var(E1, nm, ty, v)), name=nm)
            if ty == "ptr":
                return self.ptr_named(rhs, E, nm, lambda v: k(self.with_var(E, nm, ty, v)))
            return self.int_named(rhs, E, nm, lambda v: k(self.with_var(E, nm, ty, v)))
        if lk == "MemberExpr" and lhs.get("isArrow"):
            b = skip(lhs["inner"][0])
            bt = norm_type(qual(b))
            if bt == T_TREE:
                if b.get("kind") != "DeclRefExpr" or b["referencedDecl"]["name"] != E["root"] or lhs["name"] != ROOT_FIELD:
                    self.bad("write to a tree object other than the function's own `root->%s`" % ROOT_FIELD, m)

                def setroot(v):
                    s = self.fresh("st")
                    return "let %s := set_root %s %s in\n%s" % (s, E["st"], v, k(self.with_st(E, s)))
                return self.ptr(rhs, E, setroot)
            if bt == T_NODE and lhs["name"] in FIELDS:
                return self.store(lhs["name"], b, rhs, E, k)
            if bt == T_NODE and lhs["name"] == WORD and is_word_type(lhs):
                return self.word_store(m, lhs, b, rhs, E, k)
            self.bad("write to the field `%s`" % lhs.get("name"), m)
        if lk == "UnaryOperator" and lhs.get("opcode") == "*":
            c = skip(lhs["inner"][0])
            if c.get("kind") == "DeclRefExpr" and E["env"].get(c["referencedDecl"]["name"], (None,))[0] == "slot":
                # *link = v  (v may be the value of a writing call: the store is made in the state the call leaves)
                nm = c["referencedDecl"]["name"]

                def put(v, E1):
                    sv = E1["env"][nm][1]
                    return self.bind_state("wr_slot %s %s %s" % (E1["st"], sv, v), E1, k)
                if E["env"][nm][1] is None:
                    self.bad("write through the uninitialised %s" % nm, m)
                if skip(rhs).get("kind") == "CallExpr":
                    return self.call(skip(rhs), E, "ptr", put)
                return self.ptr(rhs, E, lambda v: put(v, E))
            if c.get("kind") == "DeclRefExpr" and c["referencedDecl"]["name"] in E.get("refs", ()):
                # *left = e: the int the caller passed by address (not part of the heap)
                nm = c["referencedDecl"]["name"]
                return self.int(rhs, E, lambda v: k(self.with_var(E, nm, "int", v)))
            # *(c ? &x->left : &x->right) = v
            if c.get("kind") == "ConditionalOperator":
                cnd, a, b = c["inner"]
                arms = []
                for arm in (a, b):
                    arm = skip(arm)
                    if arm.get("kind") != "UnaryOperator" or arm.get("opcode") != "&":
                        self.bad("assignment through `*(c ? p : q)` whose arms are not `&x->field`", m)
                    t = skip(arm["inner"][0])
                    if t.get("kind") != "MemberExpr" or not t.get("isArrow") or t.get("name") not in ("left", "right") \
                            or norm_type(qual(skip(t["inner"][0]))) != T_NODE:
                        self.bad("assignment through `*(c ? p : q)` whose arms are not `&x->left` / `&x->right`", m)
                    arms.append(t)
                return self.cond(cnd, E,
                                 lambda: self.store(arms[0]["name"], skip(arms[0]["inner"][0]), rhs, E, k),
                                 lambda: self.store(arms[1]["name"], skip(arms[1]["inner"][0]), rhs, E, k))
        self.bad("assignment to this kind of lvalue", m)

    def word_store(self, m, lhs, b, rhs, E, k):
        """x->parent_ = (a_uptr)P | TAG"""
        r = skip(rhs)
        y = self.word_field(rhs)
        if y is not None:
            # x->parent_ = y->parent_: both components copied [pw_unique: a word determines its pointer and its tag];
            # printed as the plain layout's  x->parent = y->parent; x->factor = y->factor;
            self.facts.add("pw_unique")
            return self.ptr(y, E, lambda q: self.read("cp", q, E, lambda v: self.ptr(b, E, lambda p: self.bind_state("wr_p %s %s %s" % (E["st"], p, v), E,
                            lambda E1: self.ptr(y, E1, lambda q1: self.read("cf", q1, E1, lambda f: self.ptr(b, E1, lambda p1:
                                                self.bind_state("wr_f %s %s %s" % (E1["st"], p1, f), E1, k))))))))
        form = "`x->%s = (a_uptr)P | (a_uptr)(G)`, `x->%s = (a_uptr)P | (x->%s & 3)` or `x->%s = y->%s`" % (WORD, WORD, WORD, WORD, WORD)
        if r.get("kind") != "BinaryOperator" or r.get("opcode") != "|" or not is_word_type(r):
            self.bad("the word `%s` is assigned something other than %s" % (WORD, form), m)
        pp, tg = skip(r["inner"][0]), skip(r["inner"][1])
        if pp.get("kind") != "CStyleCastExpr" or pp.get("castKind") != "PointerToIntegral" or not is_word_type(pp) \
                or norm_type(qual(skip(pp["inner"][0]))) != T_NODE:
            self.bad("the word `%s` is assigned something other than %s" % (WORD, form), m)
        P = pp["inner"][0]
        x2 = self.tag_of(tg)
        if x2 is not None:
            if not same_lvalue_base(b, x2):
                self.bad("`x->%s = (a_uptr)P | (y->%s & 3)` with y not the variable x" % (WORD, WORD), m)
            self.facts.add("pw_set_parent")
            return self.ptr(P, E, lambda v: self.ptr(b, E, lambda p: self.bind_state("wr_p %s %s %s" % (E["st"], p, v), E, k)))
        lit = self.literal(tg)
        if lit is not None and tg.get("kind") in ("ImplicitCastExpr", "IntegerLiteral"):
            # x->parent_ = (a_uptr)P | 1: a literal tag (a_avl_init: factor 0)
            self.facts.add("pw_make")
            f = str(lit[0] - 1)
            return self.ptr(P, E, lambda v: self.ptr(b, E, lambda p: self.bind_state("wr_p %s %s %s" % (E["st"], p, v), E,
                            lambda E1: self.ptr(b, E1, lambda p1: self.bind_state("wr_f %s %s %s" % (E1["st"], p1, f if lit[0] >= 1 else "(%s)" % f), E1, k)))))
        if tg.get("kind") == "CStyleCastExpr" and tg.get("castKind") == "IntegralCast" and is_word_type(tg) and self.is_int(skip(tg["inner"][0])):
            self.facts.add("pw_make")

            def fin(v, g):
                # factor = G - 1;  (F + 1) - 1 is printed F
                if g.startswith("(") and g.endswith(" + 1)") and self.balanced(g[1:-5]):
                    f = g[1:-5]
                else:
                    f = "(%s - 1)" % g
                return self.ptr(b, E, lambda p: self.bind_state("wr_p %s %s %s" % (E["st"], p, v), E,
                                lambda E1: self.ptr(b, E1, lambda p1: self.bind_state("wr_f %s %s %s" % (E1["st"], p1, f), E1, k))))
            return self.ptr(P, E, lambda v: self.int(tg["inner"][0], E, lambda g: fin(v, g)))
        self.bad("the word `%s` is assigned something other than %s" % (WORD, form), m)

    def compound(self, m, E, k):
        """x->factor += a   /   x->parent_ += (a_uptr)a"""
        if m.get("opcode") != "+=":
            self.bad("compound assignment %s" % m.get("opcode"), m)
        lhs, rhs = skip(m["inner"][0]), m["inner"][1]
        if lhs.get("kind") != "MemberExpr" or not lhs.get("isArrow") or norm_type(qual(skip(lhs["inner"][0]))) != T_NODE:
            self.bad("`+=` on something other than a field of a node", m)
        b = skip(lhs["inner"][0])
        if lhs["name"] == "factor" and self.is_int(lhs):
            amount = rhs
        elif lhs["name"] == WORD and is_word_type(lhs):
            r = skip(rhs)
            if r.get("kind") != "CStyleCastExpr" or r.get("castKind") != "IntegralCast" or not is_word_type(r) or not self.is_int(skip(r["inner"][0])):
                self.bad("`x->%s += e` with e not `(a_uptr)<int>`" % WORD, m)
            amount = r["inner"][0]
            self.facts.add("pw_add")
        else:
            self.bad("`+=` on the field `%s`" % lhs.get("name"), m)
        return self.int(amount, E, lambda a: self.ptr(b, E, lambda p: self.read("cf", p, E, lambda f:
                        self.ptr(b, E, lambda p1: self.bind_state("wr_f %s %s (%s + %s)" % (E["st"], p1, f, a), E, k)))))

    def ptr_named(self, rhs, E, nm, k):
        """the value of a read / call that is bound to a variable takes the variable's name"""
        return self.named(self.ptr, rhs, E, nm, k)

    def int_named(self, rhs, E, nm, k):
        return self.named(self.int, rhs, E, nm, k)

    def named(self, ev, rhs, E, nm, k):
        r = skip(rhs)
        if r.get("kind") == "CallExpr" and not self.is_cmp_call(r, E):
            return self.call(r, E, "ptr" if ev == self.ptr else "int", lambda v, E1: k(v) if E1["st"] == E["st"] else
                             self.bad("call of a writing function in an initialiser", r), name=nm)
        return ev(rhs, E, k)

    def call(self, m, E, want, k, name="t"):
        """k : (value term | None, E') -> text"""
        if self.pure:
            raise _Impure()
        cal = skip(m["inner"][0])
        nm = cal.get("referencedDecl", {}).get("name")
        sig = self.tr.done.get(nm)
        if sig is None:
            self.bad("call to %s, which has not been translated" % nm, m)
        if want is not None and sig["ret"] != want:
            self.bad("call to %s (returns %s) where a value of kind %s is needed" % (nm, sig["ret"], want), m)
        args = m["inner"][1:]
        if len(args) != len(sig["params"]):
            self.bad("call to %s with %d arguments" % (nm, len(args)), m)
        vals = []
        refs = []                 # caller variables passed by address, in the callee's parameter order
        if sig.get("fuel"):
            self.has_loop = True  # the callee's loops run on the caller's fuel

        def go(i):
            if i == len(args):
                app = "%s%s %s%s" % (nm, " fuel" if sig.get("fuel") else "", E["st"], "".join(" " + v for v in vals))
                if not sig["writes"]:
                    if sig["ret"] == "void":
                        self.bad("call to %s, which has no effect" % nm, m)
                    t = self.fresh(name)
                    return "bind (%s) (fun %s =>\n%s)" % (app, t, k(t if want else None, E))
                parts = []
                t = None
                if sig["ret"] != "void":
                    t = self.fresh(name) if want else "_"
                    parts.append(t)
                E2 = E
                for v in refs:
                    nv = self.fresh(v)
                    parts.append(nv)
                    E2 = self.with_var(E2, v, "int", nv)
                s = self.fresh("st")
                parts.append(s)
                E2 = self.with_st(E2, s)
                pat = parts[0] if len(parts) == 1 else "'(" + ", ".join(parts) + ")"
                return "bind (%s) (fun %s =>\n%s)" % (app, pat, k(t if (want and t) else None, E2))
            kind = sig["params"][i][1]
            a = skip(args[i])
            if kind == "tree":
                if a.get("kind") != "DeclRefExpr" or a["referencedDecl"]["name"] != E["root"]:
                    self.bad("call to %s with a tree other than the caller's own" % nm, m)
                return go(i + 1)
            if kind == "intref":
                # `&v` of a local int, or the caller's own int* parameter: the callee gets the value and hands the new one back
                if a.get("kind") == "UnaryOperator" and a.get("opcode") == "&":
                    a = skip(a["inner"][0])
                    ok = a.get("kind") == "DeclRefExpr" and a["referencedDecl"]["name"] not in E.get("refs", ())
                elif a.get("kind") == "DeclRefExpr":
                    ok = a["referencedDecl"]["name"] in E.get("refs", ())
                else:
                    ok = False
                v = a.get("referencedDecl", {}).get("name") if ok else None
                if not ok or v not in E["env"] or E["env"][v][0] != "int":
                    self.bad("call to %s: the int* argument is neither `&<local int>` nor the caller's own int* parameter" % nm, m)
                if E["env"][v][1] is None:
                    self.bad("call to %s: `%s` is passed by address before it has a value" % (nm, v), m)
                if v in refs:
                    self.bad("call to %s: the same variable passed by address twice" % nm, m)
                refs.append(v)
                vals.append(E["env"][v][1])
                return go(i + 1)
            if kind in ("cmp", "opaque"):
                if a.get("kind") != "DeclRefExpr" or E["env"].get(a["referencedDecl"]["name"], (None,))[0] != kind:
                    self.bad("call to %s: argument %d is not the caller's own %s parameter" % (nm, i + 1, kind), m)
                vals.append(E["env"][a["referencedDecl"]["name"]][1])
                return go(i + 1)
            ev = self.ptr if kind == "ptr" else self.int
            return ev(args[i], E, lambda v: (vals.append(v), go(i + 1))[1])
        return go(0)

    # ---------------------------------------------------------------- statements
    def stmts(self, lst, E, k, kret, top=False):
        if not lst:
            return k(E)
        s, rest = lst[0], lst[1:]
        knext = lambda E1: self.stmts(rest, E1, k, kret, top)
        kind = s.get("kind")
        if kind in ("WhileStmt", "DoStmt"):
            return self.loop(s, E, knext, kret)
        if kind == "CompoundStmt":
            inner = s.get("inner", []) or []
            declared = [d["name"] for x in inner if x.get("kind") == "DeclStmt" for d in x.get("inner", []) if d.get("kind") == "VarDecl"]
            for d in declared:
                if d in E["env"]:
                    self.bad("declaration of %s shadows an outer variable" % d, s)

            def leave(E1):
                E2 = dict(E1)
                E2["env"] = {v: t for v, t in E1["env"].items() if v not in declared}
                return knext(E2)
            return self.stmts(inner, E, leave, kret)
        if kind == "NullStmt":
            return knext(E)
        if kind == "DeclStmt":
            decls = list(s.get("inner", []))

            def go(i, E1):
                if i == len(decls):
                    return knext(E1)
                d = decls[i]
                if d.get("kind") != "VarDecl":
                    self.bad("declaration %s" % d.get("kind"), s)
                t = norm_type(qual(d))
                ty = "ptr" if t == T_NODE else "int" if t == "int" else "slot" if t == T_NODEPP else None
                if ty is None:
                    self.bad("local variable %s of type `%s`" % (d.get("name"), qual(d)), s)
                if d.get("storageClass"):
                    self.bad("%s local variable" % d["storageClass"], s)
                init = [c for c in d.get("inner", []) if c.get("kind", "").endswith(("Expr", "Operator", "Literal"))]
                if not init:
                    return go(i + 1, self.with_var(E1, d["name"], ty, None))
                if ty == "slot":
                    return self.slot(init[0], E1, lambda v: go(i + 1, self.with_var(E1, d["name"], ty, v)))
                if ty == "int" and skip(init[0]).get("kind") == "CallExpr" and self.is_cmp_call(skip(init[0]), E1):
                    return self.int(init[0], E1, lambda v: go(i + 1, self.with_var(E1, d["name"], ty, v)))
                ev = self.ptr_named if ty == "ptr" else self.int_named
                return ev(init[0], E1, d["name"], lambda v: go(i + 1, self.with_var(E1, d["name"], ty, v)))
            return go(0, E)
        if kind == "IfStmt":
            parts = s["inner"]
            if s.get("hasInit") or s.get("hasVar"):
                self.bad("if with a declaration", s)
            thn = [parts[1]]
            els = [parts[2]] if len(parts) > 2 else []
            return self.cond(parts[0], E, lambda: self.stmts(thn, E, knext, kret), lambda: self.stmts(els, E, knext, kret))
        if kind == "ReturnStmt":
            return kret(s, E)
        if kind in ("ForStmt", "SwitchStmt", "GotoStmt", "LabelStmt", "BreakStmt", "ContinueStmt"):
            self.bad("statement %s" % kind, s)
        if kind.endswith(("Expr", "Operator", "Literal")):
            return self.effect(s, E, knext)
        self.bad("statement %s" % kind, s)

    # ---------------------------------------------------------------- loops
    def refs(self, n, out=None):
        out = set() if out is None else out
        if isinstance(n, dict):
            if n.get("kind") == "DeclRefExpr" and n.get("referencedDecl", {}).get("kind") in ("VarDecl", "ParmVarDecl"):
                out.add(n["referencedDecl"]["name"])
            for c in n.get("inner", []) or []:
                self.refs(c, out)
        elif isinstance(n, list):
            for c in n:
                self.refs(c, out)
        return out

    def has_kind(self, n, kinds):
        if isinstance(n, dict):
            return n.get("kind") in kinds or any(self.has_kind(c, kinds) for c in n.get("inner", []) or [])
        return False

    def loop(self, s, E, knext, kret):
        """`while (c) S` / `do S while (c);` becomes
               Fixpoint <f>_loop<n> (fuel : nat) (st'0 : state) (<carried variables>) {struct fuel} : <result type of f> :=
                 match fuel with O => None | S fuel' => <one iteration: ... the recursive call on fuel' | the rest of f> end.
           One unit of fuel per iteration, taken at its head (before the condition of a while, before the body of a do-while);
           running out of fuel is None.  Everything f does after the loop is part of the Fixpoint (the exit path runs it), a
           `return` in the body returns from f.  Carried: the variables with a value on entry that an iteration may read before it
           assigns them or that the code after the loop reads (found by translating with the variable left without a value)."""
        kind = s["kind"]
        if kind == "WhileStmt":
            if len(s["inner"]) != 2:
                self.bad("while with a declaration", s)
            cnd, body = s["inner"]
        else:
            body, cnd = s["inner"]
        if self.has_kind(s["inner"], ("BreakStmt", "ContinueStmt", "WhileStmt", "DoStmt", "ForStmt")):
            self.bad("break / continue / nested loop", s)
        if E.get("inloop"):
            self.bad("a second loop on a path that has already run one", s)
        cand = [v for v in E["env"] if E["env"][v][1] is not None]
        # continuation style reaches a loop once per path that leads to it: one Fixpoint per (loop, set of variables with a value)
        memo = self.__dict__.setdefault("loops", {})
        key = (s.get("id"), tuple(cand))
        if key in memo:
            name, carried = memo[key]
            return "%s fuel %s%s" % (name, E["st"], "".join(" " + E["env"][v][1] for v in carried))
        self.nloops = getattr(self, "nloops", 0) + 1
        name = "%s_loop%d" % (self.name, self.nloops)

        def build(carried):
            saved = self.counter
            self.counter = {}
            EL = dict(E)
            EL["env"] = {v: ((t[0], v + "'0") if v in carried else (t[0], None)) for v, t in E["env"].items()}
            EL["st"] = "st'0"
            EL["inloop"] = True

            def again(E1):
                vals = []
                for v in carried:
                    if E1["env"][v][1] is None:
                        self.bad("%s may be without a value at the next iteration" % v, s)
                    vals.append(E1["env"][v][1])
                return "%s fuel' %s%s" % (name, E1["st"], "".join(" " + x for x in vals))

            try:
                if kind == "DoStmt":
                    it = self.stmts([body], EL, lambda E1: self.cond(cnd, E1, lambda: again(E1), lambda: knext(E1)), kret)
                else:
                    it = self.cond(cnd, EL, lambda: self.stmts([body], EL, again, kret), lambda: knext(EL))
            finally:
                self.counter = saved
            return it

        carried = list(cand)
        for v in list(cand):
            trial = [x for x in carried if x != v]
            facts, hl = set(self.facts), self.has_loop
            try:
                build(trial)
                carried = trial                    # neither an iteration nor the code after the loop reads v before assigning it
            except Unsupported:
                pass
            self.facts, self.has_loop = facts, hl
        it = build(carried)
        gty = {"ptr": "option Z", "int": "Z", "cmp": "option Z -> option Z -> Z", "opaque": "option Z", "slot": "slot"}
        params = "".join(" (%s'0 : %s)" % (v, gty[E["env"][v][0]]) for v in carried)
        self.defs.append("Fixpoint %s (fuel : nat) (st'0 : state)%s {struct fuel} : %s :=\n  match fuel with\n  | O => None\n  | S fuel' =>\n%s\n  end."
                         % (name, params, self.rty, ind(it, 4)))
        self.has_loop = True
        memo[key] = (name, carried)
        return "%s fuel %s%s" % (name, E["st"], "".join(" " + E["env"][v][1] for v in carried))

    # ---------------------------------------------------------------- the function
    def run(self):
        params = [c for c in self.node.get("inner", []) if c["kind"] == "ParmVarDecl"]
        body = [c for c in self.node["inner"] if c["kind"] == "CompoundStmt"][0]
        rt = norm_type(self.node["type"]["qualType"].split("(")[0])
        ret = {T_NODE: "ptr", "int": "int", "void": "void"}.get(rt)
        if ret is None:
            self.bad("return type `%s`" % rt, self.node)
        env, root, sig_params, refs = {}, None, [], []
        for p in params:
            t = norm_type(qual(p))
            if t == T_NODE:
                env[p["name"]] = ("ptr", p["name"] + "'0")
                sig_params.append((p["name"], "ptr"))
            elif t == "int":
                env[p["name"]] = ("int", p["name"] + "'0")
                sig_params.append((p["name"], "int"))
            elif t == T_TREE and root is None:
                root = p["name"]
                sig_params.append((p["name"], "tree"))
            elif qual(p).replace("const", "").replace(" ", "") == T_CMP:
                # a comparator: a pure function of two pointers (it looks at the user's enclosing structures, never at the tree)
                env[p["name"]] = ("cmp", p["name"] + "'0")
                sig_params.append((p["name"], "cmp"))
            elif t == T_OPAQUE:
                # an opaque pointer that is only handed to the comparator
                env[p["name"]] = ("opaque", p["name"] + "'0")
                sig_params.append((p["name"], "opaque"))
            elif t == "int*":
                # an int the caller passes by address: the function takes its value and returns the final one
                env[p["name"]] = ("int", p["name"] + "'0")
                sig_params.append((p["name"], "intref"))
                refs.append(p["name"])
            else:
                self.bad("parameter %s of type `%s`" % (p.get("name"), qual(p)), p)
        writes = self.tr.writes(body) or bool(refs)
        if ret == "void" and not writes:
            self.bad("void function without effect on the modelled state", self.node)
        E = {"env": env, "st": "st'0", "root": root, "refs": tuple(refs)}
        gty = {"ptr": "option Z", "int": "Z", "intref": "Z", "cmp": "option Z -> option Z -> Z", "opaque": "option Z", "slot": "slot"}
        self.defs, self.has_loop = [], False
        comps = ([gty[ret]] if ret != "void" else []) + ["Z" for _ in refs] + (["state"] if writes else [])
        self.rty = "option (%s)" % " * ".join(comps) if len(comps) > 1 or not writes else "option state"

        def result(v, E1):
            parts = ([v] if ret != "void" else []) + [E1["env"][r][1] for r in refs] + ([E1["st"]] if writes else [])
            return "Some %s" % (parts[0] if len(parts) == 1 else "(" + ", ".join(parts) + ")")

        def kret(s, E1):
            has = bool(s.get("inner"))
            if has != (ret != "void"):
                self.bad("return with/without a value", s)
            if ret == "void":
                return result(None, E1)
            ev = self.ptr if ret == "ptr" else self.int
            return ev(s["inner"][0], E1, lambda v: result(v, E1))

        kend = (lambda E1: result(None, E1)) if ret == "void" else \
            (lambda E1: self.bad("control reaches the end of a non-void function", self.node))
        term = self.stmts(body.get("inner", []) or [], E, kend, kret, True)
        ps = "".join(" (%s'0 : %s)" % (n, gty[kd]) for n, kd in sig_params if kd != "tree")
        self.sig = {"writes": writes, "params": sig_params, "ret": ret, "fuel": self.has_loop, "refs": refs}
        fuel = " (fuel : nat)" if self.has_loop else ""
        return "\n\n".join(self.defs + ["Definition %s%s (st'0 : state)%s : %s :=\n%s." % (self.name, fuel, ps, self.rty, ind(term))])


def translate(repo, cfg, names=None):
    """-> (text of the module Gen.AvlGen for one configuration header, {function: error}, {function: [packed-word facts used]})"""
    from pathlib import Path
    repo = Path(repo).resolve()
    cfg = Path(cfg).resolve()
    names = list(names or FUNCTIONS)
    try:
        ast = load_ast(repo / "src" / "avl.c", repo / "include", cfg)
    except Unsupported as e:
        return PRELUDE, {"src/avl.c (all %d functions)" % len(names): str(e)}, {}
    tr = Tr(ast)
    out, errs = [], {}
    for nm in names:
        try:
            out.append("(* %s *)\n%s" % (nm, tr.translate(nm)))
        except Unsupported as e:
            errs[nm] = str(e)
        except (KeyError, IndexError, TypeError, ValueError, AttributeError) as e:      # an AST shape this translator does not know
            errs[nm] = "unexpected AST shape in %s (%s: %s)" % (nm, type(e).__name__, e)
    return PRELUDE + "\n\n".join(out) + "\n", errs, {k: v for k, v in tr.packed_facts.items() if v}


if __name__ == "__main__":
    # c2avl.py <repo> <configuration header> [function ...]
    t, e, f = translate(sys.argv[1], sys.argv[2], sys.argv[3:] or None)
    print(t)
    for k, v in f.items():
        print("(* %s: packed-word facts used: %s *)" % (k, ", ".join(v)))
    for k, v in e.items():
        print("(* ERROR %s: %s *)" % (k, v))
