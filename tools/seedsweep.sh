#!/bin/bash
# tools/seedsweep.sh [pattern] : re-run every seeded change under seeded/ (matching pattern) against the current checks; prints one line per change.
# Does not touch seeded/*/meta.json.  Scratch copies of /repo HEAD are made and removed by tools/seedtest.py.
PAT=${1:-C}
mkdir -p /verif/build/sweep
ls -d /verif/seeded/${PAT}* | sort -V | xargs -P ${SWEEP_JOBS:-4} -I{} sh -c '
  d={}; id=$(basename $d); prop=${id%-*}
  chk=$(python3 -c "import json;m=json.load(open(\"$d/meta.json\"));import re;c=m.get(\"check\",\"\");r=re.search(r\"vcheck.py (C\d+)\",c);print(r.group(1) if r else \"$prop\")")
  python3 /verif/tools/seedtest.py $chk $d > /verif/build/sweep/$id.json 2> /verif/build/sweep/$id.err
  python3 -c "import json;m=json.load(open(\"/verif/build/sweep/$id.json\"));print(\"$id\", \"caught\" if m.get(\"caught\") else \"MISSED\", \"input\" if m.get(\"caught_with_failing_input\") else \"tie-only\", m.get(\"tests_pass_with_change\"), m.get(\"demo_passes_with_change\"))"
'
