#!/usr/bin/env python3
"""c2coq: translate straight-line / branching numeric C functions (clang JSON AST) into Gallina over NumOps.

Supported subset (anything else raises Unsupported with the source line, which a check treats as a broken tie):
  * parameters: real/integer scalars, pointers to structs whose members are real scalars, fixed arrays of reals or
    nested such structs; `a_real x[]` output arrays (cells addressed by integer constants);
  * statements: declarations with initialisers, assignments and compound assignments to locals / ctx->f / ctx->a[k] /
    ctx->s.f / arr[k], if/else, return (also inside branches: the other branch continues), `(void)(e1), e2`;
  * expressions: + - * / unary -, comparisons, && || !, ?:, integer constant folding, casts between arithmetic types,
    calls to libm (exp log sin cos tan atan asin acos sinh cosh tanh expm1 log1p sqrt fabs pow atan2 hypot and their
    f-suffixed forms) and to other functions translated in the same run that take/return scalars only.
Every function f becomes

  Definition gen_f {T} (O : NumOps T) <struct fields in declaration order> <scalar params> <array cells read> : tuple

whose result tuple lists, in this order: for each struct pointer parameter all its (flattened) members, for each array
parameter the cells written (ascending), and last the return value if the function returns one.  An accompanying
comment records that signature.  Pure computations of both arms of an `if` are hoisted in front of the conditional
(they have no side effect; a division by zero in the arm not taken yields a discarded value).

Version 2 additions: struct parameters passed BY VALUE (their real members become binders, they are not outputs), struct
values as expressions (`*ctx`, a struct variable, `{a, b}` initialisers), whole-struct assignment and local struct
variables; calls to functions translated earlier in the same run (also from another file: the signature table is shared)
that take struct pointers (`ctx`, `&local`), by-value structs and scalars - the callee's output tuple is destructured and
written back to the pointed-to members; calls to scalar functions on an explicit allow-list (`externs`) that have no
body here (libm functions NumOps has no name for) become function-typed binders `x_<name>` of the generated definition,
passed on to callees that need them.

Version 3 additions (bounded symbolic execution): `f@n=3,m=2;A=6,T=6` translates f with its integer parameters fixed and
its array parameters given a length.  Integer variables then hold translation-time constants, pointer variables hold
(array, offset) pairs, `for`/`while`/`do` loops whose conditions are decided at translation time are unrolled, `p++`, `p + k`,
`p - q`, `p < q`, `p[i]`, `*p` are resolved to cells, memcpy/memmove/memset-style helpers with constant sizes become cell
copies.  Every cell of the declared arrays is a binder (in declaration order) and every cell of every non-const array is an
output (in order); an access outside the declared length is an error.  A branch on data whose arms leave an integer or a
pointer in different states, a loop whose condition depends on data, or `break`/`continue` are outside the subset.

Version 4 addition (fuelled loops): `f@fuel` translates f with loops whose trip count is NOT known at translation time.
Such a loop (`for`/`while`/`do` whose condition contains a real-valued operand, or that has no condition) becomes

  Fixpoint gen_f_loop<k> {T} (O : NumOps T) (fuel : nat) <live state : T> {struct fuel} : option (<result tuple>) :=
    match fuel with 0%nat => None | S fuel0 => <one pass> end

where one pass is the loop test and body; at the end of the body (and at `continue`) the increment and - for `do` - the
test are evaluated and the Fixpoint is re-entered with fuel0; `break` and a false test continue with the statements after
the loop (translated inside the Fixpoint), `goto <top-level label>` and `return` leave the function from inside the
Fixpoint.  The live state is every real-valued location known at the loop head (members of struct parameters in
declaration order, array cells, then parameters and locals in declaration order) that the pass or what follows can read;
locations that are only handed on unchanged or always overwritten first are dropped.  gen_f takes `(fuel : nat)` in front
of its inputs and returns `option` of the usual result tuple: `None` means some loop ran out of fuel (a sequence of loops
shares the fuel: it bounds the total number of passes), `Some r` is a run of the C function.  Outside the subset
(Unsupported): a data-dependent loop nested in another, a pass that changes an integer or a pointer, `break`/`continue`
inside a loop or `switch` nested in the fuelled loop, a `goto` to a label that is being executed (backward jump), a first
read of an input array cell inside a loop, calls to fuelled functions.  Without `@fuel` nothing changes."""
import json
import math
import re
import subprocess
import sys
from fractions import Fraction

sys.setrecursionlimit(200000)

LIB1 = {"exp": "Exp", "log": "Log", "sin": "Sin", "cos": "Cos", "tan": "Tan", "atan": "Atan", "asin": "Asin",
        "acos": "Acos", "sinh": "Sinh", "cosh": "Cosh", "tanh": "Tanh", "expm1": "Expm1", "log1p": "Log1p", "floor": "Floor"}
LIB2 = {"pow": "Pow", "atan2": "Atan2", "hypot": "Hypot", "fmod": "Fmod"}
REALS = ("a_real", "double", "float", "a_f64", "a_f32", "const a_real", "const double", "const float")


class Unsupported(Exception):
    pass


def load_ast(path, include, cfg, extra=()):
    cmd = ["clang", "-std=c11", "-I", include, '-DA_HAVE_H="%s"' % cfg, "-fsyntax-only", "-Xclang", "-ast-dump=json"] + list(extra) + [path]
    p = subprocess.run(cmd, stdout=subprocess.PIPE, stderr=subprocess.PIPE, text=True)
    if p.returncode != 0 and not p.stdout:
        raise Unsupported("clang failed on %s: %s" % (path, p.stderr[-500:]))
    return json.loads(p.stdout)


def is_real_type(q):
    q = q.replace("const ", "").strip()
    return q in ("a_real", "double", "float", "a_f64", "a_f32", "long double")


def is_int_type(q):
    q = q.replace("const ", "").strip()
    return q in ("int", "unsigned int", "a_uint", "a_size", "unsigned long", "long", "a_int", "a_bool", "_Bool", "a_u32", "a_i32", "a_u64", "a_diff", "size_t")


class TU:
    def __init__(self, ast):
        self.records = {}      # name -> list of (field, qualType)
        self.typedefs = {}
        self.funcs = {}
        self.enums = {}        # enumerator name -> value (explicit integer literals and implicit increments only)
        for n in ast.get("inner", []):
            k = n.get("kind")
            if k == "EnumDecl":
                nxt = 0
                for c in n.get("inner", []):
                    if c.get("kind") != "EnumConstantDecl":
                        continue
                    val = None
                    exprs = [x for x in c.get("inner", []) if not x.get("kind", "").endswith("Comment")]
                    e = exprs[0] if exprs else None
                    while isinstance(e, dict) and e.get("kind") in ("ConstantExpr", "ImplicitCastExpr", "ParenExpr"):
                        if "value" in e:
                            try:
                                val = int(e["value"])
                            except ValueError:
                                pass
                            break
                        e = e["inner"][0]
                    if val is None and isinstance(e, dict) and e.get("kind") == "IntegerLiteral":
                        val = int(e["value"])
                    if val is None and exprs:
                        nxt = None          # an initialiser this reader does not evaluate: later values unknown
                        continue
                    if val is None:
                        val = nxt
                    if val is not None:
                        self.enums[c["name"]] = val
                        nxt = val + 1
            if k == "RecordDecl" and n.get("completeDefinition") and n.get("name"):
                self.records[n["name"]] = [(f["name"], f["type"]["qualType"]) for f in n.get("inner", []) if f.get("kind") == "FieldDecl"]
            elif k == "TypedefDecl":
                self.typedefs[n["name"]] = n["type"]["qualType"]
            elif k == "FunctionDecl" and any(c.get("kind") == "CompoundStmt" for c in n.get("inner", [])):
                self.funcs[n["name"]] = n

    def record_of(self, qual):
        q = qual.replace("const ", "").replace("*", "").replace("struct ", "").strip()
        if q in self.records:
            return q
        t = self.typedefs.get(q)
        if t:
            return self.record_of(t)
        return None

    def flatten(self, rec, prefix=""):
        """[(path, kind)] with path like 'pid.kp' or 'c[3]'; kind 'real' | 'int'"""
        out = []
        for name, q in self.records[rec]:
            m = re.match(r"(.*)\[(\d+)\]$", q)
            base, cnt = (m.group(1).strip(), int(m.group(2))) if m else (q, None)
            sub = self.record_of(base) if not (is_real_type(base) or is_int_type(base)) else None
            if cnt is None:
                pq = base.replace("*", "").replace("const", "").replace("restrict", "").strip()
                if "*" in base and is_real_type(pq):
                    out.append((prefix + name, "ptrc" if "const" in base else "ptr"))
                elif is_real_type(base):
                    out.append((prefix + name, "real"))
                elif sub:
                    out += self.flatten(sub, prefix + name + ".")
                elif is_int_type(base):
                    out.append((prefix + name, "int"))
                else:
                    out.append((prefix + name, "opaque"))
            else:
                for i in range(cnt):
                    if is_real_type(base):
                        out.append(("%s%s[%d]" % (prefix, name, i), "real"))
                    elif sub:
                        out += self.flatten(sub, "%s%s[%d]." % (prefix, name, i))
                    else:
                        out.append(("%s%s[%d]" % (prefix, name, i), "opaque"))
        return out


def coq_ident(path):
    return re.sub(r"[^A-Za-z0-9_]", "_", path).strip("_")


class IntConst:
    def __init__(self, v):
        self.v = v


class Ptr:
    """pointer into an array parameter / local array: base name and element offset (translation-time constants)"""

    def __init__(self, base, off):
        self.base, self.off = base, off

    def __eq__(self, o):
        return isinstance(o, Ptr) and (self.base, self.off) == (o.base, o.off)

    def __hash__(self):
        return hash((self.base, self.off))

    def __repr__(self):
        return "Ptr(%s,%d)" % (self.base, self.off)


MAX_UNROLL = 200000


class Fn:
    """Translation state of one function (symbolic execution with SSA naming)."""

    def __init__(self, tu, node, translated):
        self.tu, self.node, self.translated = tu, node, translated
        self.name = node["name"]
        self.lines = []
        self.counter = {}
        self.inputs = []            # Gallina binder names in order
        self.structs = []           # (param name, record, [(path, kind)])
        self.arrays = {}            # param name -> {index: current var}  (array params / local arrays)
        self.array_params = []
        self.reads = []             # array cells read before written: (param, idx, var)
        self.ret_real = is_real_type(node["type"]["qualType"].split("(")[0].strip())
        self.ret_void = node["type"]["qualType"].split("(")[0].strip() == "void"
        self.n_out = 0
        self.externs = []           # names of allow-listed external scalar functions used (binders x_<name>)
        self.extern_ok = {}         # allow-list: name -> arity
        self.param_kinds = []       # per C parameter: ("ptr"|"val", name, [real paths]) | ("real", name)
        self.spec = {}              # integer parameters fixed to a constant for this translation (name -> value)
        self.int_vars = set()       # integer and pointer variables (their values are translation-time constants)
        self.alen = {}              # declared lengths of array parameters (name -> cells); bounded mode when non-empty
        self.const_arrays = set()   # array parameters declared pointer-to-const
        self.steps = 0
        self.inline_depth = 0
        self.inline_stack = []
        self.fuel_mode = False      # `f@fuel`: data-dependent loops become Fixpoints on fuel
        self.fuel_var = "fuel"      # name of the fuel variable in scope of the code being emitted
        self.loop_ctx = None        # inside the pass of a fuelled loop: {"break": k, "continue": k}
        self.in_fix = 0
        self.n_loops = 0
        self.fix_texts = []         # finished Fixpoint texts (dependency order), with @@..@@ markers
        self.loop_used = {}         # loop number -> set of live state positions
        self.loop_params = {}       # loop number -> parameter names
        self.goto_active = []

    def use_extern(self, name):
        if name not in self.externs:
            self.externs.append(name)
        return "x_" + name

    # ---------------------------------------------------------------- struct values
    def rec_of_type(self, q):
        """record name when q is a struct type held by value, else None"""
        if "*" in q or "[" in q:
            return None
        q = q.split("':'")[0].strip("'")
        if is_real_type(q) or is_int_type(q):
            return None
        return self.tu.record_of(q)

    def real_paths(self, rec):
        return [p for p, k in self.tu.flatten(rec) if k == "real"]

    def struct_base(self, n, env):
        """(base name, path prefix) of a struct lvalue or of a pointer-to-struct expression"""
        while n["kind"] in ("ImplicitCastExpr", "ParenExpr", "CStyleCastExpr"):
            n = n["inner"][-1]
        k = n["kind"]
        if k == "DeclRefExpr":
            return (n["referencedDecl"]["name"], "")
        if k == "UnaryOperator" and n.get("opcode") in ("*", "&"):
            return self.struct_base(n["inner"][0], env)
        if k == "MemberExpr":
            b = self.struct_base(n["inner"][0], env)
            return (b[0], b[1] + n["name"] + ".")
        if k == "ArraySubscriptExpr":
            idx = self.const_int(n["inner"][1], env)
            b = self.struct_base(n["inner"][0], env)
            return (b[0], "%s[%d]." % (b[1].rstrip("."), idx))
        raise Unsupported("struct expression %s at %s" % (k, self.where(n)))

    def struct_read(self, base, rec, env, n):
        return [self.read_loc(("mem", base[0], base[1] + p), env, n) for p in self.real_paths(rec)]

    def struct_write(self, base, rec, vals, env):
        for p, v in zip(self.real_paths(rec), vals):
            self.assign(("mem", base[0], base[1] + p), self.real(v), env)

    def struct_value(self, n, env):
        """list of member terms (declaration order, flattened) of a struct-valued expression"""
        while n["kind"] in ("ImplicitCastExpr", "ParenExpr", "CStyleCastExpr", "ConstantExpr"):
            n = n["inner"][-1]
        rec = self.rec_of_type(n["type"]["qualType"])
        if n["kind"] in ("InitListExpr", "CompoundLiteralExpr"):
            if n["kind"] == "CompoundLiteralExpr":
                return self.struct_value(n["inner"][0], env)
            vals = []
            for c in n.get("inner", []):
                if self.rec_of_type(c["type"]["qualType"]):
                    vals += self.struct_value(c, env)
                else:
                    vals.append(self.real(self.expr(c, env)))
            if len(vals) != len(self.real_paths(rec)):
                raise Unsupported("partial struct initialiser at %s" % self.where(n))
            return vals
        if n["kind"] == "BinaryOperator" and n.get("opcode") == "=":
            vals = self.struct_value(n["inner"][1], env)
            self.struct_write(self.struct_base(n["inner"][0], env), rec, vals, env)
            return vals
        return self.struct_read(self.struct_base(n, env), rec, env, n)

    def fresh(self, base):
        base = coq_ident(base) or "t"
        if base[0].isdigit():
            base = "v" + base
        n = self.counter.get(base, 0)
        self.counter[base] = n + 1
        return base if n == 0 and base not in ("O", "T", "fun", "let", "in", "if", "then", "else", "at", "as") else "%s_%d" % (base, n)

    def where(self, n):
        n = n.get("_of", n)         # synthetic loop node: the statement it was made of
        loc = n.get("loc", {}) or n.get("range", {}).get("begin", {})
        line = loc.get("line") or loc.get("expansionLoc", {}).get("line") or loc.get("spellingLoc", {}).get("line")
        if line is None:
            # clang prints "line" only where it differs from the previous location it printed: recover it by replaying the
            # locations of the function in dump order
            if not getattr(self, "_lines_done", False):
                self._lines_done = True
                annotate_lines(self.node)
            line = n.get("_line")
        return "%s:%s" % (self.name, line)

    # ---------------------------------------------------------------- lvalues
    def lvalue(self, n, env):
        """returns a location key"""
        k = n["kind"]
        if k in ("ParenExpr", "ImplicitCastExpr"):
            return self.lvalue(n["inner"][0], env)
        if k == "DeclRefExpr":
            return ("var", n["referencedDecl"]["name"])
        if k == "MemberExpr":
            base = self.lvalue_base(n["inner"][0], env)
            return ("mem", base[0], (base[1] + "." if base[1] else "") + n["name"])
        if k == "ArraySubscriptExpr":
            idx = self.const_int(n["inner"][1], env)
            b = n["inner"][0]
            while b["kind"] in ("ImplicitCastExpr", "ParenExpr"):
                b = b["inner"][0]
            if self.alen and "*" in b.get("type", {}).get("qualType", ""):
                pv = self.expr(n["inner"][0], env)
                if isinstance(pv, Ptr):
                    return self.cell(pv.base, pv.off + idx, n)
            if b["kind"] == "DeclRefExpr":
                return ("arr", b["referencedDecl"]["name"], idx)
            if b["kind"] == "MemberExpr":
                base = self.lvalue_base(b["inner"][0], env)
                return ("mem", base[0], "%s%s[%d]" % (base[1] + "." if base[1] else "", b["name"], idx))
        if k == "UnaryOperator" and n.get("opcode") == "*":
            if self.alen:
                pv = self.expr(n["inner"][0], env)
                if isinstance(pv, Ptr):
                    return self.cell(pv.base, pv.off, n)
            b = n["inner"][0]
            while b["kind"] in ("ImplicitCastExpr", "ParenExpr"):
                b = b["inner"][0]
            if b["kind"] == "DeclRefExpr":
                return ("arr", b["referencedDecl"]["name"], 0)
        raise Unsupported("lvalue %s at %s" % (k, self.where(n)))

    def lvalue_base(self, n, env):
        """base of a member access: (struct param name, path prefix)"""
        while n["kind"] in ("ImplicitCastExpr", "ParenExpr"):
            n = n["inner"][0]
        if n["kind"] == "DeclRefExpr":
            return (n["referencedDecl"]["name"], "")
        if n["kind"] == "MemberExpr":
            b = self.lvalue_base(n["inner"][0], env)
            return (b[0], (b[1] + "." if b[1] else "") + n["name"])
        if n["kind"] == "UnaryOperator" and n.get("opcode") in ("&", "*"):
            return self.lvalue_base(n["inner"][0], env)
        if n["kind"] == "ArraySubscriptExpr":
            idx = self.const_int(n["inner"][1], env)
            b = self.lvalue_base(n["inner"][0], env)
            return (b[0], "%s[%d]" % (b[1], idx))
        raise Unsupported("member base %s at %s" % (n["kind"], self.where(n)))

    def cell(self, base, idx, n):
        """location of cell idx of a declared array; out of the declared length is an error (undefined in C)"""
        if base in self.alen and not (0 <= idx < self.alen[base]):
            raise Unsupported("access to %s[%d] outside the declared length %d at %s" % (base, idx, self.alen[base], self.where(n)))
        return ("arr", base, idx)

    def read_loc(self, loc, env, n):
        if loc in env:
            return env[loc]
        if loc[0] == "arr" and loc[1] in self.array_params:
            if self.in_fix:
                raise Unsupported("first read of the input cell %s[%d] inside a fuelled loop at %s" % (loc[1], loc[2], self.where(n)))
            v = self.fresh("%s_%d_in" % (loc[1], loc[2]))
            self.reads.append((loc[1], loc[2], v))
            env[loc] = v
            return v
        raise Unsupported("read of unknown location %s at %s" % (loc, self.where(n)))

    # ---------------------------------------------------------------- expressions
    def const_int(self, n, env):
        v = self.expr(n, env)
        if isinstance(v, IntConst):
            return v.v
        raise Unsupported("non-constant integer at %s" % self.where(n))

    def real(self, v):
        """coerce an expression result to a Gallina term of type T"""
        if isinstance(v, IntConst):
            return "(ofZ O (%d))" % v.v if v.v < 0 else "(ofZ O %d)" % v.v
        return v

    def lit_float(self, s, n):
        x = float(s)
        if x == math.floor(x) and abs(x) < 2 ** 53:
            return self.real(IntConst(int(x)))
        fr = Fraction(x)
        e = 0
        d = fr.denominator
        while d > 1:
            d //= 2
            e -= 1
        m = fr.numerator
        while m != 0 and m % 2 == 0:      # normal form: odd mantissa (DBL_MAX = (2^53 - 1) * 2^971)
            m //= 2
            e += 1
        return "(ofD O (%d) (%d))" % (m, e)

    def expr(self, n, env):
        k = n["kind"]
        if k == "ConstantExpr" and "value" in n and not is_real_type(n.get("type", {}).get("qualType", "")):
            try:
                return IntConst(int(n["value"]))
            except ValueError:
                pass
        if k in ("ParenExpr", "ConstantExpr"):
            return self.expr(n["inner"][0], env)
        if k != "CallExpr" and "type" in n and self.rec_of_type(n["type"]["qualType"]):
            self.struct_value(n, env)
            return None
        if k in ("ImplicitCastExpr", "CStyleCastExpr"):
            ck = n.get("castKind")
            v = self.expr(n["inner"][-1], env)
            if ck in ("IntegralToFloating",):
                return self.real(v)
            if ck == "IntegralCast" and isinstance(v, IntConst):
                return self.wrap_int(v, n)
            if ck in ("BitCast", "NullToPointer") and isinstance(v, (Ptr, IntConst)):
                return v
            if ck in ("LValueToRValue", "NoOp", "FloatingCast", "IntegralCast", "FunctionToPointerDecay", "ArrayToPointerDecay", "ToVoid"):
                return v
            if ck == "FloatingToIntegral":
                raise Unsupported("float to int conversion at %s" % self.where(n))
            return v
        if k == "IntegerLiteral":
            return IntConst(int(n["value"]))
        if k == "FloatingLiteral":
            return self.lit_float(n["value"], n)
        if k in ("DeclRefExpr", "MemberExpr", "ArraySubscriptExpr"):
            if k == "DeclRefExpr" and n["referencedDecl"].get("kind") == "EnumConstantDecl":
                nm_ = n["referencedDecl"]["name"]
                if nm_ in self.tu.enums:
                    return IntConst(self.tu.enums[nm_])
                raise Unsupported("enum constant %s of unknown value at %s" % (nm_, self.where(n)))
            return self.read_loc(self.lvalue(n, env), env, n)
        if k == "UnaryExprOrTypeTraitExpr" and n.get("name") == "sizeof":
            q = (n.get("argType") or {}).get("qualType") or (n["inner"][0]["type"]["qualType"] if n.get("inner") else "")
            q = q.replace("const ", "").strip()
            sizes = {"double": 8, "float": 4, "long double": 16, "a_f64": 8, "a_f32": 4, "a_real": self.real_size()}
            if q in sizes:
                return IntConst(sizes[q])
            raise Unsupported("sizeof(%s) at %s" % (q, self.where(n)))
        if k == "UnaryOperator" and n["opcode"] in ("++", "--"):
            loc = self.lvalue(n["inner"][0], env)
            cur = self.read_loc(loc, env, n)
            d = 1 if n["opcode"] == "++" else -1
            if isinstance(cur, IntConst):
                new = IntConst(cur.v + d)
            elif isinstance(cur, Ptr):
                new = Ptr(cur.base, cur.off + d)
            else:
                raise Unsupported("%s on a value that is not a translation-time constant at %s" % (n["opcode"], self.where(n)))
            env[loc] = new
            return cur if n.get("isPostfix") else new
        if k == "UnaryOperator":
            op = n["opcode"]
            if op == "*" :
                return self.read_loc(self.lvalue(n, env), env, n)
            v = self.expr(n["inner"][0], env)
            if op == "-":
                return IntConst(-v.v) if isinstance(v, IntConst) else "(opp O %s)" % v
            if op == "+":
                return v
            if op == "!":
                if isinstance(v, IntConst):
                    return IntConst(int(not v.v))
                return "(negb %s)" % self.boolean(v)
            raise Unsupported("unary %s at %s" % (op, self.where(n)))
        if k == "BinaryOperator":
            op = n["opcode"]
            if op == "=":
                v = self.coerce_for(n["inner"][0], self.expr(n["inner"][1], env))
                return self.assign(self.lvalue(n["inner"][0], env), v, env)
            if op == ",":
                self.expr(n["inner"][0], env)
                return self.expr(n["inner"][1], env)
            a, b = self.expr(n["inner"][0], env), self.expr(n["inner"][1], env)
            if isinstance(a, Ptr) or isinstance(b, Ptr):
                if op == "+" and isinstance(a, Ptr) and isinstance(b, IntConst):
                    return Ptr(a.base, a.off + b.v)
                if op == "+" and isinstance(b, Ptr) and isinstance(a, IntConst):
                    return Ptr(b.base, b.off + a.v)
                if op == "-" and isinstance(a, Ptr) and isinstance(b, IntConst):
                    return Ptr(a.base, a.off - b.v)
                if isinstance(a, Ptr) and isinstance(b, Ptr) and a.base == b.base:
                    if op == "-":
                        return IntConst(a.off - b.off)
                    if op in ("<", ">", "<=", ">=", "==", "!="):
                        return IntConst(int({"<": a.off < b.off, ">": a.off > b.off, "<=": a.off <= b.off, ">=": a.off >= b.off,
                                             "==": a.off == b.off, "!=": a.off != b.off}[op]))
                raise Unsupported("pointer arithmetic %s at %s" % (op, self.where(n)))
            if isinstance(a, IntConst) and isinstance(b, IntConst) and not is_real_type(n["inner"][0].get("type", {}).get("qualType", "")) \
                    and not is_real_type(n["inner"][1].get("type", {}).get("qualType", "")):
                if op in "+-*":
                    return self.wrap_int(IntConst({"+": a.v + b.v, "-": a.v - b.v, "*": a.v * b.v}[op]), n)
                if op == "/" and b.v != 0:
                    return IntConst(int(a.v / b.v))
                if op == "%" and b.v != 0:
                    return IntConst(int(math.fmod(a.v, b.v)))
                if op in ("<<", ">>", "&", "|", "^"):
                    return self.wrap_int(IntConst({"<<": a.v << b.v, ">>": a.v >> b.v, "&": a.v & b.v, "|": a.v | b.v, "^": a.v ^ b.v}[op]), n)
                if op in ("<", ">", "<=", ">=", "==", "!="):
                    return IntConst(int({"<": a.v < b.v, ">": a.v > b.v, "<=": a.v <= b.v, ">=": a.v >= b.v,
                                         "==": a.v == b.v, "!=": a.v != b.v}[op]))
                if op == "&&":
                    return IntConst(int(bool(a.v) and bool(b.v)))
                if op == "||":
                    return IntConst(int(bool(a.v) or bool(b.v)))
            is_real = is_real_type(n["type"]["qualType"]) or op in ("<", ">", "<=", ">=", "==", "!=")
            if op in ("&&", "||"):
                return "(%s %s %s)" % ("andb" if op == "&&" else "orb", self.boolean(a), self.boolean(b))
            a, b = self.real(a), self.real(b)
            if op in ("+", "-", "*", "/"):
                if not is_real_type(n["type"]["qualType"]):
                    raise Unsupported("integer arithmetic on non-constants at %s" % self.where(n))
                return "(%s O %s %s)" % ({"+": "add", "-": "sub", "*": "mul", "/": "div"}[op], a, b)
            if op == "<":
                return "(ltb O %s %s)" % (a, b)
            if op == ">":
                return "(ltb O %s %s)" % (b, a)
            if op == "<=":
                return "(leb O %s %s)" % (a, b)
            if op == ">=":
                return "(leb O %s %s)" % (b, a)
            if op == "==":
                return "(eqb O %s %s)" % (a, b)
            if op == "!=":
                return "(negb (eqb O %s %s))" % (a, b)
            raise Unsupported("binary %s at %s" % (op, self.where(n)))
        if k == "CompoundAssignOperator":
            op = n["opcode"][0]
            loc = self.lvalue(n["inner"][0], env)
            cur = self.read_loc(loc, env, n)
            rv = self.expr(n["inner"][1], env)
            if isinstance(cur, Ptr) and isinstance(rv, IntConst) and op in "+-":
                env[loc] = Ptr(cur.base, cur.off + (rv.v if op == "+" else -rv.v))
                return env[loc]
            if isinstance(cur, IntConst) and isinstance(rv, IntConst) and not is_real_type(n["inner"][0]["type"]["qualType"]):
                env[loc] = self.wrap_int(IntConst({"+": cur.v + rv.v, "-": cur.v - rv.v, "*": cur.v * rv.v,
                                                   "/": int(cur.v / rv.v) if rv.v else 0, "%": int(math.fmod(cur.v, rv.v)) if rv.v else 0}[op]), n["inner"][0])
                return env[loc]
            if isinstance(cur, (Ptr,)) or isinstance(rv, Ptr):
                raise Unsupported("compound assignment on a pointer at %s" % self.where(n))
            rhs = self.real(rv)
            v = "(%s O %s %s)" % ({"+": "add", "-": "sub", "*": "mul", "/": "div"}[op], self.real(cur), rhs)
            return self.assign(loc, v, env)
        if k == "ConditionalOperator":
            c0 = self.expr(n["inner"][0], env)
            if isinstance(c0, IntConst):
                return self.expr(n["inner"][1 if c0.v else 2], env)
            c = self.boolean(c0)
            a, b = self.real(self.expr(n["inner"][1], env)), self.real(self.expr(n["inner"][2], env))
            return "(if %s then %s else %s)" % (c, a, b)
        if k == "CallExpr":
            callee = n["inner"][0]
            while callee["kind"] in ("ImplicitCastExpr", "ParenExpr"):
                callee = callee["inner"][0]
            if callee["kind"] != "DeclRefExpr":
                raise Unsupported("indirect call at %s" % self.where(n))
            fname = callee["referencedDecl"]["name"]
            if (self.alen or self.spec) and fname in self.tu.funcs and not (fname in self.translated and self.translated[fname]["scalar_only"]):
                return self.inline_call(fname, n, env)
            if fname in self.translated and not (self.translated[fname]["scalar_only"] and not self.translated[fname].get("externs")):
                return self.call_translated(fname, n, env)
            if fname in ("a_copy", "a_move", "memcpy", "memmove", "__builtin_memcpy", "__builtin_memmove") and self.alen:
                d, sv, nb = (self.expr(a, env) for a in n["inner"][1:4])
                if not (isinstance(d, Ptr) and isinstance(sv, Ptr) and isinstance(nb, IntConst)) or nb.v % self.real_size():
                    raise Unsupported("%s with arguments that are not translation-time constants at %s" % (fname, self.where(n)))
                cnt = nb.v // self.real_size()
                vals = [self.read_loc(self.cell(sv.base, sv.off + i, n), env, n) for i in range(cnt)]     # read all, then write
                for i, v_ in enumerate(vals):
                    env[self.cell(d.base, d.off + i, n)] = v_
                return d
            if fname in ("a_zero", "__builtin_memset", "memset") and self.alen:
                aa = [self.expr(a, env) for a in n["inner"][1:]]
                d, nb = aa[0], aa[-1]
                if fname != "a_zero" and not (isinstance(aa[1], IntConst) and aa[1].v == 0):
                    raise Unsupported("memset with a non-zero byte at %s" % self.where(n))
                if not (isinstance(d, Ptr) and isinstance(nb, IntConst)) or nb.v % self.real_size():
                    raise Unsupported("%s with arguments that are not translation-time constants at %s" % (fname, self.where(n)))
                for i in range(nb.v // self.real_size()):
                    env[self.cell(d.base, d.off + i, n)] = IntConst(0)
                return d
            args = [self.real(self.expr(a, env)) for a in n["inner"][1:]]
            base = fname[:-1] if fname.endswith("f") and fname[:-1] in list(LIB1) + list(LIB2) + ["sqrt", "fabs"] else fname
            if base in LIB1:
                return "(fn1 O %s %s)" % (LIB1[base], args[0])
            if base in LIB2:
                return "(fn2 O %s %s %s)" % (LIB2[base], args[0], args[1])
            if base == "sqrt":
                return "(sqrt O %s)" % args[0]
            if base == "fabs":
                return "(abs O %s)" % args[0]
            if fname in ("__builtin_isinf_sign", "__builtin_isinf", "isinf"):
                # classification without a NumOps primitive: x is infinite iff x + x == x and x != 0 (the definition
                # a/math.h itself falls back to); only ever used as a condition
                return "(andb (eqb O (add O %s %s) %s) (negb (eqb O %s (ofZ O 0))))" % (args[0], args[0], args[0], args[0])
            if fname in ("__builtin_isnan", "isnan"):
                return "(negb (eqb O %s %s))" % (args[0], args[0])
            if fname in self.translated and self.translated[fname]["scalar_only"] and not self.translated[fname].get("externs"):
                return "(gen_%s O %s)" % (fname, " ".join(args))
            if fname in self.translated:
                return self.call_translated(fname, n, env)
            if base in self.extern_ok and self.extern_ok[base] == len(args):
                return "(%s %s)" % (self.use_extern(base), " ".join(args))
            raise Unsupported("call to %s at %s" % (fname, self.where(n)))
        raise Unsupported("expression %s at %s" % (k, self.where(n)))

    def inline_call(self, fname, n, env):
        """bounded mode: execute the body of a callee (from this or an extra source file) in place.  Arguments are evaluated in
        the caller; cells of arrays and struct members are shared, the callee's variables live in their own scope.  The callee
        must leave through a single return that is not inside a branch on data."""
        callee = self.tu.funcs[fname]
        params = [c for c in callee.get("inner", []) if c["kind"] == "ParmVarDecl"]
        body = [c for c in callee["inner"] if c["kind"] == "CompoundStmt"][0]
        actual = n["inner"][1:]
        if len(actual) != len(params):
            raise Unsupported("call to %s with %d arguments at %s" % (fname, len(actual), self.where(n)))
        if self.inline_depth > 40:
            raise Unsupported("inlining deeper than 40 calls at %s" % self.where(n))
        cenv = {k: v for k, v in env.items() if k[0] != "var"}
        for pd, a in zip(params, actual):
            q = pd["type"]["qualType"]
            v = self.expr(a, env)
            if v is None:
                raise Unsupported("struct argument in an inlined call to %s at %s" % (fname, self.where(n)))
            if is_real_type(q.split("':'")[0].strip("'")) and not isinstance(v, Ptr):
                v = self.real(v)
            cenv[("var", pd.get("name", "_"))] = v
            if not is_real_type(q.split("':'")[0].strip("'")):
                self.int_vars.add(pd.get("name", "_"))
        holder = {"rv": None, "done": False}
        self.inline_stack.append(holder)
        self.inline_depth += 1
        saved_top, saved_k = self.top_stmts, self.k_end
        self.top_stmts = body.get("inner", [])
        try:
            self.block(body.get("inner", []), cenv, lambda e_: self._inline_end(e_, holder))
        finally:
            self.inline_depth -= 1
            self.inline_stack.pop()
            self.top_stmts, self.k_end = saved_top, saved_k
        fin = holder.get("env", cenv)
        for k_, v_ in fin.items():
            if k_[0] != "var":
                env[k_] = v_
        return holder["rv"]

    def _inline_end(self, e_, holder):
        holder["env"] = e_
        return ""

    def call_translated(self, fname, n, env):
        sig = self.translated[fname]
        actual = n["inner"][1:]
        kinds = sig["param_kinds"]
        if len(actual) != len(kinds):
            raise Unsupported("call to %s with %d arguments at %s" % (fname, len(actual), self.where(n)))
        args, writes = [], []
        for a, pk in zip(actual, kinds):
            if pk[0] == "real":
                args.append(self.real(self.expr(a, env)))
            elif pk[0] == "val":
                args += self.struct_value(a, env)
            elif pk[0] in ("ptr", "cptr"):
                base = self.struct_base(a, env)
                args += [self.read_loc(("mem", base[0], base[1] + p), env, n) for p in pk[2]]
                if pk[0] == "ptr":
                    writes.append((base, pk[2]))
            else:
                raise Unsupported("call to %s: parameter kind %s at %s" % (fname, pk[0], self.where(n)))
        ext = ["x_" + self.use_extern(e)[2:] for e in sig.get("externs", [])]
        call = "(gen_%s O %s)" % (fname, " ".join(ext + args))
        outs = []
        for base, paths in writes:
            for p in paths:
                outs.append((("mem", base[0], base[1] + p), self.fresh((base[1] + p).split(".")[-1])))
        rv = None
        if sig["returns_value"]:
            rv = self.fresh("r_" + fname.replace("a_", "", 1))
        names = [v for _, v in outs] + ([rv] if rv else [])
        if not names:
            return None
        if len(names) == 1:
            self.lines.append("let %s := %s in" % (names[0], call))
        else:
            self.lines.append("let '(%s) := %s in" % (", ".join(names), call))
        for loc, v in outs:
            env[loc] = v
        return rv

    def wrap_int(self, v, n):
        """value of an integer expression in its C type (unsigned types wrap)"""
        q = n.get("type", {}).get("qualType", "")
        q = q.split("':'")[-1].strip("'") if "':'" in q else q
        bits = {"unsigned int": 32, "unsigned long": 64, "unsigned long long": 64, "unsigned char": 8, "unsigned short": 16}.get(q.replace("const ", ""))
        if bits:
            return IntConst(v.v % (1 << bits))
        return v

    def real_size(self):
        return getattr(self, "_real_size", 8)

    def coerce_for(self, lhs, v):
        return self.real(v) if not isinstance(v, IntConst) or is_real_type(lhs["type"]["qualType"]) else v

    def boolean(self, v):
        if isinstance(v, IntConst):
            return "true" if v.v else "false"
        return v

    def assign(self, loc, v, env):
        if isinstance(v, (IntConst, Ptr)):
            env[loc] = v
            return v
        name = self.fresh(loc[-1] if loc[0] != "arr" else "%s_%d" % (loc[1], loc[2]))
        self.lines.append("let %s := %s in" % (name, v))
        env[loc] = name
        return name

    # ---------------------------------------------------------------- statements
    def block(self, stmts, env, k):
        """translate statements; k(env) yields the term for what follows.  Returns a term (string)."""
        if not stmts:
            return k(env)
        s, rest = stmts[0], stmts[1:]
        kind = s["kind"]
        if kind == "CompoundStmt":
            return self.block(s.get("inner", []) + rest, env, k)
        if kind in ("NullStmt",):
            return self.block(rest, env, k)
        if kind == "DeclStmt":
            for d in s["inner"]:
                if d["kind"] != "VarDecl":
                    continue
                q = d["type"]["qualType"]
                m = re.match(r"(.*)\[(\d+)\]$", q)
                if m:
                    continue                      # local array: cells appear when assigned
                init = [c for c in d.get("inner", []) if "Expr" in c["kind"] or "Literal" in c["kind"] or "Operator" in c["kind"]]
                if is_int_type(q.split("':'")[0].strip("'")) or "*" in q:
                    self.int_vars.add(d["name"])
                lrec = self.rec_of_type(q)
                if lrec:
                    if init:
                        self.struct_write((d["name"], ""), lrec, self.struct_value(init[0], env), env)
                    continue
                if init:
                    v = self.expr(init[0], env)
                    v = self.real(v) if is_real_type(q) else v
                    self.assign(("var", d["name"]), v, env)
            return self.block(rest, env, k)
        if kind in ("ForStmt", "WhileStmt", "DoStmt"):
            if not self.alen and not self.spec and not self.fuel_mode:
                raise Unsupported("loop at %s (only in a specialised translation f@...)" % self.where(s))
            parts = s["inner"]
            if self.fuel_mode and self.data_loop(s):
                # trip count not known at translation time: a Fixpoint on fuel (version 4)
                if kind == "ForStmt":
                    init, _cv, cond, inc, body = (parts + [{}] * 5)[:5]
                elif kind == "WhileStmt":
                    init, cond, inc, body = {}, parts[0], {}, parts[1]
                else:
                    init, cond, inc, body = {}, parts[1], {}, parts[0]
                floop = {"kind": "_FuelLoop", "cond": cond, "inc": inc, "body": body, "do": kind == "DoStmt", "_of": s}
                return self.block(([init] if init.get("kind") else []) + [floop] + rest, env, k)
            if kind == "ForStmt":
                init, _cv, cond, inc, body = (parts + [{}] * 5)[:5]
                loop = {"kind": "_Loop", "cond": cond, "inc": inc, "body": body, "loc": s.get("loc", {}), "range": s.get("range", {})}
                return self.block(([init] if init.get("kind") else []) + [loop] + rest, env, k)
            if kind == "WhileStmt":
                loop = {"kind": "_Loop", "cond": parts[0], "inc": {}, "body": parts[1], "loc": s.get("loc", {}), "range": s.get("range", {})}
                return self.block([loop] + rest, env, k)
            loop = {"kind": "_Loop", "cond": parts[1], "inc": {}, "body": parts[0], "loc": s.get("loc", {}), "range": s.get("range", {})}
            return self.block([parts[0], loop] + rest, env, k)
        if kind == "_FuelLoop":
            return self.fuel_loop(s, rest, env, k)
        if kind == "_Loop":
            if self.loop_ctx is not None and self.contains(s["body"], ("BreakStmt", "ContinueStmt")):
                raise Unsupported("break/continue in a loop nested in a fuelled loop at %s" % self.where(s))
            self.steps += 1
            if self.steps > MAX_UNROLL:
                raise Unsupported("more than %d loop iterations at %s" % (MAX_UNROLL, self.where(s)))
            c = self.expr(s["cond"], env) if s["cond"].get("kind") else IntConst(1)
            if not isinstance(c, IntConst):
                raise Unsupported("loop condition depends on data at %s" % self.where(s))
            if c.v:
                return self.block([s["body"]] + ([s["inc"]] if s["inc"].get("kind") else []) + [s] + rest, env, k)
            return self.block(rest, env, k)
        if kind in ("BreakStmt", "ContinueStmt"):
            if self.loop_ctx is None:
                raise Unsupported("%s at %s" % (kind, self.where(s)))
            return self.loop_ctx["break" if kind == "BreakStmt" else "continue"](env)      # the statements after it are dead
        if kind == "LabelStmt":
            return self.block(s.get("inner", []) + rest, env, k)
        if kind == "SwitchStmt":
            # only on a value known at translation time (a specialised integer parameter): select the arm, run to the
            # first top-level break (fall-through included)
            parts = [c for c in s["inner"] if c.get("kind") != "DeclStmt"]
            v = self.expr(parts[0], env)
            if not isinstance(v, IntConst):
                raise Unsupported("switch on a value that is not a translation-time constant at %s" % self.where(s))
            body = parts[1].get("inner", []) if parts[1]["kind"] == "CompoundStmt" else [parts[1]]
            flat = []               # (set of case values / "default", statement)
            for st in body:
                labels = set()
                while st.get("kind") in ("CaseStmt", "DefaultStmt"):
                    if st["kind"] == "DefaultStmt":
                        labels.add("default")
                        st = st["inner"][0]
                    else:
                        cv = self.expr(st["inner"][0], env)
                        if not isinstance(cv, IntConst):
                            raise Unsupported("case label is not a constant at %s" % self.where(st))
                        labels.add(cv.v)
                        st = st["inner"][-1]
                flat.append((labels, st))
            start = next((i for i, (l, _) in enumerate(flat) if v.v in l), None)
            if start is None:
                start = next((i for i, (l, _) in enumerate(flat) if "default" in l), None)
            sel = []
            if start is not None:
                for _, st in flat[start:]:
                    if st.get("kind") == "BreakStmt":
                        break
                    sel.append(st)
            if self.loop_ctx is not None and any(self.contains(st, ("BreakStmt",)) for st in sel):
                raise Unsupported("break below the top level of a switch nested in a fuelled loop at %s" % self.where(s))
            return self.block(sel + rest, env, k)
        if kind == "GotoStmt":
            # forward jump to a label among the top-level statements of the function body (the `exit:` / `fail:` idiom):
            # the continuation is everything from the label to the end of the function
            target = s.get("targetLabelDeclId")
            for i, t in enumerate(self.top_stmts):
                if t.get("kind") == "LabelStmt" and t.get("declId") == target:
                    if not self.fuel_mode:
                        return self.block(self.top_stmts[i:], env, self.k_end)
                    # fuelled translation: the jump leaves every loop (the label is at the top level of the function); a jump
                    # to a label whose tail is being translated would be a backward jump, i.e. a loop written with goto
                    if target in self.goto_active:
                        raise Unsupported("backward goto at %s" % self.where(s))
                    saved_ctx, self.loop_ctx = self.loop_ctx, None
                    self.goto_active.append(target)
                    try:
                        return self.block(self.top_stmts[i:], env, self.k_end)
                    finally:
                        self.goto_active.pop()
                        self.loop_ctx = saved_ctx
            raise Unsupported("goto to a label that is not at the top level of the function at %s" % self.where(s))
        if kind == "ReturnStmt" and self.inline_depth > 0:
            inner = s.get("inner", [])
            holder = self.inline_stack[-1]
            holder["rv"] = self.expr(inner[0], env) if inner else None
            holder["env"] = env
            return ""
        if kind == "ReturnStmt":
            inner = s.get("inner", [])
            rv = self.real(self.expr(inner[0], env)) if inner else None
            return self.flush(self.result(env, rv))
        if kind == "IfStmt":
            parts = s["inner"]
            cv = self.expr(parts[0], env)
            then_s = [parts[1]]
            else_s = [parts[2]] if len(parts) > 2 else []
            if isinstance(cv, IntConst):          # decided at translation time
                return self.block((then_s if cv.v else else_s) + rest, env, k)
            cond = self.boolean(cv)
            if (self.returns(then_s) or self.returns(else_s)) and self.inline_depth > 0:
                raise Unsupported("return inside a branch on data in an inlined callee at %s" % self.where(s))
            if self.returns(then_s) or self.returns(else_s):
                # at least one arm leaves the function: each arm carries its own continuation (no duplication of `rest`
                # unless both arms fall through, which only happens when one of them returns conditionally)
                pre = self.flush_lines()
                t = self.sub(lambda: self.block(then_s + rest, dict(env), k))
                e = self.sub(lambda: self.block(else_s + rest, dict(env), k))
                return pre + "if %s then (%s) else (%s)" % (cond, t, e)
            env_t, env_e = dict(env), dict(env)
            self.block(then_s, env_t, lambda e_: "")
            self.block(else_s, env_e, lambda e_: "")
            for loc in sorted(set(env_t) | set(env_e), key=str):
                vt, ve = env_t.get(loc, env.get(loc)), env_e.get(loc, env.get(loc))
                if vt is None or ve is None:
                    continue                      # declared in one arm only: dead after the if
                if (isinstance(vt, Ptr) or isinstance(ve, Ptr) or (loc[0] == "var" and loc[1] in self.int_vars)) and \
                        (vt.v if isinstance(vt, IntConst) else vt) != (ve.v if isinstance(ve, IntConst) else ve):
                    raise Unsupported("the arms of a branch on data leave %s in different states at %s" % (loc[1], self.where(s)))
                if (vt.v if isinstance(vt, IntConst) else vt) != (ve.v if isinstance(ve, IntConst) else ve):
                    self.assign(loc, "(if %s then %s else %s)" % (cond, self.real(vt), self.real(ve)), env)
            return self.block(rest, env, k)
        # expression statement
        self.expr(s, env)
        return self.block(rest, env, k)

    def returns(self, stmts):
        for s in stmts:
            if s["kind"] in ("ReturnStmt", "GotoStmt"):
                return True
            if self.fuel_mode:
                # fuelled translation: break/continue leave the normal flow too, and a fuelled loop carries the rest of the
                # function inside its Fixpoint (an over-approximation only duplicates the continuation)
                if s["kind"] in ("BreakStmt", "ContinueStmt") and self.loop_ctx is not None:
                    return True
                if s["kind"] == "_FuelLoop" or (s["kind"] in ("ForStmt", "WhileStmt", "DoStmt") and self.data_loop(s)):
                    return True
            if self.returns([c for c in s.get("inner", []) if isinstance(c, dict) and ("Stmt" in c.get("kind", ""))]):
                return True
        return False

    def flush_lines(self):
        pre = "\n    ".join(self.lines)
        self.lines = []
        return pre + ("\n    " if pre else "")

    def sub(self, thunk):
        saved, self.lines = self.lines, []
        body = thunk()
        self.lines = saved
        return body

    def flush(self, term):
        return self.flush_lines() + term

    def result(self, env, rv):
        outs = []
        for pname, rec, fields in self.structs:
            for path, kind in fields:
                if kind == "real":
                    outs.append(self.real(env[("mem", pname, path)]))
        for a in self.array_params:
            if a in self.alen:
                if a not in self.const_arrays:
                    outs += [self.real(env[("arr", a, i)]) for i in range(self.alen[a])]
                continue
            for idx in sorted(i for (t, nm, i) in [l for l in env if l[0] == "arr"] if nm == a):
                if ("arr", a, idx) in self.written_cells:
                    outs.append(self.real(env[("arr", a, idx)]))
        if rv is not None:
            outs.append(rv)
        self.n_out = len(outs)
        if self.fuel_mode:
            return "Some " + ("tt" if not outs else "(" + ", ".join(outs) + ")" if len(outs) > 1 else outs[0])
        if not outs:
            return "tt"
        return "(" + ", ".join(outs) + ")" if len(outs) > 1 else outs[0]

    # ---------------------------------------------------------------- fuelled loops (version 4)
    FUEL_RESERVED = {"fuel": 1, "fuel0": 1, "S": 1, "Some": 1, "None": 1}
    MARK = re.compile(r"@@A(\d+):(\d+):(.*?)@@")

    def contains(self, n, kinds):
        if isinstance(n, dict):
            if n.get("kind") in kinds:
                return True
            return any(self.contains(c, kinds) for c in n.get("inner", []))
        return False

    def has_real(self, n):
        if isinstance(n, dict):
            q = n.get("type", {}).get("qualType", "")
            if q and is_real_type(q.split("':'")[0].strip("'")):
                return True
            return any(self.has_real(c) for c in n.get("inner", []))
        return False

    def data_loop(self, s):
        """the trip count of this loop is not known at translation time: no condition, or one with a real-valued operand"""
        parts, kd = s["inner"], s["kind"]
        cond = (parts + [{}] * 5)[2] if kd == "ForStmt" else parts[0] if kd == "WhileStmt" else parts[1]
        return not cond.get("kind") or self.has_real(cond)

    def decl_order(self):
        if not hasattr(self, "_decl_order"):
            names = [c.get("name", "_") for c in self.node.get("inner", []) if c["kind"] == "ParmVarDecl"]

            def walk(n):
                if isinstance(n, dict):
                    if n.get("kind") == "VarDecl" and n.get("name") not in names:
                        names.append(n.get("name"))
                    for c in n.get("inner", []):
                        walk(c)
            walk([c for c in self.node["inner"] if c["kind"] == "CompoundStmt"][0])
            self._decl_order = names
        return self._decl_order

    def state_order(self, env):
        """canonical order of the locations of env: members of the struct parameters (declaration order), other members,
        array cells, then parameters and locals in declaration order"""
        locs, seen = [], set()

        def add(l):
            if l in env and l not in seen:
                seen.add(l)
                locs.append(l)
        for pname, _rec, fields in self.structs:
            for path, _kind in fields:
                add(("mem", pname, path))
        for l in list(env):
            if l[0] == "mem":
                add(l)
        for l in sorted((l for l in env if l[0] == "arr"), key=lambda l: (l[1], l[2])):
            add(l)
        for nm in self.decl_order():
            add(("var", nm))
        for l in list(env):
            add(l)
        return locs

    def loop_call(self, kk, fname, fuel, args):
        return "%s O@@EXTA@@ %s%s" % (fname, fuel, "".join("@@A%d:%d:%s@@" % (kk, i, a) for i, a in enumerate(args)))

    def fuel_loop(self, s, rest, env, k):
        """s: {"cond", "inc", "body", "do"}; emits the Fixpoint of the loop (the statements `rest` and the continuation k that
        follow the loop are translated inside it) and returns the call that enters it"""
        at = self.where(s)
        if self.loop_ctx is not None:
            raise Unsupported("data-dependent loop nested in another one at %s" % at)
        if self.inline_depth > 0:
            raise Unsupported("data-dependent loop in an inlined callee at %s" % at)
        self.n_loops += 1
        kk = self.n_loops
        fname = "gen_%s_loop%d" % (self.name, kk)
        locs = [l for l in self.state_order(env) if isinstance(env[l], str)]
        consts = dict((l, v) for l, v in env.items() if not isinstance(v, str))
        pre = self.flush_lines()
        call = self.loop_call(kk, fname, self.fuel_var, [env[l] for l in locs])
        cond, inc, body = s["cond"], s["inc"], s["body"]
        saved = (self.counter, self.fuel_var, self.lines, self.loop_ctx)
        self.counter, self.fuel_var, self.lines = dict(self.FUEL_RESERVED), "fuel0", []
        fenv, params = dict(consts), []
        for l in locs:
            nm = self.fresh(l[1] if l[0] == "var" else "%s_%s" % (l[1], l[2]))
            params.append(nm)
            fenv[l] = nm
        entry = set(fenv)

        def same(v, w):
            if isinstance(v, IntConst):
                return isinstance(w, IntConst) and v.v == w.v
            return v == w

        def recurse(e):
            for l, v in consts.items():
                if not same(v, e.get(l)):
                    raise Unsupported("a pass of the loop at %s changes the integer or pointer %s" % (at, ".".join(str(x) for x in l[1:])))
            for l in e:
                if l not in entry and l[0] == "arr" and l[1] in self.array_params:
                    raise Unsupported("a pass of the loop at %s writes the new cell %s[%d]" % (at, l[1], l[2]))
            args = []
            for l in locs:
                v = e.get(l)
                if v is None or isinstance(v, Ptr):
                    raise Unsupported("a pass of the loop at %s leaves %s without a real value" % (at, l[1]))
                args.append(self.real(v))
            return self.flush(self.loop_call(kk, fname, "fuel0", args))

        def outside(thunk):
            saved_ctx, self.loop_ctx = self.loop_ctx, None
            try:
                return thunk()
            finally:
                self.loop_ctx = saved_ctx

        def k_rest(e):                      # the test is false, or `break`: the statements after the loop
            return outside(lambda: self.block(rest, e, k))

        def test(e, k_true):                # evaluate the condition in e: true -> k_true, false -> after the loop
            c = self.expr(cond, e) if cond.get("kind") else IntConst(1)
            if isinstance(c, IntConst):
                return k_true(e) if c.v else k_rest(e)
            pre2 = self.flush_lines()
            t = self.sub(lambda: k_true(dict(e)))
            r = self.sub(lambda: k_rest(dict(e)))
            return pre2 + "if %s then (%s) else (%s)" % (self.boolean(c), t, r)

        def k_next(e):                      # end of the body, or `continue`
            def go():
                if inc.get("kind"):
                    self.expr(inc, e)
                return test(e, recurse) if s["do"] else recurse(e)
            return outside(go)

        self.loop_ctx = {"break": k_rest, "continue": k_next}
        self.in_fix += 1
        try:
            if s["do"]:
                term = self.block([body], fenv, k_next)
            else:
                term = test(fenv, lambda e: self.with_ctx({"break": k_rest, "continue": k_next}, lambda: self.block([body], e, k_next)))
        finally:
            self.in_fix -= 1
            self.counter, self.fuel_var, self.lines, self.loop_ctx = saved
        # live state: a parameter is kept when the pass reads it other than to hand it on to a position that is dropped
        own = [(int(m.group(2)), m.group(3)) for m in self.MARK.finditer(term) if int(m.group(1)) == kk]
        rest_text = self.MARK.sub(lambda m: (" " + m.group(3) + " ") if int(m.group(1)) != kk and int(m.group(2)) in self.loop_used[int(m.group(1))] else " ", term)
        occurs = lambda nm, txt: re.search(r"(?<![\w'])%s(?![\w'])" % re.escape(nm), txt) is not None
        used = set(i for i, nm in enumerate(params) if occurs(nm, rest_text))
        changed = True
        while changed:
            changed = False
            for pos, arg in own:
                if pos in used:
                    for i, nm in enumerate(params):
                        if i not in used and occurs(nm, arg):
                            used.add(i)
                            changed = True
        self.loop_used[kk] = used
        self.loop_params[kk] = params
        self.fix_texts.append("Fixpoint %s {T : Type} (O : NumOps T)@@EXTB@@ (fuel : nat)@@PARS%d@@ {struct fuel} : @@RTY@@ :=\n"
                              "    match fuel with\n    | 0%%nat => None\n    | S fuel0 =>\n    %s\n    end." % (fname, kk, term))
        return pre + call

    def with_ctx(self, ctx, thunk):
        saved_ctx, self.loop_ctx = self.loop_ctx, ctx
        try:
            return thunk()
        finally:
            self.loop_ctx = saved_ctx

    def finish_fuel(self, text, extb, rty):
        exta = "".join(" x_%s" % e for e in self.externs)

        def pars(m):
            kk = int(m.group(1))
            ps = [p for i, p in enumerate(self.loop_params[kk]) if i in self.loop_used[kk]]
            return (" (" + " ".join(ps) + " : T)") if ps else ""
        text = self.MARK.sub(lambda m: (" " + m.group(3)) if int(m.group(2)) in self.loop_used[int(m.group(1))] else "", text)
        text = re.sub(r"@@PARS(\d+)@@", pars, text)
        return text.replace("@@EXTB@@", extb).replace("@@EXTA@@", exta).replace("@@RTY@@", rty)

    def translate(self):
        env = {}
        binders = []
        self.written_cells = set()
        if self.fuel_mode:
            self.counter.update(self.FUEL_RESERVED)
        params = [c for c in self.node.get("inner", []) if c["kind"] == "ParmVarDecl"]
        body = [c for c in self.node["inner"] if c["kind"] == "CompoundStmt"][0]
        self._scan_written(body)
        for p in params:
            q = p["type"]["qualType"]
            name = p.get("name", "_")
            rec = self.tu.record_of(q) if "*" in q else None
            vrec = self.rec_of_type(q)
            if rec and (self.alen or self.spec) and any(k_ in ("ptr", "ptrc", "int") for _, k_ in self.tu.flatten(rec)):
                # bounded mode, structure with pointer / integer members: `f@ctx.n=2;ctx.p=2` fixes the integers and gives the
                # pointed-to arrays a length (named <param>_<member>); real members are binders, in declaration order
                const_struct = bool(re.match(r"^(const\s+\w+|\w+\s+const)\s*\*", q.replace("struct ", "")))
                fields = self.tu.flatten(rec)
                if not const_struct:
                    self.structs.append((name, rec, fields))
                self.param_kinds.append(("bstruct", name))
                for path, kind in fields:
                    key = "%s.%s" % (name, path)
                    if kind == "real":
                        v = self.fresh("%s_%s" % (name, path))
                        binders.append(v)
                        env[("mem", name, path)] = v
                    elif kind == "int":
                        if key not in self.spec:
                            raise Unsupported("integer member %s has no value in the specialisation of %s" % (key, self.name))
                        env[("mem", name, path)] = IntConst(self.spec[key])
                    elif kind in ("ptr", "ptrc"):
                        if key not in self.alen:
                            raise Unsupported("pointer member %s has no declared length in the specialisation of %s" % (key, self.name))
                        arr = coq_ident("%s_%s" % (name, path))
                        self.alen[arr] = self.alen[key]
                        self.array_params.append(arr)
                        if kind == "ptrc":
                            self.const_arrays.add(arr)
                        for i_ in range(self.alen[arr]):
                            v = self.fresh("%s_%d" % (arr, i_))
                            binders.append(v)
                            env[("arr", arr, i_)] = v
                        env[("mem", name, path)] = Ptr(arr, 0)
            elif rec and re.match(r"^(const\s+\w+|\w+\s+const)\s*\*", q.replace("struct ", "")):
                # pointer to const: the members are inputs only
                paths = self.real_paths(rec)
                self.param_kinds.append(("cptr", name, paths))
                for path in paths:
                    v = self.fresh("%s_%s" % (name, path))
                    binders.append(v)
                    env[("mem", name, path)] = v
            elif rec:
                fields = self.tu.flatten(rec)
                self.structs.append((name, rec, fields))
                self.param_kinds.append(("ptr", name, [p_ for p_, k_ in fields if k_ == "real"]))
                for path, kind in fields:
                    if kind == "real":
                        v = self.fresh("%s_%s" % (name, path))
                        binders.append(v)
                        env[("mem", name, path)] = v
            elif vrec:
                paths = self.real_paths(vrec)
                self.param_kinds.append(("val", name, paths))
                for path in paths:
                    v = self.fresh("%s_%s" % (name, path))
                    binders.append(v)
                    env[("mem", name, path)] = v
            elif "*" in q and is_real_type(q.replace("*", "").replace("__restrict", "").replace("restrict", "").replace("const", "").strip()):
                self.array_params.append(name)
                self.param_kinds.append(("array", name))
                if name in self.alen:
                    if re.match(r"^\s*(const\s+\w+|\w+\s+const)\s*\*", q):
                        self.const_arrays.add(name)
                    for i_ in range(self.alen[name]):
                        v = self.fresh("%s_%d" % (name, i_))
                        binders.append(v)
                        env[("arr", name, i_)] = v
                    env[("var", name)] = Ptr(name, 0)
                    self.int_vars.add(name)
                elif self.alen:
                    raise Unsupported("array parameter %s of %s has no declared length" % (name, self.name))
            elif is_real_type(q):
                v = self.fresh(name)
                binders.append(v)
                env[("var", name)] = v
                self.param_kinds.append(("real", name))
            elif is_int_type(q) and name in self.spec:
                env[("var", name)] = IntConst(self.spec[name])          # specialised: `f@name=value`
                self.param_kinds.append(("int", name))
                self.int_vars.add(name)
            elif is_int_type(q):
                raise Unsupported("integer parameter %s of %s" % (name, self.name))
            else:
                raise Unsupported("parameter %s : %s of %s" % (name, q, self.name))
        k_end = lambda e: self.flush(self.result(e, None))
        self.top_stmts = body.get("inner", [])
        self.k_end = k_end
        term = self.block(body.get("inner", []), env, k_end)
        read_binders = [v for (_, _, v) in self.reads]
        sig = {"name": self.name, "binders": binders + read_binders,
               "structs": [(n, r, [p for p, k in f if k == "real"]) for n, r, f in self.structs],
               "arrays_written": sorted([(a, i) for (_, a, i) in self.written_cells]),
               "arrays_read": [(a, i) for (a, i, _) in self.reads],
               "returns_value": not self.ret_void,
               "param_kinds": self.param_kinds, "externs": list(self.externs),
               "scalar_only": not self.structs and not self.array_params and all(pk[0] == "real" for pk in self.param_kinds)}
        allb = binders + read_binders
        # the result type is stated: without it Coq's elaboration of nested lets is exponential
        tys = ["T"] * self.n_out
        if tys and not self.ret_void and self.node["type"]["qualType"].split("(")[0].strip() in ("a_bool", "_Bool", "bool"):
            tys[-1] = "bool"
        rty = "unit" if self.n_out == 0 else " * ".join(tys)
        extb = "".join(" (x_%s : %s)" % (e, " -> ".join(["T"] * (self.extern_ok[e] + 1))) for e in self.externs)
        if self.fuel_mode:
            sig["fuel"] = True
            rty = "option (%s)" % rty
            notes = "".join("(* %s_loop%d : live state %s *)\n" % (
                self.name, kk, " ".join(p for i, p in enumerate(self.loop_params[kk]) if i in self.loop_used[kk]) or "-")
                for kk in sorted(self.loop_params))
            text = notes + "".join(f + "\n" for f in self.fix_texts) + \
                "Definition gen_%s {T : Type} (O : NumOps T)%s (fuel : nat)%s : %s :=\n    %s." % (
                    self.name, extb, (" (" + " ".join(allb) + " : T)") if allb else "", rty, term)
            return self.finish_fuel(text, extb, rty), sig
        text = "Definition gen_%s {T : Type} (O : NumOps T)%s%s : %s :=\n    %s." % (
            self.name, extb, (" (" + " ".join(allb) + " : T)") if allb else "", rty, term)
        return text, sig

    def _scan_written(self, n):
        if isinstance(n, dict):
            if n.get("kind") in ("BinaryOperator", "CompoundAssignOperator") and n.get("opcode", "").endswith("=") and n.get("opcode") not in ("==", "!=", "<=", ">="):
                try:
                    if self.rec_of_type(n["inner"][0].get("type", {}).get("qualType", "")):
                        raise Unsupported("struct")
                    loc = self.lvalue(n["inner"][0], {})
                    if loc[0] == "arr":
                        self.written_cells.add(loc)
                except Unsupported:
                    pass
            for c in n.get("inner", []):
                self._scan_written(c)


def translate_file(path, include, cfg, names, extra=(), sigs=None, externs=None, real_size=8, extra_sources=()):
    """Returns (coq_text, {name: signature}, {name: error}) for the requested function names, in the given order.
    `sigs` (shared across calls) lets later files call functions translated from earlier ones; `externs` is the
    allow-list {name: arity} of body-less scalar functions that become function binders."""
    tu = TU(load_ast(path, include, cfg, extra))
    for xs in extra_sources:            # bodies available for inlining in bounded translations
        xt = TU(load_ast(xs, include, cfg, extra))
        for k_, v_ in xt.funcs.items():
            tu.funcs.setdefault(k_, v_)
        for k_, v_ in xt.enums.items():
            tu.enums.setdefault(k_, v_)
    out, errs = [], {}
    sigs = {} if sigs is None else sigs
    busy = set()

    def ensure(nm):
        """translate nm (and, first, the functions with a body in this file that it calls); `f@p=3` translates f with its
        integer parameter p fixed to 3 as gen_f_p3"""
        if nm in sigs or nm in errs:
            return
        spec, alen, fuel = {}, {}, False
        full = nm
        if "@" in nm:
            nm, sp = nm.split("@", 1)
            sp, _, ar = sp.partition(";")
            for kv in [x for x in sp.split(",") if x]:
                if kv == "fuel":            # `f@fuel`: data-dependent loops as Fixpoints on fuel (version 4)
                    fuel = True
                    continue
                kk, vv = kv.split("=")
                spec[kk] = int(vv)
            alen = {}
            for kv in [x for x in ar.split(",") if x]:
                kk, vv = kv.split("=")
                alen[kk] = int(vv)
        node = tu.funcs.get(nm)
        if node is None:
            errs[nm] = "function %s not found with a body in %s" % (nm, path)
            return
        if full in busy:
            errs[full] = "recursive call cycle through %s" % nm
            return
        busy.add(full)
        try:
            for callee in sorted(called_functions(node)):
                if callee in tu.funcs and callee not in sigs and callee != nm and not (spec or alen):
                    ensure(callee)
            fn = Fn(tu, node, sigs)
            fn.extern_ok = dict(externs or {})
            fn.spec = spec
            fn.alen = alen
            fn.fuel_mode = fuel
            fn._real_size = real_size
            if spec or alen:
                fn.name = nm + "".join("_%s%s" % (coq_ident(k_), str(v_).replace("-", "m")) for k_, v_ in spec.items())
            text, sig = fn.translate()
            sigs[full] = sig
            out.append("(* %s : inputs %s%s ; outputs: %s%s%s *)\n%s\n" % (
                full, " ".join(sig["binders"]) or "-",
                (" ; externs " + " ".join(sig["externs"])) if sig["externs"] else "",
                "; ".join("%s{%s}" % (n, ",".join(f)) for n, r, f in sig["structs"]) or "",
                (" cells " + ",".join("%s[%d]" % c for c in sig["arrays_written"])) if sig["arrays_written"] else "",
                " return" if sig["returns_value"] else "", text))
        except Unsupported as e:
            errs[full] = str(e)
        busy.discard(full)

    for nm in names:
        ensure(nm)
    return "\n".join(out), sigs, errs


def annotate_lines(node):
    """give every node of a function the source line of its first location (clang omits "line" when it repeats)"""
    cur = [None]

    def see(l):
        if isinstance(l, dict):
            for key in ("spellingLoc", "expansionLoc"):
                if key in l:
                    see(l[key])
            if "line" in l:
                cur[0] = l["line"]

    def walk(n):
        if not isinstance(n, dict):
            return
        first = None
        for part in (n.get("loc"), (n.get("range") or {}).get("begin")):
            if isinstance(part, dict):
                see(part)
                if first is None and part:
                    first = cur[0]
        n["_line"] = first if first is not None else cur[0]
        see((n.get("range") or {}).get("end"))
        for c in n.get("inner", []):
            walk(c)
    walk(node)


def called_functions(n, acc=None):
    acc = set() if acc is None else acc
    if isinstance(n, dict):
        if n.get("kind") == "CallExpr":
            c = n["inner"][0]
            while c.get("kind") in ("ImplicitCastExpr", "ParenExpr"):
                c = c["inner"][0]
            if c.get("kind") == "DeclRefExpr":
                acc.add(c["referencedDecl"]["name"])
        for c in n.get("inner", []):
            called_functions(c, acc)
    return acc


HEADER = """(* GENERATED by tools/c2coq.py from the current sources - do not edit. *)
From Coq Require Import ZArith Bool.
From LibaV Require Import Common.NumOps.

"""

if __name__ == "__main__":
    path, include, cfg = sys.argv[1:4]
    text, sigs, errs = translate_file(path, include, cfg, sys.argv[4:])
    print(HEADER + text)
    for k, v in errs.items():
        print("(* ERROR %s: %s *)" % (k, v))
