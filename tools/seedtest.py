#!/usr/bin/env python3
"""Confirm a seeded breaking change and run a check against it.

  tools/seedtest.py <ID> <dir with patch.diff [+ demo.c|demo.sh]> [--tier quick] [--keep]

Works on a scratch copy of /repo's HEAD under /tmp (removed afterwards), never on /repo itself:
  1. git archive HEAD -> scratch; apply patch.diff
  2. configure + build + ctest in the scratch copy (the change must compile and pass the 41 tests)
  3. demo: must fail with the patch and pass without it (when a demo is present)
  4. VERIF_REPO=<scratch> tools/vcheck.py <ID>: records exit status and VIOLATION lines
Prints a JSON summary (used for seeded/<id>/meta.json)."""
import json
import os
import re
import shutil
import subprocess
import sys
import tempfile
from pathlib import Path

V = Path(__file__).resolve().parent.parent


def sh(cmd, cwd=None, env=None, timeout=3600):
    e = dict(os.environ)
    if env:
        e.update(env)
    p = subprocess.run(cmd, shell=True, cwd=cwd, env=e, stdout=subprocess.PIPE, stderr=subprocess.STDOUT, text=True,
                       errors="replace", timeout=timeout)
    return p.returncode, p.stdout


def build_and_test(d):
    rc, o = sh("cmake -G Ninja -B _build -DCMAKE_BUILD_TYPE=RelWithDebInfo -DBUILD_TESTING=ON -DLIBA_CXX=ON >/dev/null 2>&1 && "
               "cmake --build _build 2>&1 | tail -3 && ctest --test-dir _build -j8 --timeout 900 2>&1 | tail -4", cwd=d)
    m = re.search(r"(\d+)% tests passed, (\d+) tests failed out of (\d+)", o)
    return (rc == 0 and m and m.group(2) == "0"), (m.group(0) if m else o[-400:])


def run_demo(mdir, d):
    demo_c, demo_sh = mdir / "demo.c", mdir / "demo.sh"
    if demo_c.exists() and not demo_sh.exists():
        srcs = " ".join(str(p) for p in sorted((d / "src").glob("*.c")))
        exe = d / "_demo.out"
        rc, o = sh("gcc -w -I%s/include -DA_HAVE_H='\"%s/_build/a.cmake.h\"' %s %s -lm -o %s" % (d, d, demo_c, srcs, exe))
        if rc != 0:
            return None, "demo does not compile: " + o[-300:]
        rc, o = sh(str(exe), cwd=d, timeout=300)
        return rc == 0 and "FAIL" not in o, o[-300:]
    if demo_sh.exists():
        rc, o = sh("sh %s %s" % (demo_sh, d), cwd=d, timeout=600)
        return rc == 0 and "FAIL" not in o, o[-300:]
    return None, "no demo"


def main():
    pid, mdir = sys.argv[1], Path(sys.argv[2]).resolve()
    tier = "quick"
    if "--tier" in sys.argv:
        tier = sys.argv[sys.argv.index("--tier") + 1]
    res = {"property": pid, "dir": str(mdir), "tier": tier}
    base = Path(tempfile.mkdtemp(prefix="seed_%s_" % pid, dir="/tmp"))
    try:
        for name in ("clean", "mut"):
            (base / name).mkdir()
            rc, o = sh("git -C /repo archive HEAD | tar -x -C %s" % (base / name))
        rc, o = sh("git apply --whitespace=nowarn %s" % (mdir / "patch.diff"), cwd=base / "mut")
        if rc != 0:
            rc, o = sh("patch -p1 < %s" % (mdir / "patch.diff"), cwd=base / "mut")
        res["patch_applies"] = rc == 0
        if rc != 0:
            res["error"] = o[-400:]
            print(json.dumps(res, indent=1))
            return 2
        ok_m, msg_m = build_and_test(base / "mut")
        res["tests_pass_with_change"] = bool(ok_m)
        res["tests_with_change"] = msg_m
        ok_c, msg_c = build_and_test(base / "clean")
        res["tests_pass_clean"] = bool(ok_c)
        dm, om = run_demo(mdir, base / "mut")
        dc, oc = run_demo(mdir, base / "clean")
        res["demo_passes_with_change"] = dm
        res["demo_passes_clean"] = dc
        res["demo_output_with_change"] = om
        rc, o = sh("python3 tools/vcheck.py %s --tier %s" % (pid, tier), cwd=V, env={"VERIF_REPO": str(base / "mut")}, timeout=7200)
        res["check_exit"] = rc
        res["check_violations"] = [l for l in o.splitlines() if l.startswith("VIOLATION")][:6]
        res["check_detail"] = [l for l in o.splitlines() if "->" in l or "TIE BROKEN" in l][:6]
        res["caught"] = rc == 1 and bool(res["check_violations"])
        res["caught_with_failing_input"] = res["caught"] and any("no-failing-input-found" not in l for l in res["check_violations"])
        # copy one replay file for the record
        m = re.search(r"replay=(\S+)", "\n".join(res["check_violations"]))
        if m and Path(m.group(1)).exists():
            try:
                rp = json.loads(Path(m.group(1)).read_text())
                res["replay_excerpt"] = {k: (str(v)[:600]) for k, v in rp.items() if k in ("key", "what", "replay", "found_failing_input")}
            except Exception:
                pass
    finally:
        if "--keep" not in sys.argv:
            shutil.rmtree(base, ignore_errors=True)
    print(json.dumps(res, indent=1))
    return 0


if __name__ == "__main__":
    sys.exit(main())
