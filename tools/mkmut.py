#!/usr/bin/env python3
"""tools/mkmut.py <ID> [N] [suffix]: create a scratch worktree /tmp/mut_<ID><suffix> of /repo HEAD and write the
adversary prompt build/mutp_<ID><suffix>.txt (property text + worktree path only)."""
import json, subprocess, sys
from pathlib import Path
V = Path(__file__).resolve().parent.parent
pid = sys.argv[1]; n = sys.argv[2] if len(sys.argv) > 2 else "2"; suf = sys.argv[3] if len(sys.argv) > 3 else ""
wt = "/tmp/mut_%s%s" % (pid, suf)
props = {json.loads(l)["id"]: json.loads(l) for l in (V / "properties.jsonl").read_text().splitlines() if l.strip()}
p = props[pid]
text = "%s. %s" % (p.get("title", ""), p.get("statement", p.get("text", "")))
subprocess.run(["git", "-C", "/repo", "worktree", "add", "--detach", wt, "HEAD"], check=True, stdout=subprocess.DEVNULL)
t = (V / "build" / "mut_prompt.txt").read_text().replace("{WT}", wt).replace("{PROP}", text).replace("{N}", n)
(V / "build" / ("mutp_%s%s.txt" % (pid, suf))).write_text(t)
print(wt)
