"""vstr: the translator tie of property C06 (dynamic string).

`str_translate_and_tie(ctx)` regenerates the functions of src/str.c / include/a/str.h listed in c2str.functions() from the
CURRENT sources with tools/c2str.py into build/C06/gen_str/StrGen.v and compiles harness/C06/TieStr*.v against it: every
`Theorem tie_*` (generated function = hand-written proved model of coq/C06/StrDefs.v, for all strings, arguments and allocator
schedules) is one obligation; `Print Assumptions` under each must say "Closed under the global context".  Failures go to
ctx.tie_broken with the name of the tie theorem.  Honours VERIF_REPO (vlib.REPO)."""
import hashlib
import re
import time
from pathlib import Path

try:
    from tools import vlib
except ImportError:  # pragma: no cover
    import vlib
try:
    from tools import c2str
except ImportError:  # pragma: no cover
    import c2str

TIE_DIR = vlib.VERIF / "harness" / "C06"


def tie_files():
    return sorted(TIE_DIR.glob("TieStr*.v"))


def first_error(out):
    m = re.search(r'line (\d+), characters [^\n]*\n((?:[^\n]*\n?){0,14})', out)
    if not m:
        return None, " ".join(out.split())[-500:]
    return int(m.group(1)), " ".join(m.group(2).split())[:500]


def owner_theorem(src, line):
    """(name of the lemma/theorem the line belongs to, tie theorem it serves = itself or the first `Theorem tie_` after it)"""
    lines = src.splitlines()
    name = None
    for i in range(min(line, len(lines)) - 1, -1, -1):
        m = re.match(r"\s*(?:Theorem|Lemma|Corollary|Definition|Fixpoint|Example|Fact|Remark|Proposition|Ltac)\s+([\w']+)", lines[i])
        if m:
            name = m.group(1)
            break
    if name and name.startswith("tie_"):
        return name, name
    for i in range(max(line - 1, 0), len(lines)):
        m = re.match(r"\s*Theorem\s+(tie_[\w']+)", lines[i])
        if m:
            return name, m.group(1)
    return name, None


def str_translate_and_tie(ctx, timeout=600):
    """Returns True iff every tie theorem was accepted."""
    t0 = time.time()
    files = tie_files()
    srcs = [f.read_text() for f in files]
    per_file = [re.findall(r"^\s*Theorem\s+(tie_[\w']+)", s, flags=re.M) for s in srcs]
    thms = [t for ts in per_file for t in ts]
    funcs = c2str.functions()
    ctx.cov["obligations"] += len(thms)
    ctx.cov.setdefault("translated_functions", []).extend(funcs)
    for f, s in zip(files, srcs):
        bad = ctx.scan_forbidden_text(s)
        if bad:
            ctx.tie_broken("forbidden construct in %s: %s" % (f, bad))
            return False
    missing = [f for f in funcs if "tie_" + f not in thms]
    if missing:
        ctx.tie_broken("harness/C06/TieStr*.v has no tie theorem for: %s" % ", ".join(missing))
        return False
    # the lemma file of the model the tie proofs use (built by the mini-make; prove() has normally built it already)
    ok, outs, failed = ctx.coq_build(["C06/StrLemmas.v"], timeout=timeout)
    if not ok:
        ctx.tie_broken("coq/C06/StrLemmas.v (used by the string tie) does not build: %s" % " ".join(outs.get(failed[0], "").split())[-300:])
        return False
    # a run against a scratch copy (VERIF_REPO) gets its own directory: it may run at the same time as a run on /repo
    scratch = "" if str(vlib.REPO) == "/repo" else "_" + hashlib.md5(str(vlib.REPO).encode()).hexdigest()[:8]
    gd = ctx.build / ("gen_str" + scratch)
    gd.mkdir(parents=True, exist_ok=True)
    for old in [p for pat in ("*.vo", "*.glob", "*.vok", "*.vos") for p in gd.glob(pat)]:
        try:
            old.unlink()
        except OSError:
            pass
    cfg = ctx.cfg_header()
    text, errs = c2str.translate(vlib.REPO, str(Path(cfg).resolve()))
    (gd / "StrGen.v").write_text(text)
    if errs:
        for k, v in errs.items():
            ctx.tie_broken("translator c2str: %s is outside the supported subset, tie theorem tie_%s cannot be checked: %s" % (k, k, v))
        return False
    args = ["coqc", "-Q", str(vlib.COQ), "LibaV", "-Q", str(gd), "Gen", "-w", "none"]
    rc, out = vlib.sh(args + [str(gd / "StrGen.v")], cwd=gd, timeout=timeout)
    if rc != 0:
        line, msg = first_error(out)
        name, _ = owner_theorem(text, line) if line else (None, None)
        ctx.tie_broken("generated string functions StrGen.v do not compile (%s, tie theorem tie_%s cannot be checked): %s"
                       % (name or "?", name or "?", msg))
        return False
    ok, done = True, 0
    for f, src, mine in zip(files, srcs, per_file):
        tf = gd / f.name
        tf.write_text(src)
        rc, out = vlib.sh(args + [str(tf)], cwd=gd, timeout=timeout)
        if rc != 0:
            line, msg = first_error(out)
            name, thm = owner_theorem(src, line) if line else (None, None)
            which = "tie theorem %s (its lemma %s)" % (thm, name) if (thm and name and name != thm) else "tie theorem %s" % (thm or name or "?")
            ctx.tie_broken("regenerated string function no longer matches the proved model: %s of %s fails: %s" % (which, f.name, msg))
            done += mine.index(thm) if thm in mine else 0
            ok = False
            break
        paf = gd / ("PA_" + f.name)
        paf.write_text("From Gen Require Import %s.\n" % f.stem + "".join("Print Assumptions %s.\n" % t for t in mine))
        rc, pa = vlib.sh(args + [str(paf)], cwd=gd, timeout=timeout)
        closed = len(re.findall(r"^Closed under the global context", pa, flags=re.M))
        if rc != 0 or closed < len(mine):
            ctx.tie_broken("Print Assumptions under the tie theorems of %s: %d of %d closed: %s" % (f.name, closed, len(mine), " ".join(pa.split())[-300:]))
            ok = False
            break
        done += len(mine)
        ctx.cov.setdefault("theorems", []).extend(mine)
    ctx.cov["discharged"] += done
    ctx.cov["str_tie"] = {"functions": len(funcs), "tie_theorems_accepted": done, "of": len(thms),
                          "generated_lines": text.count("\n"), "generated_loops": len(re.findall(r"^Fixpoint ", text, flags=re.M)),
                          "seconds": round(time.time() - t0, 1)}
    if not ok:
        return False
    ctx.cov["trusted_base"].append(
        "translator tools/c2str.py (clang JSON AST -> Gallina over the vocabulary of C06/StrDefs.v: a_size arithmetic with the wrap "
        "written out, checked block accesses through get/put/blit/sub, a_alloc with fault schedule and events, pointers with "
        "provenance and a dangling-after-realloc guard; a_copy/a_move recognised by their bodies in src/a.c); its output is re-tied on "
        "every run: %d tie theorems (generated function = proved model, for every string, argument and schedule) accepted by coqc, all "
        "closed under the global context" % len(thms))
    ctx.log("string translator tie: %d functions regenerated, %d tie theorems accepted (%.1f s)" % (len(funcs), len(thms), time.time() - t0))
    return True
