"""vnav: the translator tie of property C03 (tree iterators and tear-down).

`nav_translate_and_tie(ctx)` regenerates the navigation functions of src/avl.c and src/rbt.c (head, tail, next, prev, pre_next,
pre_prev, post_head, post_tail, post_next, post_prev, tear and the helper new_child) from the CURRENT sources with
tools/c2nav.py, once per node layout (packed parent word, A_SIZE_POINTER 8; unpacked, A_SIZE_POINTER 1), into
build/C03/gen_nav/<layout>/NavGen.v, and compiles harness/C03/TieNav.v against each: every `Theorem tie_*` (generated function =
hand-written proved model of coq/C03/IterDefs.v, for all readers, fuels and arguments) is one obligation per layout;
`Print Assumptions` under each must say "Closed under the global context".  Failures go to ctx.tie_broken with the name of the
tie theorem.  Honours VERIF_REPO (vlib.REPO)."""
import hashlib
import re
from concurrent.futures import ThreadPoolExecutor
from pathlib import Path

try:
    from tools import vlib
except ImportError:  # pragma: no cover
    import vlib
try:
    from tools import c2nav
except ImportError:  # pragma: no cover
    import c2nav

TIE_FILE = vlib.VERIF / "harness" / "C03" / "TieNav.v"
LAYOUTS = (("packed", "A_SIZE_POINTER 8: parent and tag in the word parent_"),
           ("unpacked", "A_SIZE_POINTER 1: plain field parent"))


def layout_cfg(ctx, layout):
    """configuration header of a layout: the default one, or the same with A_SIZE_POINTER forced to a value with no spare bits
    (the #else arms of avl.h / rbt.h), as checks/C01.py and checks/C02.py build their second configuration"""
    base = ctx.cfg_header()
    if layout == "packed":
        return base
    txt = base.read_text().replace("#define A_SIZE_POINTER 8", "#define A_SIZE_POINTER 1")
    if "#define A_SIZE_POINTER 1" not in txt:
        raise vlib.CheckError("cannot derive the unpacked configuration header")
    p = ctx.build / "cfg_nav_unpacked.h"       # content depends on the version string of the tree only; rewritten when it differs
    if not p.exists() or p.read_text() != txt:
        p.write_text(txt)
    return p


def first_error(out):
    m = re.search(r'line (\d+), characters [^\n]*\n((?:[^\n]*\n?){0,12})', out)
    if not m:
        return None, " ".join(out.split())[-400:]
    return int(m.group(1)), " ".join(m.group(2).split())[:400]


def owner_theorem(src, line):
    """(name of the lemma/theorem the line belongs to, tie theorem it serves = itself or the first `Theorem tie_` after it)"""
    lines = src.splitlines()
    name = None
    for i in range(min(line, len(lines)) - 1, -1, -1):
        m = re.match(r"\s*(?:Theorem|Lemma|Corollary|Definition|Fixpoint|Example|Fact|Remark|Proposition|Ltac)\s+([\w']+)", lines[i])
        if m:
            name = m.group(1)
            break
    if name and name.startswith("tie_"):
        return name, name
    for i in range(max(line - 1, 0), len(lines)):
        m = re.match(r"\s*Theorem\s+(tie_[\w']+)", lines[i])
        if m:
            return name, m.group(1)
    return name, None


def one_layout(ctx, layout, what, tie_src, thms, timeout):
    """-> dict(layout, text, errs, forms, broken: [messages], discharged: int, closed: bool)"""
    r = {"layout": layout, "text": "", "errs": {}, "forms": {}, "broken": [], "discharged": 0}
    tag = "%s layout (%s)" % (layout, what)
    # a run against a scratch copy (VERIF_REPO) gets its own directory: it may run at the same time as a run on /repo
    scratch = "" if str(vlib.REPO) == "/repo" else "_" + hashlib.md5(str(vlib.REPO).encode()).hexdigest()[:8]
    gd = ctx.build / ("gen_nav" + scratch) / layout
    gd.mkdir(parents=True, exist_ok=True)
    for old in list(gd.glob("*.vo")) + list(gd.glob("*.glob")) + list(gd.glob("*.vok")) + list(gd.glob("*.vos")):
        try:
            old.unlink()
        except OSError:
            pass
    cfg = layout_cfg(ctx, layout)
    text, errs, forms = c2nav.translate(vlib.REPO, str(Path(cfg).resolve()))
    r.update(text=text, errs=errs, forms=forms)
    (gd / "NavGen.v").write_text(text)
    if errs:
        for k, v in errs.items():
            r["broken"].append("translator c2nav, %s: %s is outside the supported subset: %s" % (tag, k, v))
        return r
    args = ["coqc", "-Q", str(vlib.COQ), "LibaV", "-Q", str(gd), "Gen", "-w", "none"]
    rc, out = vlib.sh(args + [str(gd / "NavGen.v")], cwd=gd, timeout=timeout)
    if rc != 0:
        r["broken"].append("generated navigation functions NavGen.v (%s) do not compile: %s" % (tag, first_error(out)[1]))
        return r
    tf = gd / TIE_FILE.name
    tf.write_text(tie_src)
    rc, out = vlib.sh(args + [str(tf)], cwd=gd, timeout=timeout)
    if rc != 0:
        line, msg = first_error(out)
        name, thm = owner_theorem(tie_src, line) if line else (None, None)
        if thm and name and name != thm:
            which = "tie theorem %s (its lemma %s)" % (thm, name)
        else:
            which = "tie theorem %s" % (thm or name or "?")
        r["broken"].append("regenerated navigation function no longer matches the proved model, %s: %s of %s fails: %s"
                           % (tag, which, TIE_FILE.name, msg))
        r["discharged"] = thms.index(thm) if thm in thms else 0
        return r
    paf = gd / "PA_TieNav.v"
    paf.write_text("From Gen Require Import %s.\n" % TIE_FILE.stem + "".join("Print Assumptions %s.\n" % t for t in thms))
    rc, pa = vlib.sh(args + [str(paf)], cwd=gd, timeout=timeout)
    closed = len(re.findall(r"^Closed under the global context", pa, flags=re.M))
    if rc != 0 or closed < len(thms):
        r["broken"].append("Print Assumptions under the tie theorems of %s, %s: %d of %d closed: %s"
                           % (TIE_FILE.name, tag, closed, len(thms), " ".join(pa.split())[-300:]))
        return r
    r["discharged"] = len(thms)
    return r


def nav_translate_and_tie(ctx, timeout=300):
    """Returns True iff every tie theorem was accepted in both layouts."""
    tie_src = TIE_FILE.read_text()
    thms = re.findall(r"^\s*Theorem\s+(tie_[\w']+)", tie_src, flags=re.M)
    funcs = [f for t in ("avl", "rbt") for f in c2nav.nav_functions(t)]
    ctx.cov["obligations"] += len(thms) * len(LAYOUTS)
    ctx.cov.setdefault("translated_functions", []).extend(funcs)
    bad = ctx.scan_forbidden_text(tie_src)
    if bad:
        ctx.tie_broken("forbidden construct in %s: %s" % (TIE_FILE, bad))
        return False
    # every function on the list must have its tie theorem (a function dropped from the tie file would otherwise go unnoticed)
    missing = [f for f in funcs if not f.endswith("_new_child") and "tie_" + f not in thms]
    if missing:
        ctx.tie_broken("%s has no tie theorem for: %s" % (TIE_FILE.name, ", ".join(missing)))
        return False
    with ThreadPoolExecutor(max_workers=len(LAYOUTS)) as ex:
        res = list(ex.map(lambda lw: one_layout(ctx, lw[0], lw[1], tie_src, thms, timeout), LAYOUTS))
    ok = True
    for r in res:
        ctx.cov["discharged"] += r["discharged"]
        for b in r["broken"]:
            ok = False
            ctx.tie_broken(b)
        if not r["broken"]:
            ctx.cov.setdefault("theorems", []).extend("%s [%s layout]" % (t, r["layout"]) for t in thms)
    same = len(set(r["text"] for r in res)) == 1
    ctx.cov["nav_tie"] = {
        "layouts": {r["layout"]: {"parent_accessor": r["forms"], "tie_theorems_accepted": r["discharged"], "of": len(thms)} for r in res},
        "generated_code_identical_in_all_layouts": same,
        "generated_loops": len(re.findall(r"^Fixpoint ", res[0]["text"], flags=re.M)),
        "generated_lines": res[0]["text"].count("\n")}
    if not ok:
        return False
    ctx.cov["trusted_base"].append(
        "translator tools/c2nav.py (clang JSON AST -> Gallina over the reader/heap vocabulary of C03/IterDefs.v: checked field reads, "
        "fuelled loops, state writes; parent accessor recognised by its definition); its output is re-tied on every run: %d tie "
        "theorems x %d node layouts (generated function = proved model, for every reader, fuel and argument) accepted by coqc, all "
        "closed under the global context; generated code %s in the two layouts"
        % (len(thms), len(LAYOUTS), "identical" if same else "DIFFERENT"))
    ctx.log("navigation translator tie: %d functions regenerated per layout, %d tie theorems x %d layouts accepted%s"
            % (len(funcs), len(thms), len(LAYOUTS), "" if same else " (generated code differs between the layouts)"))
    return True
