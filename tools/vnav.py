"""vnav: the translator tie of property C03 (tree iterators and tear-down).

`nav_translate_and_tie(ctx)` regenerates the navigation functions of src/avl.c and src/rbt.c (head, tail, next, prev, pre_next,
pre_prev, post_head, post_tail, post_next, post_prev, tear and the helper new_child) from the CURRENT sources with
tools/c2nav.py, once per node layout (packed parent word, A_SIZE_POINTER 8; unpacked, A_SIZE_POINTER 1), into
build/C03/gen_nav/<layout>/NavGen.v, and compiles harness/C03/TieNav.v against each: every `Theorem tie_*` (generated function =
hand-written proved model of coq/C03/IterDefs.v, for all readers, fuels and arguments) is one obligation per layout;
`Print Assumptions` under each must say "Closed under the global context".  Failures go to ctx.tie_broken with the name of the
tie theorem.  Honours VERIF_REPO (vlib.REPO)."""
import hashlib
import re
from concurrent.futures import ThreadPoolExecutor
from pathlib import Path

try:
    from tools import vlib
except ImportError:  # pragma: no cover
    import vlib
try:
    from tools import c2nav
except ImportError:  # pragma: no cover
    import c2nav

TIE_FILE = vlib.VERIF / "harness" / "C03" / "TieNav.v"
MACRO_TIE_FILE = vlib.VERIF / "harness" / "C03" / "TieNavMacros.v"
UNIT_FILE = vlib.VERIF / "harness" / "C03" / "macro_unit.c"
LAYOUTS = (("packed", "A_SIZE_POINTER 8: parent and tag in the word parent_"),
           ("unpacked", "A_SIZE_POINTER 1: plain field parent"))


def layout_cfg(ctx, layout):
    """configuration header of a layout: the default one, or the same with A_SIZE_POINTER forced to a value with no spare bits
    (the #else arms of avl.h / rbt.h), as checks/C01.py and checks/C02.py build their second configuration"""
    base = ctx.cfg_header()
    if layout == "packed":
        return base
    txt = base.read_text().replace("#define A_SIZE_POINTER 8", "#define A_SIZE_POINTER 1")
    if "#define A_SIZE_POINTER 1" not in txt:
        raise vlib.CheckError("cannot derive the unpacked configuration header")
    p = ctx.build / "cfg_nav_unpacked.h"       # content depends on the version string of the tree only; rewritten when it differs
    if not p.exists() or p.read_text() != txt:
        p.write_text(txt)
    return p


def first_error(out):
    m = re.search(r'line (\d+), characters [^\n]*\n((?:[^\n]*\n?){0,12})', out)
    if not m:
        return None, " ".join(out.split())[-400:]
    return int(m.group(1)), " ".join(m.group(2).split())[:400]


def owner_theorem(src, line):
    """(name of the lemma/theorem/corollary the line belongs to, tie theorem it serves: itself, the first `Theorem tie_` after
    a lemma, the last one before a corollary)"""
    lines = src.splitlines()
    name, kind = None, None
    for i in range(min(line, len(lines)) - 1, -1, -1):
        m = re.match(r"\s*(Theorem|Lemma|Corollary|Definition|Fixpoint|Example|Fact|Remark|Proposition|Ltac)\s+([\w']+)", lines[i])
        if m:
            kind, name = m.group(1), m.group(2)
            break
    if name and name.startswith("tie_"):
        return name, name
    rng = range(min(line, len(lines)) - 1, -1, -1) if kind == "Corollary" else range(max(line - 1, 0), len(lines))
    for i in rng:
        m = re.match(r"\s*Theorem\s+(tie_[\w']+)", lines[i])
        if m:
            return name, m.group(1)
    return name, None


class Stage:
    """one generated module + the tie file proved against it"""

    def __init__(self, gen_module, tie_file, what):
        self.gen_module, self.tie_file, self.what = gen_module, Path(tie_file), what
        self.src = self.tie_file.read_text()
        self.thms = re.findall(r"^\s*Theorem\s+(tie_[\w']+)", self.src, flags=re.M)


def run_stage(gd, args, stage, text, tag, timeout):
    """write and compile the generated module, compile the tie file, print the assumptions -> (broken messages, discharged)"""
    (gd / (stage.gen_module + ".v")).write_text(text)
    rc, out = vlib.sh(args + [str(gd / (stage.gen_module + ".v"))], cwd=gd, timeout=timeout)
    if rc != 0:
        return ["generated %s %s.v (%s) do not compile: %s" % (stage.what, stage.gen_module, tag, first_error(out)[1])], 0
    tf = gd / stage.tie_file.name
    tf.write_text(stage.src)
    rc, out = vlib.sh(args + [str(tf)], cwd=gd, timeout=timeout)
    if rc != 0:
        line, msg = first_error(out)
        name, thm = owner_theorem(stage.src, line) if line else (None, None)
        if thm and name and name != thm:
            which = "tie theorem %s (its %s %s)" % (thm, "corollary" if name.endswith("_complete") else "lemma", name)
        else:
            which = "tie theorem %s" % (thm or name or "?")
        return ["regenerated %s no longer match the proved model, %s: %s of %s fails: %s"
                % (stage.what, tag, which, stage.tie_file.name, msg)], (stage.thms.index(thm) if thm in stage.thms else 0)
    paf = gd / ("PA_" + stage.tie_file.stem + ".v")
    paf.write_text("From Gen Require Import %s.\n" % stage.tie_file.stem + "".join("Print Assumptions %s.\n" % t for t in stage.thms))
    rc, pa = vlib.sh(args + [str(paf)], cwd=gd, timeout=timeout)
    closed = len(re.findall(r"^Closed under the global context", pa, flags=re.M))
    if rc != 0 or closed < len(stage.thms):
        return ["Print Assumptions under the tie theorems of %s, %s: %d of %d closed: %s"
                % (stage.tie_file.name, tag, closed, len(stage.thms), " ".join(pa.split())[-300:])], 0
    return [], len(stage.thms)


def one_layout(ctx, layout, what, nav, mac, timeout):
    """-> dict(layout, text, mtext, forms, broken: [messages], discharged: (nav, macros), unit: {tree: [unit functions]})"""
    r = {"layout": layout, "text": "", "mtext": "", "forms": {}, "broken": [], "discharged": [0, 0], "unit": {}}
    tag = "%s layout (%s)" % (layout, what)
    # a run against a scratch copy (VERIF_REPO) gets its own directory: it may run at the same time as a run on /repo
    scratch = "" if str(vlib.REPO) == "/repo" else "_" + hashlib.md5(str(vlib.REPO).encode()).hexdigest()[:8]
    gd = ctx.build / ("gen_nav" + scratch) / layout
    gd.mkdir(parents=True, exist_ok=True)
    for old in list(gd.glob("*.vo")) + list(gd.glob("*.glob")) + list(gd.glob("*.vok")) + list(gd.glob("*.vos")):
        try:
            old.unlink()
        except OSError:
            pass
    cfg = str(Path(layout_cfg(ctx, layout)).resolve())
    sigs = {}
    text, errs, forms = c2nav.translate(vlib.REPO, cfg, sigs=sigs)
    r.update(text=text, forms=forms)
    args = ["coqc", "-Q", str(vlib.COQ), "LibaV", "-Q", str(gd), "Gen", "-w", "none"]
    if errs:
        (gd / "NavGen.v").write_text(text)
        for k, v in errs.items():
            r["broken"].append("translator c2nav, %s: %s is outside the supported subset: %s" % (tag, k, v))
        r["broken"].append("the tie of the iteration macros was not checked in the %s layout (it builds on the navigation functions)" % layout)
        return r
    broken, n = run_stage(gd, args, nav, text, tag, timeout)
    r["discharged"][0] = n
    if broken:
        r["broken"] += broken + ["the tie of the iteration macros was not checked in the %s layout (it builds on the tie of the "
                                 "navigation functions)" % layout]
        return r
    # second stage: the iteration macros of the headers, expanded by clang in the unit file
    mtext, merrs, unit = c2nav.translate_unit(UNIT_FILE, vlib.REPO.resolve() / "include", cfg, sigs)
    r.update(mtext=mtext, unit=unit)
    if merrs:
        (gd / "NavGenMacros.v").write_text(mtext)
        for k, v in merrs.items():
            r["broken"].append("translator c2nav, %s: %s (iteration macro expanded in %s) is outside the supported subset: %s"
                               % (tag, k, UNIT_FILE.name, v))
        return r
    broken, n = run_stage(gd, args, mac, mtext, tag, timeout)
    r["discharged"][1] = n
    r["broken"] += broken
    return r


def nav_translate_and_tie(ctx, timeout=300):
    """Returns True iff every tie theorem (navigation functions and iteration macros) was accepted in both layouts."""
    nav = Stage("NavGen", TIE_FILE, "navigation functions")
    mac = Stage("NavGenMacros", MACRO_TIE_FILE, "iteration macros")
    funcs = [f for t in ("avl", "rbt") for f in c2nav.nav_functions(t)]
    ctx.cov["obligations"] += (len(nav.thms) + len(mac.thms)) * len(LAYOUTS)
    ctx.cov.setdefault("translated_functions", []).extend(funcs)
    for st in (nav, mac):
        bad = ctx.scan_forbidden_text(st.src)
        if bad:
            ctx.tie_broken("forbidden construct in %s: %s" % (st.tie_file, bad))
            return False
    # every function on the list must have its tie theorem (a function dropped from the tie file would otherwise go unnoticed)
    missing = [f for f in funcs if not f.endswith("_new_child") and "tie_" + f not in nav.thms]
    if missing:
        ctx.tie_broken("%s has no tie theorem for: %s" % (TIE_FILE.name, ", ".join(missing)))
        return False
    # ... and every iteration macro the CURRENT headers define (function-like macro whose replacement starts with `for`) must have its
    # unit function and its tie theorem
    macros = {t: c2nav.header_loop_macros(vlib.REPO / "include", t) for t in ("avl", "rbt")}
    unit_src = UNIT_FILE.read_text()
    ok = True
    for t, ms in macros.items():
        if len(ms) < 14:
            ctx.tie_broken("only %d iteration macros found in include/a/%s.h (14 expected: 7 loops, lower-case and upper-case form): %s"
                           % (len(ms), t, ", ".join(ms)))
            ok = False
        for m in ms:
            if not re.search(r"\bu_%s\s*\(" % re.escape(m), unit_src) or "tie_u_" + m not in mac.thms:
                ctx.tie_broken("iteration macro %s of include/a/%s.h has no unit function u_%s in %s or no tie theorem tie_u_%s in %s"
                               % (m, t, m, UNIT_FILE.name, m, MACRO_TIE_FILE.name))
                ok = False
    ctx.cov.setdefault("translated_macros", []).extend(m for t in ("avl", "rbt") for m in macros[t])
    if not ok:
        return False
    # model-level lemmas the macro tie relies on (coq/C03/NavLemmas.v): scanned and built like the rest of the development
    need = "C03/NavLemmas.v"
    bad = ctx.scan_forbidden([vlib.COQ / d for d in sorted(set(ctx.coq_deps(need)) | {need})])
    if bad:
        ctx.tie_broken("forbidden construct in the files the macro tie relies on: " + "; ".join(bad[:10]))
        return False
    okb, outs, failed = ctx.coq_build([need], timeout=timeout)
    if not okb:
        ctx.tie_broken("lemma file %s of the macro tie does not build: %s" % (",".join(failed), " ".join(outs.get(failed[0], "").split())[-400:]))
        return False
    with ThreadPoolExecutor(max_workers=len(LAYOUTS)) as ex:
        res = list(ex.map(lambda lw: one_layout(ctx, lw[0], lw[1], nav, mac, timeout), LAYOUTS))
    for r in res:
        ctx.cov["discharged"] += sum(r["discharged"])
        for b in r["broken"]:
            ok = False
            ctx.tie_broken(b)
        for st, n in zip((nav, mac), r["discharged"]):
            if n == len(st.thms):
                ctx.cov.setdefault("theorems", []).extend("%s [%s layout]" % (t, r["layout"]) for t in st.thms)
    same = len(set(r["text"] for r in res)) == 1 and len(set(r["mtext"] for r in res)) == 1
    ctx.cov["nav_tie"] = {
        "layouts": {r["layout"]: {"parent_accessor": r["forms"], "tie_theorems_accepted": r["discharged"][0], "of": len(nav.thms),
                                  "macro_tie_theorems_accepted": r["discharged"][1], "macro_of": len(mac.thms)} for r in res},
        "iteration_macros_of_the_headers": macros,
        "generated_code_identical_in_all_layouts": same,
        "generated_loops": len(re.findall(r"^Fixpoint ", res[0]["text"] + res[0]["mtext"], flags=re.M)),
        "generated_lines": (res[0]["text"] + res[0]["mtext"]).count("\n")}
    if not ok:
        return False
    ctx.cov["trusted_base"].append(
        "translator tools/c2nav.py (clang JSON AST -> Gallina over the reader/heap vocabulary of C03/IterDefs.v: checked field reads, "
        "fuelled loops, state writes, visits as a returned list, checked free; parent accessor recognised by its definition); its "
        "output is re-tied on every run: %d tie theorems for the navigation functions + %d for the iteration macros of avl.h / rbt.h "
        "(expanded by clang in harness/C03/macro_unit.c) x %d node layouts (generated function = proved model / enumeration, for every "
        "reader, fuel, root and state) accepted by coqc, all closed under the global context; generated code %s in the two layouts"
        % (len(nav.thms), len(mac.thms), len(LAYOUTS), "identical" if same else "DIFFERENT"))
    ctx.log("navigation translator tie: %d functions + %d iteration macros regenerated per layout, (%d + %d) tie theorems x %d layouts accepted%s"
            % (len(funcs), sum(len(v) for v in macros.values()), len(nav.thms), len(mac.thms), len(LAYOUTS),
               "" if same else " (generated code differs between the layouts)"))
    return True
