#!/usr/bin/env python3
"""c2heap: translate small pointer-manipulating C functions (clang JSON AST) into checked heap programs in Gallina.

Target shape (the one the hand models of coq/C05 are written in): a function takes the heap `h` and node addresses (`id` = N,
0 = null) and returns `option <heap>`; every field read is `do x <- RD h a; ...`, every field write `do h' <- WR h a v; ...`,
where RD/WR are the model's checked accessors for that field (None = access to an address that is not in the heap).  The
translation is statement by statement, in the C's order:

    p->f = e;            do h1 <- WR_f h p e;
    x = p->f  (in e)     do x1 <- RD_f h p;
    if (c) S  (no else)  do h1 <- (if <c> then <S; Some h> else Some h);      when S does not end the function's work
    if (c) { rest }      if <not c> then Some h else <rest>                   when the `if` is the last statement
    f(a, b);             do h1 <- gen_f h a b;                                for functions translated earlier in the run
    T *const x = e;      (binds x)
    c ::= p | !p | p && q   with p a pointer expression: p  ~  negb (N.eqb p 0)

Configuration (per header): which struct fields exist and the names of their accessors; which member is an embedded node
at the same address (`&ctx->head` is the address of ctx itself, `ctx->head.next` is field next of that address).
Anything else raises Unsupported (the check then reports a broken tie)."""
import json
import subprocess
import sys


class Unsupported(Exception):
    pass


def load_ast(path, include, cfg):
    cmd = ["clang", "-std=c11", "-I", include, '-DA_HAVE_H="%s"' % cfg, "-fsyntax-only", "-Xclang", "-ast-dump=json", path]
    p = subprocess.run(cmd, stdout=subprocess.PIPE, stderr=subprocess.PIPE, text=True)
    if not p.stdout:
        raise Unsupported("clang failed on %s: %s" % (path, p.stderr[-400:]))
    return json.loads(p.stdout)


def strip(n):
    while isinstance(n, dict) and n.get("kind") in ("ImplicitCastExpr", "ParenExpr", "CStyleCastExpr"):
        n = n["inner"][-1]
    return n


class Fn:
    def __init__(self, node, conf, translated):
        self.node, self.conf, self.translated = node, conf, translated
        self.name = node["name"]
        self.hn = 0          # heap version counter
        self.vn = {}         # fresh value names

    def where(self, n):
        loc = n.get("loc", {}) or n.get("range", {}).get("begin", {})
        return "%s:%s" % (self.name, loc.get("line") or loc.get("expansionLoc", {}).get("line"))

    def fresh(self, base):
        k = self.vn.get(base, 0)
        self.vn[base] = k + 1
        return base if k == 0 else "%s%d" % (base, k)

    def newheap(self):
        self.hn += 1
        return "%s%d" % (self.conf["heap"], self.hn)

    # ---- expressions of pointer type: returns (prefix lines, term); reads are sequenced through `pre`
    def ptr(self, n, env, h, pre):
        n = strip(n)
        k = n["kind"]
        if k == "DeclRefExpr":
            nm = n["referencedDecl"]["name"]
            if nm not in env:
                raise Unsupported("unknown variable %s at %s" % (nm, self.where(n)))
            return env[nm]
        if k == "IntegerLiteral" and n.get("value") == "0":
            return "0"
        if k == "GNUNullExpr" or (k == "CStyleCastExpr"):
            return "0"
        if k == "UnaryOperator" and n.get("opcode") == "&":
            m = strip(n["inner"][0])
            if m["kind"] == "MemberExpr" and m["name"] in self.conf.get("embedded", ()):
                return self.ptr(m["inner"][0], env, h, pre)          # &ctx->head is the address of ctx
            raise Unsupported("address-of at %s" % self.where(n))
        if k == "MemberExpr":
            base, field = self.member(n, env, h, pre)
            rd = self.conf["fields"][field][0]
            x = self.fresh(self.conf.get("read_names", {}).get(field, "x"))
            pre.append("do %s <- %s %s %s;" % (x, rd, h, base))
            return x
        raise Unsupported("pointer expression %s at %s" % (k, self.where(n)))

    def member(self, n, env, h, pre):
        """(base address term, field key) of a member access; ctx->head.next -> (ctx, 'next') for an embedded node"""
        n = strip(n)
        b = strip(n["inner"][0])
        if b["kind"] == "MemberExpr" and b["name"] in self.conf.get("embedded", ()):
            return self.ptr(b["inner"][0], env, h, pre), n["name"]
        if n["name"] not in self.conf["fields"]:
            raise Unsupported("field %s at %s" % (n["name"], self.where(n)))
        return self.ptr(b, env, h, pre), n["name"]

    def cond(self, n, env, h, pre):
        """condition -> list of (term, positive?) conjuncts evaluated in order; each is 'pointer is non-null' or its negation"""
        n = strip(n)
        if n["kind"] == "UnaryOperator" and n.get("opcode") == "!":
            (t, pos), = self.cond(n["inner"][0], env, h, pre)
            return [(t, not pos)]
        if n["kind"] == "BinaryOperator" and n.get("opcode") == "&&":
            raise Unsupported("&& outside a statement-level if at %s" % self.where(n))
        return [(self.ptr(n, env, h, pre), True)]

    # ---- statements.  Returns the text of the monadic term for stmts followed by `Some h` (k = final continuation)
    def block(self, stmts, env, h):
        if not stmts:
            return "Some %s" % h
        s, rest = stmts[0], stmts[1:]
        k = s["kind"]
        if k == "CompoundStmt":
            return self.block(s.get("inner", []) + rest, env, h)
        if k == "NullStmt":
            return self.block(rest, env, h)
        if k == "DeclStmt":
            pre = []
            for d in s["inner"]:
                if d["kind"] != "VarDecl":
                    continue
                init = [c for c in d.get("inner", []) if "Expr" in c["kind"] or "Operator" in c["kind"] or "Literal" in c["kind"]]
                if not init:
                    raise Unsupported("uninitialised local %s at %s" % (d["name"], self.where(s)))
                self.conf.setdefault("read_names", {})
                save = dict(self.conf["read_names"])
                for f in self.conf["fields"]:
                    self.conf["read_names"][f] = d["name"]
                env = dict(env)
                env[d["name"]] = self.ptr(init[0], env, h, pre)
                self.conf["read_names"] = save
            return " ".join(pre) + (" " if pre else "") + self.block(rest, env, h)
        if k == "BinaryOperator" and s.get("opcode") == "=":
            return self.assign(s, rest, env, h)
        if k == "CallExpr":
            callee = strip(s["inner"][0])
            fname = callee["referencedDecl"]["name"]
            if fname not in self.translated:
                raise Unsupported("call to %s (not translated) at %s" % (fname, self.where(s)))
            pre = []
            args = [self.ptr(a, env, h, pre) for a in s["inner"][1:]]
            h2 = self.newheap()
            return " ".join(pre) + (" " if pre else "") + "do %s <- gen_%s %s %s; " % (h2, fname, h, " ".join(args)) + self.block(rest, env, h2)
        if k == "IfStmt":
            parts = s["inner"]
            if len(parts) > 2:
                raise Unsupported("if/else at %s" % self.where(s))
            c = strip(parts[0])
            if c["kind"] == "BinaryOperator" and c.get("opcode") == "&&":
                # if (a && b) S  ==  if (a) { if (b) S }
                inner = {"kind": "IfStmt", "inner": [c["inner"][1], parts[1]], "loc": s.get("loc", {}), "range": s.get("range", {})}
                outer = {"kind": "IfStmt", "inner": [c["inner"][0], {"kind": "CompoundStmt", "inner": [inner]}], "loc": s.get("loc", {}),
                         "range": s.get("range", {})}
                return self.block([outer] + rest, env, h)
            pre = []
            (t, pos), = self.cond(c, env, h, pre)
            p = " ".join(pre) + (" " if pre else "")
            body = self.block([parts[1]], env, h)
            if not rest:
                # the guarded statement is all that is left
                return p + ("if N.eqb %s 0 then Some %s else %s" % (t, h, body) if pos else "if N.eqb %s 0 then %s else Some %s" % (t, body, h))
            h2 = self.newheap()
            g = ("(if N.eqb %s 0 then Some %s else %s)" % (t, h, body)) if pos else ("(if N.eqb %s 0 then %s else Some %s)" % (t, body, h))
            return p + "do %s <- %s; " % (h2, g) + self.block(rest, env, h2)
        if k == "ReturnStmt" and not s.get("inner"):
            return "Some %s" % h
        raise Unsupported("statement %s at %s" % (k, self.where(s)))

    def assign(self, s, rest, env, h):
        lhs, rhs = strip(s["inner"][0]), s["inner"][1]
        r = strip(rhs)
        pre = []
        if r["kind"] == "BinaryOperator" and r.get("opcode") == "=":
            # a = b = v : assign b first, then a (the value is v)
            inner_txt_h = self.assign_one(strip(r["inner"][0]), r["inner"][1], env, h, pre)
            val = self._last_val
            h2 = inner_txt_h
            h3 = self.assign_one(lhs, None, env, h2, pre, val=val)
            return " ".join(pre) + " " + self.block(rest, env, h3)
        h2 = self.assign_one(lhs, rhs, env, h, pre)
        return " ".join(pre) + " " + self.block(rest, env, h2)

    def assign_one(self, lhs, rhs, env, h, pre, val=None):
        if lhs["kind"] != "MemberExpr":
            raise Unsupported("assignment to %s at %s" % (lhs["kind"], self.where(lhs)))
        if val is None:
            val = self.ptr(rhs, env, h, pre)
        base, field = self.member(lhs, env, h, pre)
        self._last_val = val
        h2 = self.newheap()
        pre.append("do %s <- %s %s %s %s;" % (h2, self.conf["fields"][field][1], h, base, val))
        return h2

    def translate(self):
        params = [c for c in self.node.get("inner", []) if c["kind"] == "ParmVarDecl"]
        body = [c for c in self.node["inner"] if c["kind"] == "CompoundStmt"][0]
        RES = {"at", "as", "in", "fun", "let", "if", "then", "else", "end", "match", "with", "return", "using", "for", "where", "fix", "cofix", "forall", "exists", "Type", "Prop", "Set"}
        pname = lambda x: x + "_" if x in RES else x
        env = {p["name"]: pname(p["name"]) for p in params}
        h = self.conf["heap"]
        term = self.block(body.get("inner", []), env, h)
        return "Definition gen_%s (%s : %s) (%s : id) : option %s :=\n  %s." % (
            self.name, h, self.conf["heap_type"], " ".join(pname(p["name"]) for p in params), self.conf["heap_type"], " ".join(term.split()))


def translate_file(path, include, cfg, names, conf):
    ast = load_ast(path, include, cfg)
    funcs = {}
    for n in ast.get("inner", []):
        if n.get("kind") == "FunctionDecl" and any(c.get("kind") == "CompoundStmt" for c in n.get("inner", [])):
            funcs[n["name"]] = n
    out, errs, done = [], {}, {}
    for nm in names:
        if nm not in funcs:
            errs[nm] = "function %s not found with a body in %s" % (nm, path)
            continue
        try:
            out.append(Fn(funcs[nm], dict(conf), done).translate())
            done[nm] = True
        except Unsupported as e:
            errs[nm] = str(e)
    return "\n\n".join(out) + "\n", errs


if __name__ == "__main__":
    conf = json.loads(sys.argv[4])
    t, e = translate_file(sys.argv[1], sys.argv[2], sys.argv[3], sys.argv[5:], conf)
    print(t)
    for k, v in e.items():
        print("(* ERROR %s: %s *)" % (k, v))
